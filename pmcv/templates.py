"""Term domain: rewrite templates of the formula rewriters.

A template is the abstract result of interpreting a rewriting method on a
generic instance  C(h0, h1, ..)  whose children are holes.  Calls of the same
rewriting method on a hole yield the *rewritten hole*  ('hole', i)  (induction
hypothesis); LNot is summarised (its own soundness is rule R-RW-3).

Terms are nested tuples:
    ('hole', i) | ('raw', i) | ('bool', b) | ('atom', name)
    | ('LNot', t) | (Op, lang, t1, .., tn)     Op in Not Or And Imply X F G U R A E
"""
from .program import ClassInfo, Inconclusive, AnalysisError
from .values import (Const, Sym, CRef, FRef, Bound, BoundB, Obj, Tup, App,
                     New, Raise)
from .interp import Interp
from .formulas import FormulaHooks, LANGS, lang_of_class


class TemplateHooks(FormulaHooks):
    def __init__(self, prog, method, extra_args=(), equiv=()):
        FormulaHooks.__init__(self, prog, check_sorts=True)
        self.method = method
        # other rewriters that keep the meaning of the formula they are
        # called on (decided by their own rules): the result is the operand
        self.equiv = tuple(equiv)
        self.lnot = prog.func('language.LNot')
        self.not_base = prog.cls('language.Not')
        self.raw_uses = []

    def call(self, I, fv, args, kw, path, node):
        # rewriting method / clone called on a hole
        if isinstance(fv, BoundB) or (isinstance(fv, App) and
                                      fv.op == 'attr'):
            recv = fv.recv if isinstance(fv, BoundB) else fv.args[0]
            name = fv.name if isinstance(fv, BoundB) else fv.args[1].v
            return self._hole_method(recv, name, args, path)
        if isinstance(fv, Bound) and isinstance(fv.recv, Sym) and \
                fv.recv.meta and fv.recv.meta[0] in ('hole', 'rhole'):
            r = self._hole_method(fv.recv, fv.f.fi.name, args, path)
            if r is not None:
                return r
        if isinstance(fv, FRef) and fv.fi is self.lnot and len(args) == 1:
            return [(path, self.summ_lnot(I, args[0], path))]
        return None

    def _hole_method(self, recv, name, args, path):
        if isinstance(recv, Sym) and recv.meta and \
                recv.meta[0] in ('hole', 'rhole'):
            i = recv.meta[1]
            if name == self.method:
                return [(path, Sym('r%d' % i, recv.typ, ('rhole', i)))]
            if name == 'clone' or name in self.equiv:
                return [(path, recv)]
        return None

    def summ_lnot(self, I, x, path):
        """LNot(x) == not x without a double leading negation"""
        if isinstance(x, New) and isinstance(x.ci, ClassInfo) and \
                x.ci.is_subclass_of(self.not_base) and len(x.args) == 1:
            y = x.args[0]
            if isinstance(y, New) and y.ci.is_subclass_of(self.not_base) \
                    and len(y.args) == 1:
                return self.summ_lnot(I, y.args[0], path)
            return y
        if isinstance(x, New) and isinstance(x.ci, ClassInfo):
            al = self.prog.alphabet(x.ci.module.name)
            return New(al['Not'], (x,))
        return App('LNot', x)

    def isinstance(self, I, val, ci, path):
        return None


def make_hole(prog, i, lang, kind='hole'):
    base = prog.cls('%s.Formula' % LANGS[lang])
    return Sym('%s%d' % ('h' if kind == 'hole' else 'r', i), ('inst', base),
               (kind, i))


def to_term(v, prog, path=None):
    """value -> term tuple (raises Inconclusive when it is not a term)"""
    if isinstance(v, Sym) and v.meta:
        if v.meta[0] == 'rhole':
            return ('hole', v.meta[1])
        if v.meta[0] == 'hole':
            return ('raw', v.meta[1])
        if v.meta[0] == 'fairap':
            return ('atom', '$fair')
    if isinstance(v, App) and v.op == 'LNot':
        return ('LNot', to_term(v.args[0], prog, path))
    if isinstance(v, New) and isinstance(v.ci, ClassInfo):
        lang = lang_of_class(prog, v.ci)
        if lang is None:
            raise Inconclusive('term', 'formula class outside the four '
                               'languages: %s' % v.ci.qn, '')
        name = v.ci.name
        if name == 'Bool':
            a = v.args[0]
            if isinstance(a, Const) and isinstance(a.v, bool):
                return ('bool', a.v)
            raise Inconclusive('term', 'non-constant Bool %r' % (a,), '')
        if name == 'AtomicProposition':
            a = v.args[0]
            if isinstance(a, Sym) and a.meta and a.meta[0] == 'fairap':
                return ('atom', '$fair')
            if isinstance(a, Const):
                return ('atom', a.v)
            if isinstance(a, Sym) and a.meta and a.meta[0] == 'apname':
                return ('atom', 'p')
            raise Inconclusive('term', 'atom %r' % (a,), '')
        kids = []
        for a in v.args:
            if isinstance(a, App) and a.op == 'star':
                raise Inconclusive('term', 'starred symbolic operands', '')
            kids.append(to_term(a, prog, path))
        return (name, lang) + tuple(kids)
    if isinstance(v, Const) and isinstance(v.v, bool):
        return ('bool', v.v)
    raise Inconclusive('term', 'value is not a formula term: %r' % (v,), '')


def show(t):
    k = t[0]
    if k == 'hole':
        return "c%d'" % t[1]
    if k == 'raw':
        return 'c%d' % t[1]
    if k == 'bool':
        return 'true' if t[1] else 'false'
    if k == 'atom':
        return str(t[1])
    if k == 'LNot':
        return 'LNot(%s)' % show(t[1])
    kids = [show(x) for x in t[2:]]
    if k in ('Or', 'And', 'Imply', 'U', 'R') and len(kids) >= 2:
        return '(' + (' %s ' % k).join(kids) + ')'
    return '%s(%s)' % (k, ', '.join(kids))


def extract(prog, ci, method, kids, extra_args=(), rule='R-RW', equiv=()):
    """interpret `method` on the generic instance ci(*kids) -> list of
    (term | ('raise', cls), path)"""
    f = prog.method(ci, method)
    if f is None:
        raise AnalysisError('%s not resolved for %s' % (method, ci.qn))
    hooks = TemplateHooks(prog, method, equiv=equiv)
    I = Interp(prog, hooks, rule=rule, max_depth=10)
    path = I.new_path()
    self_v = New(ci, kids)
    res = I.call_function(FRef(f), [self_v] + list(extra_args), [], path,
                          f.node)
    out = []
    for (p, v) in res:
        if isinstance(v, Raise):
            c = I.exc_class(v.exc)
            msg = v.exc.args[0].v if isinstance(v.exc, New) and v.exc.args \
                and isinstance(v.exc.args[0], Const) else ''
            out.append((('raise', c.name if c else '?', msg,
                         I.where(v.node, f.module)), p))
        else:
            out.append((to_term(v, prog, p), p))
    return f, out


def generic_instances(prog, lang):
    """for each alphabet class of `lang`: the generic instances to analyse
    -> list of (name, ci, kids, lhs_term)"""
    mod = LANGS[lang]
    al = prog.alphabet(mod)
    out = []
    arity = {'Not': 1, 'X': 1, 'F': 1, 'G': 1, 'A': 1, 'E': 1, 'Imply': 2,
             'U': 2, 'R': 2}
    for name, ci in sorted(al.items()):
        if name in ('Bool', 'AtomicProposition'):
            continue
        if lang == 'CTL' and name in ('A', 'E'):
            for t in ('X', 'F', 'G', 'U', 'R'):
                n = arity[t]
                holes = [make_hole(prog, i, lang) for i in range(n)]
                inner = New(al[t], holes)
                lhs = (name, lang, (t, lang) + tuple(('raw', i)
                                                     for i in range(n)))
                out.append((name + t, ci, [inner], lhs))
            continue
        # n-ary connectives: And('p') / Or('p') with one operand can be built
        ns = [arity[name]] if name in arity else [1, 2, 3]
        for n in ns:
            holes = [make_hole(prog, i, lang) for i in range(n)]
            lhs = (name, lang) + tuple(('raw', i) for i in range(n))
            out.append((name if len(ns) == 1 else '%s/%d' % (name, n), ci,
                        holes, lhs))
    return out
