"""names of private fields, discovered from the accessors that expose them
(a renamed private field must not change any verdict).

  subformulas      language.Formula.subformulas()        returns self.<F>
  bool value       language.Bool.__init__(self, value)   self.<F> = .. value ..
  labels           kripke.Kripke.labelling_function()    returns self.<F>
  adjacency        graph.DiGraph.nodes()                 (rules/c13.adjacency_field)
"""
import ast

from .program import Inconclusive

_cache = {}


def _returned_self_attr(f):
    """the attribute name in `return self.<name>` (only return of f)"""
    rets = [n for n in ast.walk(f.node) if isinstance(n, ast.Return)]
    names = set()
    for r in rets:
        v = r.value
        if isinstance(v, ast.Attribute) and isinstance(v.value, ast.Name) \
                and v.value.id == f.node.args.args[0].arg:
            names.add(v.attr)
        else:
            return None
    return names.pop() if len(names) == 1 else None


def _get(prog, key, compute, default):
    k = (id(prog), key)
    if k not in _cache:
        try:
            v = compute()
        except Exception:
            v = None
        _cache[k] = v if v else default
    return _cache[k]


def subformula_field(prog):
    def c():
        ci = prog.cls('language.Formula')
        for owner in [ci] + [x for x in prog.classes.values()
                             if x.is_subclass_of(ci)]:
            f = prog.method(owner, 'subformulas')
            if f is not None:
                n = _returned_self_attr(f)
                if n:
                    return n
        return None
    return _get(prog, 'sub', c, '_subformula')


def bool_value_field(prog):
    def c():
        ci = prog.cls('language.Bool')
        f = prog.method(ci, '__init__', own=True)
        if f is None:
            return None
        params = [a.arg for a in f.node.args.args]
        if len(params) < 2:
            return None
        for n in ast.walk(f.node):
            if isinstance(n, ast.Assign) and len(n.targets) == 1 and \
                    isinstance(n.targets[0], ast.Attribute) and \
                    isinstance(n.targets[0].value, ast.Name) and \
                    n.targets[0].value.id == params[0] and \
                    any(isinstance(m, ast.Name) and m.id == params[1]
                        for m in ast.walk(n.value)):
                return n.targets[0].attr
        return None
    return _get(prog, 'boolval', c, '_value')


def labels_field(prog):
    def c():
        ci = prog.cls('kripke.Kripke')
        f = prog.method(ci, 'labelling_function')
        return _returned_self_attr(f) if f is not None else None
    return _get(prog, 'labels', c, '_labels')


def _attr_assigned_from_param(f, pindex):
    """self.<name> = <expr mentioning parameter #pindex> in function f"""
    params = [a.arg for a in f.node.args.args]
    if len(params) <= pindex:
        return None
    selfn, pn = params[0], params[pindex]
    found = []
    for n in ast.walk(f.node):
        if isinstance(n, ast.Assign) and len(n.targets) == 1 and \
                isinstance(n.targets[0], ast.Attribute) and \
                isinstance(n.targets[0].value, ast.Name) and \
                n.targets[0].value.id == selfn and \
                any(isinstance(m, ast.Name) and m.id == pn
                    for m in ast.walk(n.value)):
            if n.targets[0].attr not in found:
                found.append(n.targets[0].attr)
    return found[0] if len(found) == 1 else None


def s0_field(prog):
    """the attribute Kripke.__init__ fills from its `S0` parameter"""
    def c():
        ci = prog.cls('kripke.Kripke')
        f = prog.method(ci, '__init__', own=True)
        # Kripke(S, S0, R, L): the second positional parameter
        return _attr_assigned_from_param(f, 2)
    return _get(prog, 's0', c, 'S0')


def height_field(prog):
    """the rank attribute of formulas: what wrap_subformulas maintains as
    1 + max over the operands (`self.<F> = max(self.<F>, phi.<F> + 1)`)"""
    def c():
        names = []
        for cq in ('PL.language.Formula', 'language.Formula'):
            ci = prog.cls(cq)
            f = prog.method(ci, 'wrap_subformulas', own=True)
            if f is None:
                continue
            for n in ast.walk(f.node):
                if isinstance(n, ast.Assign) and len(n.targets) == 1 and \
                        isinstance(n.targets[0], ast.Attribute) and \
                        any(isinstance(m, ast.Attribute) and
                            m.attr == n.targets[0].attr and m is not
                            n.targets[0] for m in ast.walk(n.value)):
                    if n.targets[0].attr not in names:
                        names.append(n.targets[0].attr)
        return names[0] if len(names) == 1 else None
    return _get(prog, 'height', c, 'height')


def bdd_node_fields(prog):
    """(variable, low, high) field names of a non-terminal node and the
    value field of a terminal node, from the reset routines"""
    def c():
        nt = prog.cls('BDD.BDD.BDDNonTerminalNode')
        tt = prog.cls('BDD.BDD.BDDTerminalNode')
        f = prog.method(nt, '__reset__', own=True)
        g = prog.method(tt, '__reset__', own=True)
        if f is None or g is None:
            return None
        a = tuple(_attr_assigned_from_param(f, i) for i in (1, 2, 3))
        v = _attr_assigned_from_param(g, 1)
        if None in a or v is None:
            return None
        return a + (v,)
    return _get(prog, 'bdd', c, ('var', 'low', 'high', 'value'))
