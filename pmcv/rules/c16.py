"""C16 -- one OBDD per Boolean function: hash-consing discipline (partial).

R-HC-1 who may allocate a node; allocation is dominated by `low is high` and
       by a miss of the isomorph lookup (terminals: by a miss in the table)
R-HC-2 on every allocation path the node is registered with both children
R-HC-3 the lookup scans one of those two registries and tests the variable
       and the *other* child by identity
R-HC-4 node fields are written only by the reset routine of a fresh node
R-HC-5 registries are weak sets; node ==/hash are identity; OBDD == is root
       identity and ordering equality
"""
import ast

from ..program import AnalysisError, Inconclusive, ClassInfo, ExtClass
from ..values import (Const, Sym, CRef, FRef, ERef, Bound, Obj, Tup, App,
                      New, Raise, walk)
from ..interp import Interp, Hooks
from ..effects import Effects
from ..report import Finding, RuleResult, floor, Attempts, adopt

PROP = 'C16'


def _classes(prog):
    return (prog.cls('BDD.BDD.BDDNode'),
            prog.cls('BDD.BDD.BDDNonTerminalNode'),
            prog.cls('BDD.BDD.BDDTerminalNode'))


def discover_lookup(prog, new):
    """the package function BDDNonTerminalNode.__new__ consults before it
    allocates"""
    mod = new.module
    cands = []
    for n in ast.walk(new.node):
        if isinstance(n, ast.Call) and isinstance(n.func, ast.Name) and \
                n.func.id in mod.funcs:
            cands.append(mod.funcs[n.func.id])
    if not cands:
        return None
    if len(cands) != 1:
        raise Inconclusive('R-HC-1', 'isomorph lookup not unique: %r' % (
            cands,), new.where())
    return cands[0]


class _NewHooks(Hooks):
    def __init__(self, lookup):
        self.lookup = lookup

    def inline(self, I, fi, args):
        return fi is not self.lookup


def rule_hc12(prog):
    r1 = RuleResult('R-HC-1', 'allocation of a node is dominated by the '
                    'reduction test and by a miss of the unique-table '
                    'lookup; nothing else allocates')
    r2 = RuleResult('R-HC-2', 'every allocation path registers the node '
                    'with both children')
    base, nt, tt = _classes(prog)
    new = prog.method(nt, '__new__', own=True)
    if new is None:
        raise AnalysisError('BDDNonTerminalNode.__new__ not found')
    lookup = discover_lookup(prog, new)
    if lookup is not None:
        r1.transparent = r2.transparent = (lookup,)
    if lookup is None:
        r1.fail(Finding(
            PROP, 'R-HC-1', new.where(), new.short(), 'no-lookup',
            'the node constructor consults no unique-table lookup before '
            'allocating: two live nodes can share one (variable, low, '
            'high)'))
        return r1, r2, None, None
    I = Interp(prog, _NewHooks(lookup), rule='R-HC-1')
    path = I.new_path()
    var = Sym('var')
    low = Sym('low', ('inst', base))
    high = Sym('high', ('inst', base))
    res = I.call_function(FRef(new), [CRef(nt), var, low, high], [], path,
                          new.node)
    nalloc = 0
    for (p, v) in res:
        if isinstance(v, Raise):
            continue
        allocs = [e for e in p.log if e.kind == 'alloc']
        desc = dict(returns=repr(v)[:80], allocates=bool(allocs),
                    condition=[('' if pol else 'not ') + repr(c)[:110]
                               for (c, pol) in p.pc])
        r1.inst(**desc)
        if not allocs:
            # returned an existing node: must be low (when low is high) or
            # the lookup result
            ok = (v == low and (App('cmp', Const('is'), low, high), True)
                  in p.pc) or (v == high and
                               (App('cmp', Const('is'), low, high), True)
                               in p.pc) or _is_lookup(v, lookup)
            if ok:
                r1.ok()
            else:
                r1.fail(Finding(
                    PROP, 'R-HC-1', new.where(), new.short(),
                    'returns:%r' % (v,),
                    'the node constructor returns %r without allocating, '
                    'but that is neither the common child nor the lookup '
                    'result' % (v,)), witness=v)
            continue
        nalloc += 1
        red = (App('cmp', Const('is'), low, high), False) in p.pc or \
            (App('cmp', Const('is not'), low, high), True) in p.pc
        miss = False
        for (c, pol) in p.pc:
            if isinstance(c, App) and c.op == 'cmp' and \
                    _is_lookup(c.args[1], lookup, (var, low, high)) and \
                    c.args[2] == Const(None):
                if (c.args[0].v == 'is not' and not pol) or \
                        (c.args[0].v == 'is' and pol):
                    miss = True
        if red:
            r1.ok()
        else:
            r1.fail(Finding(
                PROP, 'R-HC-1', new.where(), new.short(), 'no-reduction',
                'a node is allocated on a path that has not established '
                '`low is not high`: a redundant node (both children equal) '
                'can be created'))
        if miss:
            r1.ok()
        else:
            r1.fail(Finding(
                PROP, 'R-HC-1', new.where(), new.short(), 'no-lookup-miss',
                'a node is allocated on a path that has not established '
                'that %s(var, low, high) found nothing: two live nodes can '
                'share one (variable, low, high)' % lookup.short(),
                expected='allocation only after a lookup miss',
                found=desc['condition']))
        # registration with both children
        node = allocs[0].target
        regs = [(e.target, e.name) for e in p.log if e.kind == 'mutate' and
                e.name == 'add' and e.args and e.args[0] == node]
        fields = dict((k, val) for k, val in p.heap[node.oid].fields.items())
        lowreg = [t for (t, n) in regs if isinstance(t, App) and
                  t.op == 'attr' and t.args[0] == low]
        highreg = [t for (t, n) in regs if isinstance(t, App) and
                   t.op == 'attr' and t.args[0] == high]
        r2.inst(node_fields={k: repr(x)[:40] for k, x in fields.items()},
                registered_in=[repr(t) for (t, n) in regs])
        okf = fields.get('var') == var and fields.get('low') == low and \
            fields.get('high') == high
        if okf:
            r2.ok()
        else:
            r2.fail(Finding(
                PROP, 'R-HC-2', new.where(), new.short(),
                'fields:%s' % sorted((k, repr(x)) for k, x in fields.items()
                                     if k in ('var', 'low', 'high')),
                'the fresh node does not store (var, low, high) in its '
                'fields: %r' % ({k: x for k, x in fields.items()},)))
        if len(lowreg) == 1 and len(highreg) == 1 and \
                lowreg[0].args[1] != highreg[0].args[1]:
            r2.ok()
            reg_fields = (lowreg[0].args[1].v, highreg[0].args[1].v)
        else:
            reg_fields = None
            r2.fail(Finding(
                PROP, 'R-HC-2', new.where(), new.short(),
                'registration:%s' % sorted(repr(t) for (t, n) in regs),
                'the fresh node is not registered with both children (one '
                'registry of `low`, another of `high`): %s; the lookup can '
                'miss an existing node and a duplicate is created' % (
                    [repr(t) for (t, n) in regs],),
                expected='low.<registry A>.add(node) and '
                         'high.<registry B>.add(node)'))
    if nalloc == 0:
        # nothing recognised as the allocation: outside the fragment
        raise Inconclusive('R-HC-1', 'no path of the constructor allocates '
                           'a node', new.where())
        reg_fields = None
    # terminals
    tnew = prog.method(tt, '__new__', own=True)
    I = Interp(prog, Hooks(), rule='R-HC-1')
    path = I.new_path()
    val = Sym('value')
    res = I.call_function(FRef(tnew), [CRef(tt), val], [], path, tnew.node)
    for (p, v) in res:
        if isinstance(v, Raise):
            continue
        allocs = [e for e in p.log if e.kind == 'alloc']
        if not allocs:
            r1.inst(terminal=True, allocates=False, returns=repr(v)[:80])
            continue
        guard = any(isinstance(c, App) and c.op == 'in' and
                    c.args[0] == val and not pol for (c, pol) in p.pc)
        if not guard:
            # `TABLE.get(value) is None`
            for (c, pol) in p.pc:
                if isinstance(c, App) and c.op == 'cmp' and \
                        c.args[0].v in ('is', '==', 'is not', '!='):
                    a, b = c.args[1], c.args[2]
                    if isinstance(b, App) and b.op == 'dictget':
                        a, b = b, a
                    if isinstance(a, App) and a.op == 'dictget' and \
                            len(a.args) >= 2 and a.args[1] == val and \
                            (len(a.args) == 2 or
                             a.args[2] == Const(None)) and \
                            b == Const(None) and \
                            pol == (c.args[0].v in ('is', '==')):
                        guard = True
        if not guard:
            # the other spelling of a miss: `try: return TABLE[value]` left
            # through `except KeyError`
            vname = tnew.node.args.args[1].arg if len(
                tnew.node.args.args) > 1 else None
            for (c, pol) in p.pc:
                if isinstance(c, App) and c.op == 'implicit_exc' and pol \
                        and c.args[0].v in ('KeyError', 'LookupError'):
                    for t in ast.walk(tnew.node):
                        if isinstance(t, ast.Try) and any(
                                isinstance(x, ast.Subscript) and
                                isinstance(x.slice, ast.Name) and
                                x.slice.id == vname and
                                isinstance(x.ctx, ast.Load)
                                for b in t.body for x in ast.walk(b)) and \
                                t.lineno <= c.args[1].v <= max(
                                    getattr(b, 'end_lineno', b.lineno)
                                    for b in t.body):
                            guard = True
        stores = [e for e in p.log if e.kind == 'setitem' and
                  e.args[0] == val and e.args[1] == allocs[0].target]
        r1.inst(terminal=True, allocates=True, guarded_by_table_miss=guard,
                stored_in_table=bool(stores))
        if guard and stores:
            r1.ok()
        else:
            r1.fail(Finding(
                PROP, 'R-HC-1', tnew.where(), tnew.short(),
                'terminal:%s:%s' % (guard, bool(stores)),
                'a terminal node is allocated without a miss in the table '
                'of terminals, or is not stored there: two terminals for '
                'one value can exist'))
    # nothing else allocates nodes
    for fi in prog.all_functions():
        if not fi.module.name.startswith(prog.module('BDD').name):
            continue
        for n in ast.walk(fi.node):
            if isinstance(n, ast.Call) and isinstance(n.func,
                                                      ast.Attribute) and \
                    n.func.attr == '__new__':
                inside = fi.qn in constructor_closure(prog) and \
                    fi.owner in (nt, tt)
                r1.inst(allocation_site=fi.short(),
                        line=n.lineno, inside_constructor=inside)
                if inside:
                    r1.ok()
                elif fi.owner is not None and fi.owner.is_subclass_of(base) \
                        or 'Node' in ast.unparse(n):
                    r1.fail(Finding(
                        PROP, 'R-HC-1', '%s:%d' % (fi.module.relpath,
                                                   n.lineno), fi.short(),
                        'foreign-alloc:' + ast.unparse(n),
                        '%s allocates a node directly (%s), bypassing the '
                        'hash-consing constructor' % (fi.short(),
                                                      ast.unparse(n))))
    return r1, r2, lookup, reg_fields


def _is_lookup(v, lookup, args=None):
    if isinstance(v, App) and v.op == 'call' and isinstance(v.args[0], FRef) \
            and v.args[0].fi is lookup:
        return args is None or tuple(v.args[1].items) == tuple(args)
    return False


def rule_hc3(prog, lookup, reg_fields):
    r = RuleResult('R-HC-3', 'the lookup scans a registry of one child and '
                   'tests the variable and the other child by identity')
    base, nt, tt = _classes(prog)
    I = Interp(prog, Hooks(), rule='R-HC-3')
    path = I.new_path()
    var = Sym('var')
    low = Sym('low', ('inst', base))
    high = Sym('high', ('inst', base))
    res = I.call_function(FRef(lookup), [var, low, high], [], path,
                          lookup.node)
    nfound = 0
    for (p, v) in res:
        if isinstance(v, Raise):
            continue
        ex = [n for n in p.notes if n[0] == 'exit-conds']
        if v == Const(None):
            r.inst(outcome='None', condition=[('' if pol else 'not ') +
                                              repr(c)[:90]
                                              for (c, pol) in p.pc])
            continue
        nfound += 1
        if isinstance(v, Sym) and v.meta and v.meta[0] in ('elem', 'next') \
                and not ex:
            # an element taken from an iterator whose filtering is outside
            # the interpreted fragment: no verdict
            raise Inconclusive('R-HC-3', 'the lookup returns %r' % (v,),
                               lookup.where())
        if not (isinstance(v, Sym) and v.meta and v.meta[0] == 'elem' and
                ex):
            r.fail(Finding(PROP, 'R-HC-3', lookup.where(), lookup.short(),
                           'returns:%r' % (v,),
                           'the lookup returns %r, which is not an element '
                           'of a registry it scanned' % (v,)))
            continue
        reg = v.meta[1]
        conds = ex[-1][1]
        ok_reg = isinstance(reg, App) and reg.op == 'attr' and \
            reg.args[0] in (low, high)
        child = reg.args[0] if ok_reg else None
        regname = reg.args[1].v if ok_reg else None
        other, otherfield = (high, 'high') if child == low else (low, 'low')
        tv = any(pol and c == App('cmp', Const('=='), var,
                                  App('attr', v, Const('var')))
                 or pol and c == App('cmp', Const('=='),
                                     App('attr', v, Const('var')), var)
                 for (c, pol) in conds)
        to = any(pol and isinstance(c, App) and c.op == 'cmp' and
                 c.args[0].v == 'is' and
                 set(c.args[1:]) == {other, App('attr', v,
                                                Const(otherfield))}
                 for (c, pol) in conds)
        # the registry scanned must be the one this child's parents are
        # registered in
        consistent = reg_fields is None or regname == (
            reg_fields[0] if child == low else reg_fields[1])
        r.inst(scans=repr(reg), tests_variable=tv, tests_other_child=to,
               registry_matches_registration=consistent)
        opaque = [c for (c, pol) in conds
                  if any(isinstance(x, App) and x.op in ('call', 'mcall')
                         for x in walk(c))]
        if ok_reg and tv and to and consistent:
            r.ok()
        elif opaque and ok_reg and consistent:
            # a test is delegated to something that is not interpreted
            raise Inconclusive('R-HC-3', 'lookup condition %r' % (opaque[0],),
                               lookup.where())
        else:
            r.fail(Finding(
                PROP, 'R-HC-3', lookup.where(), lookup.short(),
                'lookup:%s:%s:%s:%s' % (repr(reg), tv, to, consistent),
                'scanning %r the lookup %s%s%s: it can return a node with a '
                'different triple or miss the existing one' % (
                    reg, '' if tv else 'does not compare the variable; ',
                    '' if to else 'does not test the other child (%s) by '
                    'identity; ' % otherfield,
                    '' if consistent else 'reads a registry the constructor '
                    'does not fill for that child'),
                expected='var == node.var and %s is node.%s' % (
                    otherfield, otherfield)))
    if nfound < 1:
        r.fail(Finding(PROP, 'R-HC-3', lookup.where(), lookup.short(),
                       'never-finds', 'the lookup never returns a node'))
    return r


def constructor_closure(prog):
    """names of the functions of the BDD package that run only as part of
    the construction of a node: the `__new__` methods of the node classes and
    every function all of whose call sites (by name, over the package) lie
    inside this set -- the reset routine, and any private helper extracted
    from the constructor or from the reset routine"""
    base, nt, tt = _classes(prog)
    fns = [fi for fi in prog.all_functions()
           if fi.module.name.startswith(prog.module('BDD').name)]
    by_name = {}
    for fi in fns:
        by_name.setdefault(fi.name, []).append(fi)
    sites = {}          # callee name -> set of caller qn
    for fi in fns:
        for n in ast.walk(fi.node):
            if isinstance(n, ast.Call):
                nm = n.func.attr if isinstance(n.func, ast.Attribute) else (
                    n.func.id if isinstance(n.func, ast.Name) else None)
                if nm in by_name:
                    sites.setdefault(nm, set()).add(fi.qn)
    cc = set(fi.qn for fi in fns if fi.name == '__new__' and
             fi.owner is not None and fi.owner.is_subclass_of(base))
    names = set()
    changed = True
    while changed:
        changed = False
        for nm, callers in sites.items():
            if nm in names or nm == '__new__' or nm.startswith('__') and \
                    nm.endswith('__') and nm != '__reset__':
                continue
            members = [fi for fi in by_name[nm]]
            outside = callers - set(f.qn for f in members)
            if outside and outside <= cc:
                names.add(nm)
                for f in members:
                    cc.add(f.qn)
                changed = True
    return cc


def registry_fields(prog):
    """the two parent registries of a node: the fields the node constructor
    adds the new node to (`low.<A>.add(node)`, `high.<B>.add(node)`), read
    from the registration statements"""
    base, nt, tt = _classes(prog)
    names = []
    for ci in (nt, base):
        for mn, node in ci.attrs.items():
            if not isinstance(node, ast.FunctionDef):
                continue
            for n in ast.walk(node):
                if isinstance(n, ast.Call) and \
                        isinstance(n.func, ast.Attribute) and \
                        n.func.attr == 'add' and \
                        isinstance(n.func.value, ast.Attribute) and \
                        len(n.args) == 1 and \
                        isinstance(n.args[0], ast.Name) and \
                        n.args[0].id in ('self', 'node'):
                    if n.func.value.attr not in names:
                        names.append(n.func.value.attr)
    if len(names) != 2:
        raise Inconclusive('R-HC-4', 'parent registries not identified: %r'
                           % (names,), '')
    return tuple(names)


def rule_hc45(prog):
    r4 = RuleResult('R-HC-4', 'node fields are written only by the reset '
                    'routine (called on a fresh node)')
    r5 = RuleResult('R-HC-5', 'registries are weak sets; node ==/hash are '
                    'identity; OBDD == is root identity and ordering '
                    'equality')
    base, nt, tt = _classes(prog)
    E = Effects(prog, ['BDD'])
    CC = constructor_closure(prog)
    regs_named = registry_fields(prog)
    fields = ('var', 'low', 'high', 'value') + tuple(regs_named)
    for s in E.summ.values():
        for (kind, name, tgt, where, rts) in s.raw_writes:
            if kind == 'setattr' and name in fields:
                ok = s.fi.qn in CC and s.fi.name != '__new__' and \
                    s.fi.owner is not None and \
                    s.fi.owner.is_subclass_of(base)
                r4.inst(function=s.fi.short(), field=name, where=where)
                if ok:
                    r4.ok()
                else:
                    r4.fail(Finding(
                        PROP, 'R-HC-4', where, s.fi.short(),
                        'field-write:%s:%s' % (s.fi.short(), name),
                        '%s overwrites the field `%s` of a node: a shared '
                        'node changes under every OBDD that contains it' % (
                            s.fi.short(), name)))
    # the parent registries are modified only by the reset routine
    for s in E.summ.values():
        for (kind, name, tgt, where, rts) in s.raw_writes:
            if kind != 'mutate':
                continue
            regs = [x for x in walk(tgt) if isinstance(x, App) and
                    x.op == 'attr' and isinstance(x.args[1], Const) and
                    x.args[1].v in regs_named]
            if not regs or tgt is not regs[0] and tgt != regs[0]:
                continue
            ok = s.fi.qn in CC and s.fi.name != '__new__' and name == 'add'
            r4.inst(function=s.fi.short(), registry_operation=name,
                    on=repr(tgt)[:60], where=where)
            if ok:
                r4.ok()
            else:
                r4.fail(Finding(
                    PROP, 'R-HC-4', where, s.fi.short(),
                    'registry-write:%s:%s' % (s.fi.short(), name),
                    '%s modifies the parent registry %r in place (.%s): '
                    'parents disappear from (or foreign nodes enter) the '
                    'unique table, so a later lookup misses an existing '
                    'node and a duplicate (variable, low, high) is '
                    'created' % (s.fi.short(), tgt, name)))
    # __reset__ is called from __new__ only
    for fi in prog.all_functions():
        if not fi.module.name.startswith(prog.module('BDD').name):
            continue
        for n in ast.walk(fi.node):
            if isinstance(n, ast.Call) and isinstance(n.func,
                                                      ast.Attribute) and \
                    n.func.attr == '__reset__':
                ok = fi.qn in CC
                r4.inst(reset_call_in=fi.short(), line=n.lineno)
                if ok:
                    r4.ok()
                else:
                    r4.fail(Finding(
                        PROP, 'R-HC-4', '%s:%d' % (fi.module.relpath,
                                                   n.lineno), fi.short(),
                        'reset-call:' + fi.short(),
                        '%s resets a node outside its constructor' %
                        fi.short()))
    floor('R-HC-4', 'field writes', len(r4.instances), 6)
    # weak registries
    breset = prog.method(base, '__reset__', own=True)
    I = Interp(prog, Hooks(), rule='R-HC-5')
    path = I.new_path()
    o = path.alloc('inst')
    path.heap[o.oid].ci = base
    I.call_function(FRef(breset), [o], [], path, breset.node)
    for fld in regs_named:
        v = path.heap[o.oid].fields.get(fld)
        weak = isinstance(v, App) and v.op == 'call' and \
            isinstance(v.args[0], ERef) and v.args[0].name.endswith('WeakSet')
        r5.inst(registry=fld, value=repr(v)[:60], weak=weak)
        if weak:
            r5.ok()
        else:
            r5.fail(Finding(
                PROP, 'R-HC-5', breset.where(), breset.short(),
                'registry:%s:%r' % (fld, v),
                'the parent registry %s is %r, not a WeakSet: dropped '
                'diagrams are kept alive (or the registry cannot hold '
                'nodes)' % (fld, v)), witness=v)
    # identity eq / hash
    for ci in (nt, tt):
        for m, want in (('__eq__', 'is'), ('__hash__', 'id')):
            f = prog.method(ci, m)
            I = Interp(prog, Hooks(), rule='R-HC-5')
            path = I.new_path()
            me, other = Sym('self', ('inst', ci)), Sym('O')
            res = I.call_function(FRef(f), [me] + ([other] if m == '__eq__'
                                                   else []), [], path,
                                  f.node)
            vals = [v for (p, v) in res if not isinstance(v, Raise)]
            ok = len(vals) == 1 and (
                vals[0] == App('cmp', Const('is'), me, other)
                if m == '__eq__' else vals[0] == App('id', me))
            r5.inst(cls=ci.short(), method=m, value=[repr(v)[:60]
                                                    for v in vals])
            if ok:
                r5.ok()
            else:
                r5.fail(Finding(
                    PROP, 'R-HC-5', f.where(), f.short(),
                    'identity:%s:%s' % (m, [repr(v) for v in vals]),
                    '%s.%s is %s, not object identity: nodes in the weak '
                    'registries and caches are conflated or lost' % (
                        ci.short(), m, [repr(v) for v in vals])), witness=v)
    # OBDD.__eq__
    oc = prog.cls('BDD.OBDD.OBDD')
    f = prog.method(oc, '__eq__')

    class H(Hooks):
        def inline(self, I, fi, args):
            return fi is f and not I.stack

        def construct(self, I, ci, args, kw, path, node):
            if isinstance(ci, ClassInfo):
                return [(path, New(ci, args, kw))]
    I = Interp(prog, H(), rule='R-HC-5')
    path = I.new_path()
    me, A = Sym('self', ('inst', oc)), Sym('A')
    res = I.call_function(FRef(f), [me, A], [], path, f.node)
    found = False
    for (p, v) in res:
        isob = any(pol and isinstance(c, App) and c.op == 'isinstance' and
                   c.args[0] == A and isinstance(c.args[1], CRef) and
                   c.args[1].ci is oc for (c, pol) in p.pc)
        if not isob or isinstance(v, Raise):
            continue
        found = True
        want_root = App('cmp', Const('is'), App('attr', me, Const('root')),
                        App('attr', A, Const('root')))
        parts = list(v.args) if isinstance(v, App) and v.op == 'and' else [v]
        has_root = want_root in parts
        has_ord = any(isinstance(x, App) and x.op == 'cmp' and
                      x.args[0].v == '==' and
                      {x.args[1], x.args[2]} == {
                          App('attr', me, Const('ordering')),
                          App('attr', A, Const('ordering'))} for x in parts)
        r5.inst(method=f.short(), compares=[repr(x)[:70] for x in parts])
        if has_root and has_ord and len(parts) == 2:
            r5.ok()
        else:
            r5.fail(Finding(
                PROP, 'R-HC-5', f.where(), f.short(),
                'obdd-eq:%s' % [repr(x) for x in parts],
                'OBDD == OBDD is decided by %s, not by root identity and '
                'ordering equality' % [repr(x) for x in parts]))
    if not found:
        raise Inconclusive('R-HC-5', 'OBDD.__eq__ has no OBDD case',
                           f.where())
    return r4, r5


# ---------------------------------------------------------------------------
# R-HC-7  no table keyed by the identity of a node outlives the operation
# ---------------------------------------------------------------------------

_FRESH_CALLS = ('dict', 'set', 'list', 'OrderedDict', 'defaultdict')


def _fresh_container(e):
    if isinstance(e, (ast.Dict, ast.Set, ast.List, ast.DictComp, ast.SetComp,
                      ast.ListComp)):
        return True
    return isinstance(e, ast.Call) and isinstance(e.func, ast.Name) and \
        e.func.id in _FRESH_CALLS


def identity_keyed_tables(fnode):
    """[(line, table expression, key expression, why)] -- places in one
    function where `id(x)` (directly or through local variables) is used as
    (part of) a key of a container that the function has not allocated
    itself: a module / class level table or a field of an object.  The
    identity of a node is unique only while the node is alive; the unique
    table is weak, so a dropped diagram frees its nodes and the next node may
    get the same identity."""
    params = {a.arg for a in fnode.args.args + fnode.args.kwonlyargs}
    if fnode.args.vararg:
        params.add(fnode.args.vararg.arg)
    if fnode.args.kwarg:
        params.add(fnode.args.kwarg.arg)
    shadow = 'id' in params
    assigns = {}
    for n in ast.walk(fnode):
        if isinstance(n, ast.Assign):
            for t in n.targets:
                for m in ast.walk(t):
                    if isinstance(m, ast.Name) and \
                            isinstance(m.ctx, ast.Store):
                        assigns.setdefault(m.id, []).append(n.value)
        elif isinstance(n, (ast.AugAssign, ast.AnnAssign)) and \
                isinstance(n.target, ast.Name) and n.value is not None:
            assigns.setdefault(n.target.id, []).append(n.value)
        elif isinstance(n, (ast.For, ast.comprehension)):
            for m in ast.walk(n.target):
                if isinstance(m, ast.Name):
                    assigns.setdefault(m.id, []).append(n.iter)
    if 'id' in assigns:
        shadow = True
    tainted = set()

    def has_id(e):
        for m in ast.walk(e):
            if not shadow and isinstance(m, ast.Call) and \
                    isinstance(m.func, ast.Name) and m.func.id == 'id':
                return True
            if isinstance(m, ast.Name) and m.id in tainted and \
                    isinstance(m.ctx, ast.Load):
                return True
        return False
    changed = True
    while changed:
        changed = False
        for nm, vals in assigns.items():
            if nm not in tainted and any(has_id(v) for v in vals):
                tainted.add(nm)
                changed = True

    def persistent(base):
        """the table is not an object this call has made"""
        b = base
        while isinstance(b, ast.Subscript):
            b = b.value
        if isinstance(b, ast.Attribute):
            return 'field / class attribute `%s`' % ast.unparse(b)
        if isinstance(b, ast.Name):
            if b.id in params:
                return None         # handed in: provenance is R-BDD-6's
            vals = assigns.get(b.id)
            if vals is None:
                return 'module-level table `%s`' % b.id
            if all(_fresh_container(v) for v in vals):
                return None
            if any(isinstance(v, (ast.Attribute, ast.Name)) for v in vals):
                for v in vals:
                    if isinstance(v, ast.Attribute):
                        return 'field / class attribute `%s`' % \
                            ast.unparse(v)
                    if isinstance(v, ast.Name) and v.id not in params and \
                            v.id not in assigns:
                        return 'module-level table `%s`' % v.id
            return None
        return None
    out = []
    for n in ast.walk(fnode):
        if isinstance(n, ast.Subscript) and has_id(n.slice):
            why = persistent(n.value)
            if why:
                out.append((n.lineno, ast.unparse(n.value),
                            ast.unparse(n.slice), why))
        elif isinstance(n, ast.Compare) and has_id(n.left) and \
                len(n.ops) == 1 and isinstance(n.ops[0], (ast.In, ast.NotIn)):
            why = persistent(n.comparators[0])
            if why:
                out.append((n.lineno, ast.unparse(n.comparators[0]),
                            ast.unparse(n.left), why))
        elif isinstance(n, ast.Call) and isinstance(n.func, ast.Attribute) \
                and n.func.attr in ('get', 'setdefault', 'pop', 'add',
                                    'discard', 'remove', '__contains__',
                                    '__getitem__', '__setitem__') and \
                n.args and has_id(n.args[0]):
            why = persistent(n.func.value)
            if why:
                out.append((n.lineno, ast.unparse(n.func.value),
                            ast.unparse(n.args[0]), why))
    return out


_POSITIVE = """
def restrict(self, var, value):
    key = (id(self), var, value)
    if key not in _memo:
        _memo[key] = compute(self, var, value, dict())
    return _memo[key]
"""
_NEGATIVE = """
def restrict(self, var, value, cache=None):
    seen = dict()
    seen[id(self)] = 1
    if id(self) in cache:
        return cache[id(self)]
    return id(self)
"""


def rule_hc7(prog):
    r = RuleResult('R-HC-7', 'no table keyed by the identity (id) of a node '
                   'outlives the operation that filled it')
    # the rule expects no match on a correct tree: its matcher is exercised
    # on a positive and a negative example on every run
    pos = identity_keyed_tables(ast.parse(_POSITIVE).body[0])
    neg = identity_keyed_tables(ast.parse(_NEGATIVE).body[0])
    if len(pos) < 2 or neg:
        raise Inconclusive('R-HC-7', 'matcher self-test failed: %r / %r' % (
            pos, neg), 'pmcv/rules/c16.py')
    from .c17 import _module_functions
    n = 0
    for mn in ('BDD.BDD', 'BDD.OBDD', 'BDD.ordering'):
        try:
            fs = _module_functions(prog, mn)
        except Exception:
            continue
        for f in fs:
            n += 1
            hits = identity_keyed_tables(f.node)
            uses_id = any(isinstance(m, ast.Call) and
                          isinstance(m.func, ast.Name) and m.func.id == 'id'
                          for m in ast.walk(f.node))
            if uses_id or hits:
                r.inst(function=f.short(), uses_id=uses_id,
                       identity_keyed_persistent_tables=[h[1] for h in hits])
            # an entry that also holds the node keeps it alive: its
            # identity cannot be reused while the entry exists
            def id_names(e):
                out = set()
                for m in ast.walk(e):
                    if isinstance(m, ast.Call) and \
                            isinstance(m.func, ast.Name) and \
                            m.func.id == 'id' and m.args and \
                            isinstance(m.args[0], ast.Name):
                        out.add(m.args[0].id)
                return out
            local_defs = {}
            for a in ast.walk(f.node):
                if isinstance(a, ast.Assign) and len(a.targets) == 1 and \
                        isinstance(a.targets[0], ast.Name):
                    local_defs.setdefault(a.targets[0].id, []).append(a.value)
            for (line, table, key, why) in hits:
                # pinned: the entry stored under id(x) holds x itself
                pinned = False
                for a in ast.walk(f.node):
                    if not isinstance(a, ast.Assign):
                        continue
                    for t in a.targets:
                        if not (isinstance(t, ast.Subscript) and
                                ast.unparse(t.value) == table):
                            continue
                        ks = id_names(t.slice)
                        for m in [t.slice] + list(getattr(t.slice, 'elts',
                                                          [])):
                            if isinstance(m, ast.Name):     # key = (id(x),..)
                                for d in local_defs.get(m.id, []):
                                    ks |= id_names(d)
                        tops = [a.value] + list(getattr(a.value, 'elts', []))
                        if any(isinstance(m, ast.Name) and m.id in ks
                               for m in tops):
                            pinned = True
                if pinned:
                    raise Inconclusive(
                        'R-HC-7', '%s keys `%s` by id() but the entries hold '
                        'the node itself; lifetime not decided' % (
                            f.short(), table),
                        '%s:%d' % (f.module.relpath, line))
                r.fail(Finding(
                    PROP, 'R-HC-7', '%s:%d' % (f.module.relpath, line),
                    f.short(), 'id-key:%s' % table,
                    '%s uses `%s` -- built from id() of a node -- as a key '
                    'of the %s, which outlives the call and holds no '
                    'reference to the node: once the diagram is dropped its '
                    'nodes are freed (the unique table is weak), a new node '
                    'can get the same identity and is answered with the '
                    'entry of the dead one' % (f.short(), key, why)))
            if not hits:
                r.ok()
    floor('R-HC-7', 'functions of the BDD package scanned', n, 40)
    r.notes.append('matcher self-test: positive example %d hits, negative '
                   'example 0 hits' % len(pos))
    return r

# ---------------------------------------------------------------------------
# R-HC-8  tables that survive a call
# ---------------------------------------------------------------------------

_TABLE_CALLS = ('dict', 'set', 'list', 'WeakValueDictionary',
                'WeakKeyDictionary', 'WeakSet', 'OrderedDict', 'defaultdict')


def persistent_tables(prog):
    """[(owner description, name, line, [writers])] -- module-level and
    class-level containers of the BDD package that some function writes"""
    out = []
    from .c17 import _module_functions
    for mn in ('BDD.BDD', 'BDD.OBDD', 'BDD.ordering'):
        try:
            mod = prog.module(mn)
        except Exception:
            continue
        cands = []
        scopes = [(None, mod.tree.body)] + [
            (ci, ci.node.body) for ci in mod.classes.values()]
        for owner, body in scopes:
            for st in body:
                if isinstance(st, ast.Assign) and len(st.targets) == 1 and \
                        isinstance(st.targets[0], ast.Name):
                    v = st.value
                    is_tab = isinstance(v, (ast.Dict, ast.Set, ast.List)) or (
                        isinstance(v, ast.Call) and
                        ast.unparse(v.func).split('.')[-1] in _TABLE_CALLS)
                    if is_tab:
                        cands.append((owner, st.targets[0].id, st.lineno))
        for (owner, name, line) in cands:
            writers = []
            for f in _module_functions(prog, mn):
                for n in ast.walk(f.node):
                    tgt = None
                    if isinstance(n, ast.Subscript) and \
                            isinstance(n.ctx, (ast.Store, ast.Del)):
                        tgt = n.value
                    elif isinstance(n, ast.Call) and \
                            isinstance(n.func, ast.Attribute) and \
                            n.func.attr in ('add', 'update', 'setdefault',
                                            'append', 'extend', 'pop',
                                            'clear', 'discard', 'remove'):
                        tgt = n.func.value
                    if tgt is None:
                        continue
                    hit = (isinstance(tgt, ast.Name) and tgt.id == name and
                           owner is None) or (
                        isinstance(tgt, ast.Attribute) and tgt.attr == name
                        and owner is not None)
                    if hit and f.short() not in writers:
                        writers.append(f.short())
            if writers:
                out.append((owner.short() if owner is not None else mn,
                            name, line, writers, mod.relpath))
    return out


def rule_hc8(prog):
    """the only tables of the package that live across calls are the unique
    table itself (the terminal table and the weak parent registries).  Any
    other table that a function fills (a memo of parsed texts, of validated
    roots, of results) answers later calls from what earlier calls did:
    whether its keys determine the answer -- ordering, operator, liveness of
    the nodes -- is not decided here, so such a table gives no verdict"""
    r = RuleResult('R-HC-8', 'no table other than the unique table survives '
                   'a call')
    base, nt, tt = _classes(prog)
    tabs = persistent_tables(prog)
    # the terminal table: the class-level dict the terminal constructor
    # stores the new terminal in
    tnew = prog.method(tt, '__new__', own=True)
    known = set()
    if tnew is not None:
        for n in ast.walk(tnew.node):
            if isinstance(n, ast.Subscript) and \
                    isinstance(n.ctx, ast.Store) and \
                    isinstance(n.value, ast.Attribute):
                known.add(n.value.attr)
    for (owner, name, line, writers, rel) in tabs:
        r.inst(table='%s.%s' % (owner, name), written_by=writers,
               unique_table=name in known)
        if name in known:
            r.ok()
            continue
        raise Inconclusive(
            'R-HC-8', 'the table %s.%s outlives the calls of %s that fill '
            'it; whether its keys determine the stored answers (ordering, '
            'operator, lifetime of the nodes) is not decided' % (
                owner, name, ', '.join(writers)), '%s:%d' % (rel, line))
    if not tabs:
        raise Inconclusive('R-HC-8', 'the terminal table was not found', '')
    return r


def _documented_node_fields(prog, rule):
    """the rules below address the fields of a node by the names the
    library gives them today; with other names nothing can be said"""
    from ..fields import bdd_node_fields
    got = bdd_node_fields(prog)
    if tuple(got) != ('var', 'low', 'high', 'value'):
        raise Inconclusive(rule, 'the fields of a BDD node are called %r' % (
            got,), 'pyModelChecking/BDD/BDD.py')


def run(prog, tier, seed):
    _documented_node_fields(prog, 'R-HC-1')
    T = Attempts()
    r1, r2, lookup, reg_fields = T(rule_hc12, prog, _n=4)
    if lookup is not None:
        r3 = T(rule_hc3, prog, lookup, reg_fields)
    else:
        r3 = None
        T.skipped('R-HC-3')
    r4, r5 = T(rule_hc45, prog, _n=2)
    expl = ('Hash-consing discipline of the BDD nodes, decided on every '
            'path of the constructors: a non-terminal node is allocated '
            'only after `low is not high` and after the unique-table lookup '
            '(discovered from the constructor) missed for exactly (var, '
            'low, high); the fresh node stores the triple and is registered '
            'in one registry of each child; the lookup scans one of those '
            'registries and tests the variable and the other child by '
            'identity; terminals are allocated only on a table miss and '
            'stored; nothing else in the package allocates nodes; node '
            'fields are written only by the reset routine called from the '
            'constructors; registries are WeakSets; node ==/hash are '
            'identity; OBDD equality is root identity plus ordering '
            'equality. Each clause is necessary (breaking it yields two '
            'live nodes with one triple or a wrong node). Not decided: '
            'behaviour under interleavings of garbage collection and '
            'creation (WeakSet run-time semantics).')
    assumptions = ['WeakSet iteration yields exactly the live parents',
                   'single-threaded use', 'no reflection']
    from . import c17
    b1, found = T(c17.rule_bdd1, prog, tier, _n=2)
    if found is None:
        found = T(c17.discover_steps, prog)
    b34 = T(c17.rule_bdd34, prog, found, _n=2) if found is not None \
        else (None, None)
    dep = adopt(T.results(T(c17.rule_bdd6, prog), b1, *b34),
                PROP, 'operations must return the canonical node of the '
                'right function')
    r7 = T(rule_hc7, prog)
    r8 = T(rule_hc8, prog)
    # "obtained by parsing": the reader must build the function it is given
    from . import c18

    pf = T(c18.parser_functions, prog)
    if pf is not None:
        rr1, presults = T(c18.rule_bp1, prog, pf[1], _n=2)
        if presults is not None:
            dep = dep + adopt(T.results(
                rr1, T(c18.rule_bp2, prog, presults),
                T(c18.rule_bp2b, prog, presults)), PROP,
                'parsing denotes the function that is written')
    return T.results(r1, r2, r3, r4, r5, r7, r8) + dep, expl, assumptions, \
        T.extra()
