"""C18 -- expression vs lambda notation, printing round trip (partial).

R-BP-1 dispatch totality of the expression parser: every path returns an
       OBDD-valued expression or raises SyntaxError
R-BP-2 synonyms: and/& , or/| , not/~ map to the same operation
R-BP-3 variable names are str in both notations (type flow into Ordering and
       into the node variable)
R-BP-4 printer <-> parser: tokens and operator precedence of the node
       printer agree with Python's grammar (which the parser uses)
"""
import ast
import itertools

from ..program import AnalysisError, Inconclusive, ClassInfo, ExtClass
from ..values import (Const, Sym, CRef, FRef, ERef, Bound, Obj, Tup, App,
                      New, Raise, Coll, walk)
from ..interp import Interp, Hooks
from ..printers import flatten, merge
from ..report import Finding, RuleResult, floor, Attempts

PROP = 'C18'


_LEAF = {}


def _module_tables(mod):
    tables = {}
    for st in mod.tree.body:
        if isinstance(st, ast.Assign) and len(st.targets) == 1 and \
                isinstance(st.targets[0], ast.Name):
            tables[st.targets[0].id] = st.value
    return tables


def leaf_helpers(prog):
    """module-level functions of the OBDD module that take no part in the
    recursion of the expression parser (neither recursive nor calling a
    recursive function): they are inlined, so that `raise helper(node)` or
    `_fold(op, neutral, ...)` are seen through"""
    if id(prog) in _LEAF:
        return _LEAF[id(prog)]
    mod = prog.module('BDD.OBDD')
    calls = {}
    tables = _module_tables(mod)
    for name, f in mod.funcs.items():
        calls[name] = set(
            n.func.id for n in ast.walk(f.node)
            if isinstance(n, ast.Call) and isinstance(n.func, ast.Name) and
            n.func.id in mod.funcs)
        # functions named in a module-level dispatch table the function
        # reads are (possible) callees too
        for n in ast.walk(f.node):
            if isinstance(n, ast.Name) and n.id in tables:
                calls[name] |= set(
                    m.id for m in ast.walk(tables[n.id])
                    if isinstance(m, ast.Name) and m.id in mod.funcs)
    reach = {k: set(v) for k, v in calls.items()}
    changed = True
    while changed:
        changed = False
        for k in reach:
            for m in list(reach[k]):
                new = reach[m] - reach[k]
                if new:
                    reach[k] |= new
                    changed = True
    rec = set(k for k in reach if k in reach[k])
    leaf = set(mod.funcs[k].qn for k in reach
               if k not in rec and not (reach[k] & rec))
    # recursion heads: targets of a back edge in a depth-first walk of the
    # recursive functions (the function the parser re-enters for a
    # sub-expression)
    heads = set()
    state = {}

    def dfs(k):
        state[k] = 1
        for m in sorted(calls[k]):
            if state.get(m) == 1:
                heads.add(m)
            elif m not in state:
                dfs(m)
        state[k] = 2
    for k in sorted(rec, key=lambda k: mod.funcs[k].node.lineno,
                    reverse=True):
        if k not in state:
            dfs(k)
    # private helpers inside the recursion that are not heads (a `_fold`
    # between the n-ary case and the recursive call) are seen through too
    for k in rec:
        n = mod.funcs[k].name
        if k not in heads and n.startswith('_') and not n.startswith('__'):
            leaf.add(mod.funcs[k].qn)
    _LEAF[id(prog)] = leaf
    return leaf


class _NoInline(Hooks):
    def __init__(self, entry, leaf=()):
        self.entry = entry
        self.leaf = leaf

    def inline(self, I, fi, args):
        if fi is self.entry or fi.name == '<lambda>':
            return True
        return fi.qn in self.leaf and not any(f is fi for f in I.stack)

    def construct(self, I, ci, args, kw, path, node):
        if isinstance(ci, ClassInfo):
            return [(path, New(ci, args, kw))]
        return None


def parser_functions(prog):
    """the functions reachable from BinaryParser.parse / parse_function
    inside the OBDD module (discovered)"""
    mod = prog.module('BDD.OBDD')
    bp = mod.classes.get('BinaryParser')
    if bp is None:
        raise AnalysisError('BinaryParser not found')
    seeds = []
    for m in ('parse', 'parse_function'):
        f = prog.method(bp, m)
        if f is not None:
            seeds.append(f)
    seen = {}
    todo = list(seeds)
    tables = {}
    for st in mod.tree.body:
        if isinstance(st, ast.Assign) and len(st.targets) == 1 and \
                isinstance(st.targets[0], ast.Name):
            tables[st.targets[0].id] = st.value
    while todo:
        f = todo.pop()
        if f.qn in seen:
            continue
        seen[f.qn] = f
        for n in ast.walk(f.node):
            if isinstance(n, ast.Name) and n.id in mod.funcs:
                todo.append(mod.funcs[n.id])
            elif isinstance(n, ast.Name) and n.id in tables:
                # a module-level dispatch table naming the handlers
                for m in ast.walk(tables[n.id]):
                    if isinstance(m, ast.Name) and m.id in mod.funcs:
                        todo.append(mod.funcs[m.id])
    return seeds, [f for f in seen.values() if f not in seeds]


def rule_bp1(prog, funcs):
    r = RuleResult('R-BP-1', 'every path of every parse function returns an '
                   'OBDD-valued expression or raises SyntaxError')
    results = {}
    for f in sorted(funcs, key=lambda x: x.qn):
        I = Interp(prog, _NoInline(f, leaf_helpers(prog)), rule='R-BP-1')
        path = I.new_path()
        args = [Sym(a.arg) for a in f.node.args.args]
        res = I.call_function(FRef(f), args, [], path, f.node)
        results[f.qn] = (I, res, args)
        for (p, v) in res:
            pcs = [('' if pol else 'not ') + repr(c) for (c, pol) in p.pc]
            if isinstance(v, Raise):
                if v.implicit:
                    continue
                c = I.exc_class(v.exc)
                r.inst(function=f.short(), outcome='raise %s' % (
                    c.name if c else '?'), condition=pcs)
                if c is None or c.name != 'SyntaxError':
                    r.fail(Finding(
                        PROP, 'R-BP-1', I.where(v.node, f.module), f.short(),
                        'raise:%s:%s' % (f.name, c.name if c else '?'),
                        '%s rejects an expression with %s, not SyntaxError'
                        % (f.short(), c.name if c else v.exc)), witness=v)
                else:
                    r.ok()
                continue
            r.inst(function=f.short(), outcome=repr(v)[:100], condition=pcs)
            if v == Const(None):
                r.fail(Finding(
                    PROP, 'R-BP-1', f.where(), f.short(),
                    'fallthrough:%s:%s' % (f.name, ';'.join(pcs)),
                    '%s falls through and returns None when %s: the caller '
                    'then fails with AttributeError instead of SyntaxError '
                    '(e.g. unary + / -)' % (f.short(), ' and '.join(pcs)),
                    expected='an OBDD or SyntaxError', found='None'))
            else:
                r.ok()
    floor('R-BP-1', 'parse functions', len(funcs), 5)
    return r, results


def _isinst(c):
    """(subject, class-name) of an isinstance condition"""
    if isinstance(c, App) and c.op == 'isinstance':
        k = c.args[1]
        nm = k.name.split('.')[-1] if isinstance(k, ERef) else (
            k.ci.name if isinstance(k, CRef) else None)
        return c.args[0], nm
    return None, None


def rule_bp2(prog, results):
    r = RuleResult('R-BP-2', 'Python and/or/not are synonyms of &,|,~')
    table = {}
    for qn, (I, res, args) in results.items():
        for (p, v) in res:
            if isinstance(v, Raise):
                continue
            ops = [nm for (c, pol) in p.pc if pol
                   for (_, nm) in [_isinst(c)] if nm in (
                       'BitAnd', 'BitOr', 'And', 'Or', 'Not', 'Invert')]
            # `isinstance(a) or isinstance(b)` stays one condition
            for (c, pol) in p.pc:
                if pol and isinstance(c, App) and c.op == 'or':
                    for a in c.args:
                        s, nm = _isinst(a)
                        if nm:
                            ops.append(nm)
            if not ops:
                continue
            opsym = _operation(v)
            for o in ops:
                table.setdefault(o, set()).add(opsym)
    want = {'BitAnd': '&', 'And': '&', 'BitOr': '|', 'Or': '|',
            'Invert': '~', 'Not': '~'}
    mentioned = set(
        n.attr for n in ast.walk(prog.module('BDD.OBDD').tree)
        if isinstance(n, ast.Attribute) and isinstance(n.value, ast.Name)
        and n.value.id == 'ast')
    pending = []
    for k, w in sorted(want.items()):
        got = table.get(k, set())
        r.inst(ast_operator=k, builds=sorted(map(str, got)), expected=w)
        if got == {w}:
            r.ok()
        elif not got and k in mentioned:
            # the operator class is named in the module but no path of the
            # interpreted parse functions is conditioned on it (table-driven
            # dispatch ...): no verdict
            e = Inconclusive('R-BP-2', 'ast.%s is referred to but its case '
                             'was not recognised' % k,
                             'pyModelChecking/BDD/OBDD.py')
            e.partial = r
            pending.append(e)
        elif not got:
            r.fail(Finding(PROP, 'R-BP-2', 'pyModelChecking/BDD/OBDD.py:1',
                           'BDD.OBDD', 'unsupported:' + k,
                           'the parser has no case for ast.%s (%s)' % (k, w)))
        else:
            r.fail(Finding(PROP, 'R-BP-2', 'pyModelChecking/BDD/OBDD.py:1',
                           'BDD.OBDD', 'synonym:%s:%s' % (k, sorted(
                               map(str, got))),
                           'ast.%s is translated to %s instead of %s' % (
                               k, sorted(map(str, got)), w)))
    if pending:
        raise pending[0]
    return r


def rule_bp2b(prog, results):
    """n-ary and/or: the result folds the operation over ALL operands of the
    BoolOp node, starting from the neutral element"""
    r = RuleResult('R-BP-2b', 'and/or with n operands: every operand of the '
                   'ast.BoolOp node is folded in')
    n = 0
    for qn, (I, res, args) in results.items():
        for (p, v) in res:
            if isinstance(v, Raise):
                continue
            ops = []
            for (c, pol) in p.pc:
                s_, nm = _isinst(c)
                if pol and nm in ('And', 'Or'):
                    ops.append(nm)
            if not ops:
                continue
            n += 1
            node = args[1] if len(args) > 1 else None
            values = App('attr', node, Const('values'))
            folded = False
            init = None
            if isinstance(v, Sym) and v.meta and v.meta[0] == 'loopvar':
                loop = v.meta[1]
                folded = loop.iterable == values
                init = v.meta[2]
                for u in v.meta[3]:
                    # update = prev OP parse(elem)
                    if not (isinstance(u, App) and u.op == 'binop' and
                            any(x == loop.var for x in walk(u))):
                        folded = False
            early = None
            if isinstance(v, Sym) and v.meta and v.meta[0] == 'loopvar' and \
                    getattr(v.meta[1], 'breaks', None):
                # the fold loop is left early on some condition: the
                # remaining operands are never parsed, hence never checked
                early = v.meta[1].breaks[0]
            want_init = (ops[0] == 'And')
            init_ok = False
            init_known = False
            if isinstance(init, New) and init.args and \
                    isinstance(init.args[0], New) and init.args[0].args:
                c0 = init.args[0].args[0]
                init_known = isinstance(c0, Const)
                init_ok = init_known and bool(c0.v) == want_init
            partial = False
            if isinstance(v, Sym) and v.meta and v.meta[0] == 'loopvar':
                it = v.meta[1].iterable
                partial = it != values and any(x == values for x in walk(it))
            idx = sorted(set(x.args[1].v for x in walk(v)
                             if isinstance(x, App) and x.op == 'item' and
                             x.args[0] == values and
                             isinstance(x.args[1], Const))) \
                if isinstance(v, (App, Sym)) else []
            r.inst(function=qn.split('.')[-1], operator=ops[0],
                   folds_all_operands=folded, neutral_start=init_ok,
                   fixed_operand_indices=idx)
            if early is not None:
                r.inst(function=qn.split('.')[-1], operator=ops[0],
                       left_early_when=[('' if pol else 'not ') + repr(c)[:80]
                                        for (c, pol) in early])
                r.fail(Finding(
                    PROP, 'R-BP-2b',
                    '%s:1' % qn.rsplit('.', 1)[0].replace('.', '/'),
                    qn.replace('pyModelChecking.', ''),
                    'nary-early-exit:%s' % ops[0],
                    'the loop that folds the operands of `x %s y %s z ...` '
                    'is left early (when %s): the remaining operands are '
                    'not parsed, so a variable missing from the ordering or '
                    'non-Boolean syntax in them is accepted, and the keyword '
                    'spelling is no synonym of the chained binary operator' %
                    (ops[0].lower(), ops[0].lower(),
                     [('' if pol else 'not ') + repr(c)[:60]
                      for (c, pol) in early]),
                    expected='every operand of node.values is parsed'))
                continue
            if folded and init_ok:
                r.ok()
            elif not idx and not partial and not (folded and init_known):
                raise Inconclusive('R-BP-2b', 'n-ary %s is built as %r' % (
                    ops[0], v), qn)
            else:
                I0 = I
                r.fail(Finding(
                    PROP, 'R-BP-2b',
                    '%s:1' % qn.rsplit('.', 1)[0].replace('.', '/'),
                    qn.replace('pyModelChecking.', ''),
                    'nary:%s:%s:%s' % (ops[0], folded, idx),
                    'for `x %s y %s z ...` (one ast.BoolOp with n operands) '
                    'the parser %s: operands beyond those are silently '
                    'dropped, so `a %s b %s c` is not a synonym of the '
                    'chained binary operator' % (
                        ops[0].lower(), ops[0].lower(),
                        'uses only operands %s' % idx if idx else
                        'folds over a part of node.values only' if partial
                        else 'does not fold over node.values from the '
                        'neutral element', ops[0].lower(), ops[0].lower()),
                    expected='fold over all of node.values'))
    floor('R-BP-2b', 'BoolOp cases', n, 2)
    return r


def rule_bp5(prog, funcs, seeds):
    """a variable node built by the parser goes through the ordering
    membership check (RuntimeError for a variable outside the ordering)"""
    r = RuleResult('R-BP-5', 'every variable node built by the parser passes '
                   'the ordering check of OBDD.__init__')
    oc = prog.cls('BDD.OBDD.OBDD')
    nodec = prog.cls('BDD.BDD.BDDNode')
    nt = prog.cls('BDD.BDD.BDDNonTerminalNode')
    init = prog.method(oc, '__init__')
    n = 0
    for f in sorted(funcs + seeds, key=lambda x: x.qn):
        I = Interp(prog, _NoInline(f), rule='R-BP-5')
        path = I.new_path()
        args = [Sym(a.arg) for a in f.node.args.args]
        res = I.call_function(FRef(f), args, [], path, f.node)
        for (p, v) in res:
            for x in _news(v, p):
                if x.ci is not oc or not x.args:
                    continue
                b = x.args[0]
                if not (isinstance(b, New) and b.ci.is_subclass_of(nodec)
                        and len(b.args) == 3):
                    continue
                n += 1
                # simulate OBDD.__init__ with these arguments

                class H(Hooks):
                    def inline(self, I2, fi, a2):
                        return fi is init
                I2 = Interp(prog, H(), rule='R-BP-5')
                p2 = I2.new_path()
                me = p2.alloc('inst')
                p2.heap[me.oid].ci = oc
                node_sym = Sym('varnode', ('inst', nt))
                a2 = [me, node_sym] + [Sym('ordering', ('inst', prog.cls(
                    'BDD.ordering.Ordering')))] + list(x.args[2:])
                res2 = I2.call_function(FRef(init), a2, list(x.kw), p2,
                                        init.node)
                unchecked = []
                for (q, w) in res2:
                    if isinstance(w, Raise):
                        continue
                    chk = [e for e in q.log if e.kind in ('call', 'mcall')
                           and (e.name == 'respect_ordering' or (
                               isinstance(e.target, FRef) and
                               e.target.fi.name == 'respect_ordering'))]
                    if not chk:
                        unchecked.append(q)
                r.inst(function=f.short(), construction=repr(x)[:120],
                       membership_checked=not unchecked)
                if unchecked:
                    r.fail(Finding(
                        PROP, 'R-BP-5', f.where(), f.short(),
                        'unchecked-variable:%s' % (sorted(x.kw),),
                        '%s builds the OBDD of a variable with %s: '
                        'OBDD.__init__ then skips respect_ordering, the '
                        'only place where a variable outside the ordering '
                        'raises RuntimeError (OBDD(\'b\', [\'a\']) is '
                        'accepted)' % (f.short(), dict(
                            (k, repr(val)) for k, val in x.kw)),
                        expected='ordering membership checked'))
                else:
                    r.ok()
    floor('R-BP-5', 'variable-node constructions', n, 1)
    return r


def _operation(v):
    if isinstance(v, App) and v.op == 'binop':
        return v.args[0].v
    if isinstance(v, App) and v.op == 'invert':
        return '~'
    if isinstance(v, Sym) and v.meta and v.meta[0] == 'loopvar':
        ops = set(_operation(u) for u in v.meta[3])
        return ops.pop() if len(ops) == 1 else None
    return None


def rule_bp3(prog, funcs, seeds):
    r = RuleResult('R-BP-3', 'variable names are str: what goes into '
                   'Ordering([...]) and into the variable slot of a node')
    ordc = prog.cls('BDD.ordering.Ordering')
    nodec = prog.cls('BDD.BDD.BDDNode')
    n = 0
    for f in sorted(funcs + seeds, key=lambda x: x.qn):
        I = Interp(prog, _NoInline(f), rule='R-BP-3')
        path = I.new_path()
        args = [Sym(a.arg) for a in f.node.args.args]
        res = I.call_function(FRef(f), args, [], path, f.node)
        for (p, v) in res:
            for x in _news(v, p):
                if x.ci is ordc and x.args:
                    lst = x.args[0]
                    parts = p.heap[lst.oid].parts if isinstance(lst, Obj) \
                        else getattr(lst, 'parts', None)
                    if parts is None:
                        continue
                    ro = p.heap[lst.oid].reorder if isinstance(lst, Obj) \
                        else ()
                    if ro and any(g for part in parts for g in part.gens):
                        # the names come from a sequence (the parameters of
                        # the lambda) and are re-ordered before they become
                        # the variable ordering
                        r.fail(Finding(
                            PROP, 'R-BP-3', f.where(), f.short(),
                            'ordering-reordered:%s' % ','.join(ro),
                            '%s builds the variable ordering from the names '
                            'after %s: the order in which the parameters of '
                            'the lambda are written is lost, so `lambda q, '
                            'p: ...` and the expression form with ordering '
                            '[q, p] give different diagrams' % (
                                f.short(), '/'.join(ro))))
                    for part in parts:
                        n += 1
                        t = _static_type(part.val)
                        r.inst(function=f.short(), slot='Ordering element',
                               value=repr(part.val)[:80], type=t)
                        if t == 'str':
                            r.ok()
                        elif t == 'int':
                            r.fail(Finding(
                                PROP, 'R-BP-3', f.where(), f.short(),
                                'ordering-element:%r' % (part.val,),
                                '%s builds the variable ordering from %r '
                                '(an int), not from the argument names: '
                                'every variable of the expression is then '
                                'missing from the ordering and every '
                                'lambda-form call raises' % (f.short(),
                                                             part.val),
                                expected='ast.arg.arg (str)',
                                found=repr(part.val)))
                        else:
                            raise Inconclusive(
                                'R-BP-3', 'type of ordering element %r' % (
                                    part.val,), f.where())
                if x.ci.is_subclass_of(nodec) and len(x.args) == 3:
                    n += 1
                    t = _static_type(x.args[0])
                    r.inst(function=f.short(), slot='node variable',
                           value=repr(x.args[0])[:80], type=t)
                    if t == 'str':
                        r.ok()
                    elif t == 'int':
                        r.fail(Finding(
                            PROP, 'R-BP-3', f.where(), f.short(),
                            'node-variable:%r' % (x.args[0],),
                            '%s labels a node with %r (an int)' % (
                                f.short(), x.args[0])))
    floor('R-BP-3', 'typed slots', n, 2)
    return r


def _news(v, path):
    out = []
    seen = set()

    def visit(x):
        if isinstance(x, New):
            out.append(x)
            for a in x.args:
                visit(a)
        elif isinstance(x, App):
            for a in x.args:
                if isinstance(a, (New, App, Tup, Sym, Obj)):
                    visit(a)
        elif isinstance(x, Tup):
            for a in x.items:
                visit(a)
        elif isinstance(x, Sym) and x.meta and x.meta[0] == 'loopvar' and \
                id(x) not in seen:
            seen.add(id(x))
            for y in (x.meta[2],) + tuple(x.meta[3]):
                if isinstance(y, (New, App, Tup)):
                    visit(y)
        elif isinstance(x, Obj):
            h = path.heap.get(x.oid)
            if h is not None and h.kind in ('list', 'set') and \
                    x.oid not in seen:
                seen.add(x.oid)
                for p in h.parts:
                    visit(p.val)
    visit(v)
    return out


# field types of the ast nodes the parser reads (Python's ast documentation)
AST_STR_FIELDS = ('id', 'arg')


def _static_type(v):
    if isinstance(v, Const):
        return type(v.v).__name__
    if isinstance(v, App) and v.op == 'attr' and \
            isinstance(v.args[1], Const) and v.args[1].v in AST_STR_FIELDS:
        return 'str'
    if isinstance(v, App) and v.op in ('id', 'hash', 'len'):
        return 'int'
    if isinstance(v, App) and v.op in ('str', 'fmt', 'concat'):
        return 'str'
    return None


# ---------------------------------------------------------------------------

class _StrHooks(Hooks):
    def inline(self, I, fi, args):
        return True


def node_templates(prog):
    """the forms BDDNonTerminalNode.__str__ can print: list of piece lists,
    children as ('child', 'low'|'high')"""
    nt = prog.cls('BDD.BDD.BDDNonTerminalNode')
    tt = prog.cls('BDD.BDD.BDDTerminalNode')
    f = prog.method(nt, '__str__')
    out = []
    for lowk, highk in itertools.product(('t0', 't1', 'n'), repeat=2):
        if lowk == highk and lowk != 'n':
            continue      # low is high is reduced away
        I = Interp(prog, Hooks(), rule='R-BP-4')
        path = I.new_path()
        o = path.alloc('inst')
        h = path.heap[o.oid]
        h.ci = nt
        h.fields['var'] = Sym('v', ('b', 'str'), ('leaf',))

        def mk(kind, nm):
            if kind == 'n':
                return Sym(nm, ('inst', nt), ('hole', 0 if nm == 'low'
                                              else 1))
            t = path.alloc('inst')
            path.heap[t.oid].ci = tt
            path.heap[t.oid].fields['value'] = Const(kind == 't1')
            return t
        h.fields['low'] = mk(lowk, 'low')
        h.fields['high'] = mk(highk, 'high')
        res = I.call_function(FRef(f), [o], [], path, f.node)
        res = [(p, v) for (p, v) in res if not isinstance(v, Raise)]
        if not res:
            raise Inconclusive('R-BP-4', 'no path printing a node (%s,%s)'
                               % (lowk, highk), f.where())
        variants = []
        for (p, v) in res:
            fl = flatten(v)
            if fl is None:
                raise Inconclusive('R-BP-4', 'node print is %r' % (v,),
                                   f.where())
            variants.append((list(p.pc), merge(fl)))
        out.append(((lowk, highk), variants))
    return f, out


def _cond_holds(c, pol, kids, shapes=None):
    """condition of a printer variant on a child: on its printed form, or on
    its structure (class of one of its sons)"""
    shapes = shapes or {}

    def val(x):
        if isinstance(x, Const):
            return x.v
        if isinstance(x, App) and x.op == 'str' and \
                isinstance(x.args[0], Sym) and x.args[0].meta and \
                x.args[0].meta[0] == 'hole':
            return kids[x.args[0].meta[1]]
        raise Inconclusive('R-BP-4', 'printer condition on %r' % (x,), '')
    if isinstance(c, App) and c.op in ('and', 'or'):
        rs = [_cond_holds(a, True, kids, shapes) for a in c.args]
        r = all(rs) if c.op == 'and' else any(rs)
        return r == pol
    if isinstance(c, App) and c.op == 'not':
        return _cond_holds(c.args[0], not pol, kids, shapes)
    if isinstance(c, App) and c.op == 'isinstance' and \
            isinstance(c.args[1], CRef):
        x = c.args[0]
        # isinstance(child.low / child.high, <node class>)
        if isinstance(x, App) and x.op == 'attr' and \
                isinstance(x.args[0], Sym) and x.args[0].meta and \
                x.args[0].meta[0] == 'hole' and \
                x.args[1].v in ('low', 'high'):
            sh = shapes.get(x.args[0].meta[1])
            if sh is None:
                raise Inconclusive('R-BP-4', 'printer condition %r on a '
                                   'child of unknown shape' % (c,), '')
            kind = sh[0] if x.args[1].v == 'low' else sh[1]
            cname = c.args[1].ci.name
            isnt = kind == 'n'
            r = {'BDDNonTerminalNode': isnt, 'BDDTerminalNode': not isnt,
                 'BDDNode': True}.get(cname)
            if r is None:
                raise Inconclusive('R-BP-4', 'printer condition %r' % (c,),
                                   '')
            return r == pol
    if isinstance(c, App) and c.op == 'mcall' and \
            c.args[1].v in ('startswith', 'endswith'):
        r = getattr(val(c.args[0]), c.args[1].v)(
            *[val(a) for a in c.args[2].items])
        return bool(r) == pol
    if isinstance(c, App) and c.op == 'in':
        return (val(c.args[0]) in val(c.args[1])) == pol
    if isinstance(c, App) and c.op == 'cmp':
        a, b = val(c.args[1]), val(c.args[2])
        r = {'==': a == b, '!=': a != b}.get(c.args[0].v)
        if r is None:
            raise Inconclusive('R-BP-4', 'printer condition %r' % (c,), '')
        return r == pol
    raise Inconclusive('R-BP-4', 'printer condition %r' % (c,), '')


def pick_variant(variants, kids, shapes=None):
    ok = [pieces for (pc, pieces) in variants
          if all(_cond_holds(c, pol, kids, shapes) for (c, pol) in pc)]
    if len(ok) != 1:
        raise Inconclusive('R-BP-4', '%d printer variants apply to children '
                           '%r' % (len(ok), kids), '')
    return ok[0]


def render(pieces, var, kids):
    s = ''
    for p in pieces:
        if isinstance(p, str):
            s += p
        elif p[0] == 'leaf':
            s += var
        elif p[0] == 'hole':
            s += kids[p[1]]
    return s


LEAF_SHAPE = ('t0', 't1')       # the node of a variable: (v, 0, 1)


def rule_bp4(prog):
    r = RuleResult('R-BP-4', 'node printer: tokens are in the parser\'s case '
                   'table and every embedded child stays one operand under '
                   'Python\'s precedence')
    f, tmpls = node_templates(prog)
    # the forms a child can print as, with the shape (kinds of its sons) of
    # a node printing that way: closure of the templates over simple
    # children, two levels
    forms = {'p': LEAF_SHAPE, 'q': LEAF_SHAPE}
    for _ in range(2):
        new = {}
        cur = sorted(forms)[:6]
        for (kinds, variants) in tmpls:
            for lo in cur:
                for hi in cur:
                    kids = {0: lo, 1: hi}
                    shapes = {0: forms[lo], 1: forms[hi]}
                    if kinds[0] != 'n':
                        shapes[0] = None
                    if kinds[1] != 'n':
                        shapes[1] = None
                    txt = render(pick_variant(variants, kids, shapes), 'x',
                                 kids)
                    new.setdefault(txt, kinds)
        forms = {t: new[t] for t in sorted(new, key=len)[:14]}
    seen_keys = set()
    for (kinds, variants) in tmpls:
        leafk = {0: 'p', 1: 'q'}
        leafs = {0: LEAF_SHAPE, 1: LEAF_SHAPE}
        pieces0 = pick_variant(variants, leafk, leafs)
        holes = [p for p in pieces0 if isinstance(p, tuple) and
                 p[0] == 'hole']
        text0 = render(pieces0, 'v', {0: 'LOW_', 1: 'HIGH_'})
        try:
            tree0 = ast.parse(text0, mode='eval').body
        except SyntaxError:
            r.fail(Finding(PROP, 'R-BP-4', f.where(), f.short(),
                           'unparsable:' + text0,
                           'the node printer emits %r, which is not a Python '
                           'expression' % text0))
            continue
        bad_ops = [type(n).__name__ for n in ast.walk(tree0)
                   if isinstance(n, (ast.operator, ast.unaryop, ast.boolop))
                   and type(n).__name__ not in ('BitAnd', 'BitOr', 'Invert',
                                                'And', 'Or', 'Not')]
        r.inst(node_shape=kinds, printed=text0)
        if bad_ops:
            r.fail(Finding(PROP, 'R-BP-4', f.where(), f.short(),
                           'token:' + ','.join(bad_ops),
                           'the node printer emits operators %s that the '
                           'expression parser does not accept' % bad_ops))
        else:
            r.ok()
        for hole in holes:
            for form in sorted(forms):
                kids = dict(leafk)
                shapes = dict(leafs)
                kids[hole[1]] = form
                shapes[hole[1]] = forms[form]
                pieces = pick_variant(variants, kids, shapes)
                text = render(pieces, 'v', kids)
                # the intended meaning: this embedding with each child as
                # ONE operand
                ref = render(pieces, 'v', {0: 'LOW_', 1: 'HIGH_'})
                try:
                    want = ast.parse(ref, mode='eval').body
                    for idx, nm in ((0, 'LOW_'), (1, 'HIGH_')):
                        want = _subst(want, nm, ast.parse(
                            kids[idx], mode='eval').body)
                    got = ast.parse(text, mode='eval').body
                except SyntaxError:
                    r.fail(Finding(PROP, 'R-BP-4', f.where(), f.short(),
                                   'unparsable:' + text,
                                   'the node printer emits %r' % text))
                    continue
                ok = ast.dump(want) == ast.dump(got) or \
                    _same_function(want, got)
                r.inst(embedding=text0, child_prints_as=form, composed=text,
                       child_is_one_operand=ok)
                if ok:
                    r.ok()
                else:
                    top = ast.dump(ast.parse(form, mode='eval').body.op) \
                        if hasattr(ast.parse(form, mode='eval').body, 'op') \
                        else '?'
                    key = 'precedence:child-with-top-%s-in-%s' % (
                        top.split('(')[0], text0)
                    if key in seen_keys:
                        r.obligations += 1
                        continue
                    seen_keys.add(key)
                    r.fail(Finding(
                        PROP, 'R-BP-4', f.where(), f.short(), key,
                        'a child that prints as  %s  is embedded as  %s : '
                        'Python parses this as %s, so OBDD(str(o.root), '
                        'o.ordering) denotes a different function' % (
                            form, text, ast.unparse(got)),
                        expected=ast.unparse(want), found=ast.unparse(got)))
    return r


def _bool_eval(n, env):
    if isinstance(n, ast.Name):
        return env[n.id]
    if isinstance(n, ast.Constant):
        return bool(n.value)
    if isinstance(n, ast.UnaryOp) and isinstance(n.op, (ast.Invert,
                                                        ast.Not)):
        return not _bool_eval(n.operand, env)
    if isinstance(n, ast.BinOp) and isinstance(n.op, ast.BitAnd):
        return _bool_eval(n.left, env) and _bool_eval(n.right, env)
    if isinstance(n, ast.BinOp) and isinstance(n.op, ast.BitOr):
        return _bool_eval(n.left, env) or _bool_eval(n.right, env)
    if isinstance(n, ast.BoolOp):
        vs = [_bool_eval(v, env) for v in n.values]
        return all(vs) if isinstance(n.op, ast.And) else any(vs)
    raise ValueError(ast.dump(n))


def _same_function(a, b):
    """the two template expressions denote the same Boolean function"""
    names = sorted(set(n.id for t in (a, b) for n in ast.walk(t)
                       if isinstance(n, ast.Name)))
    try:
        for vals in itertools.product([False, True], repeat=len(names)):
            env = dict(zip(names, vals))
            if _bool_eval(a, env) != _bool_eval(b, env):
                return False
    except ValueError:
        return False
    return True


def _subst(tree, name, repl):
    class T(ast.NodeTransformer):
        def visit_Name(self, n):
            if n.id == name:
                return repl
            return n
    return T().visit(tree)


# ---------------------------------------------------------------------------
# R-BP-6  an ordering owns its state
# ---------------------------------------------------------------------------

def rule_bp6(prog):
    """`OBDD(str(o))` reads the header `lambda v1,..,vn:` that __str__ takes
    from o.ordering.get_list().  The ordering an OBDD was built with must not
    change afterwards: an ordering object keeps no reference to the list it
    was made from, and does not hand out a list it keeps."""
    from .c13 import _aliases
    from ..galg import deep_snapshot
    r = RuleResult('R-BP-6', 'an ordering keeps no reference to the list it '
                   'was built from and hands out no list it keeps')
    base = prog.cls('BDD.ordering.Ordering')
    # Ordering(<list>) is what the OBDD constructor and the lambda reader
    # call: the classes it instantiates are the ones analysed
    for _once in (0,):
        L = Sym('L', ('b', 'list', ('b', 'str')))
        I = Interp(prog, Hooks(), rule='R-BP-6')
        path = I.new_path()
        anchor = prog.method(base, '__new__') or prog.method(base, '__init__')
        if anchor is None:
            raise Inconclusive('R-BP-6', 'Ordering has no constructor', '')
        res = I.construct(base, [L], [], path, anchor.node)
        res = [(p, v) for (p, v) in res if not isinstance(v, Raise)
               and not (isinstance(v, Const) and v.v is None)]
        if not res:
            raise Inconclusive('R-BP-6', 'Ordering(list) constructs nothing',
                               anchor.where())
        for (p, o) in res:
            ci = I.class_of(o, p) if isinstance(o, Obj) else None
            if not isinstance(ci, ClassInfo):
                raise Inconclusive('R-BP-6', 'Ordering(list) constructs %r' %
                                   (o,), anchor.where())
            init = prog.method(ci, '__init__') or anchor
            snap = deep_snapshot(I, o, p)
            al = _aliases(I, snap, p, (L,))
            held = [x for x in al]
            if held:
                # a reference that no method ever reads changes nothing
                hf = [fn for fn, fv in (p.heap[o.oid].fields or {}).items()
                      if any(fv == x for x in held)]
                if hf and len(hf) == len(held):
                    read = any(
                        isinstance(n, ast.Attribute) and n.attr in hf and
                        isinstance(n.ctx, ast.Load)
                        for c in ci.mro if isinstance(c, ClassInfo)
                        for node in c.attrs.values()
                        if isinstance(node, ast.FunctionDef)
                        for n in ast.walk(node))
                    if not read:
                        r.notes.append('%s stores its argument in %s, which '
                                       'is never read' % (ci.qn, hf))
                        held = []
            r.inst(cls=ci.qn, constructed=repr(snap)[:200],
                   keeps_argument=[repr(x) for x in held])
            if held:
                r.fail(Finding(
                    PROP, 'R-BP-6', init.where(), init.short(),
                    'keeps-argument:%s' % ci.name,
                    '%s keeps a reference to the list it is given (%r): '
                    'when the caller edits that list afterwards, the '
                    'ordering printed by str(o) is no longer the one the '
                    'diagram was built with and OBDD(str(o)) != o' % (
                        init.short(), held[0])))
            else:
                r.ok()
            # what the instance holds (mutable containers of its own)
            own = {}
            h = p.heap[o.oid]
            for fname, fv in (h.fields or {}).items():
                if isinstance(fv, Obj) and p.heap[fv.oid].kind in (
                        'list', 'dict', 'set'):
                    own[fv.oid] = fname
            for mname, node in sorted(ci.attrs.items()):
                if not isinstance(node, ast.FunctionDef) or \
                        mname.startswith('__') or \
                        len(node.args.args) != 1:
                    continue
                m = prog.method(ci, mname, own=True)
                outs = I.call_function(FRef(m), [o], [], p.fork(), m.node)
                for (q, v) in outs:
                    if isinstance(v, Raise):
                        continue
                    shared = None
                    if isinstance(v, Obj) and v.oid in own:
                        shared = 'its field `%s`' % own[v.oid]
                    elif v == L:
                        shared = 'the list it was built from'
                    r.inst(cls=ci.qn, method=mname, returns=repr(
                        deep_snapshot(I, v, q))[:120], shares=shared)
                    if shared:
                        r.fail(Finding(
                            PROP, 'R-BP-6', m.where(), m.short(),
                            'hands-out:%s' % mname,
                            '%s returns %s, not a copy: a client that edits '
                            'the returned list changes the ordering of '
                            'every OBDD that uses this object, and str(o) '
                            'no longer reads back as o' % (m.short(),
                                                           shared)))
                    else:
                        r.ok()
    return r

# ---------------------------------------------------------------------------
# R-BP-7  taking the first statement of the parsed text is protected
# ---------------------------------------------------------------------------

def rule_bp7(prog, seeds):
    """`ast.parse(text)` of an empty / blank / comment-only text has no
    statement: `.body[0]` raises IndexError.  The readers must turn that into
    SyntaxError (non-Boolean syntax), i.e. the positional access sits in a
    handler that catches it and raises SyntaxError, or is preceded by a test
    of the list"""
    r = RuleResult('R-BP-7', 'the first statement of the parsed text is '
                   'taken under a handler / test that yields SyntaxError')
    n = 0
    for f in seeds:
        parses = [c for c in ast.walk(f.node) if isinstance(c, ast.Call) and
                  ast.unparse(c.func) in ('ast.parse', 'parse')]
        if not parses:
            continue
        tries = [t for t in ast.walk(f.node) if isinstance(t, ast.Try)]
        ifs = [i for i in ast.walk(f.node) if isinstance(i, ast.If)]
        for sub in ast.walk(f.node):
            if not (isinstance(sub, ast.Subscript) and
                    isinstance(sub.slice, ast.Constant) and
                    isinstance(sub.slice.v if hasattr(sub.slice, 'v')
                               else sub.slice.value, int) and
                    isinstance(sub.ctx, ast.Load) and
                    ast.unparse(sub.value).endswith('.body')):
                continue
            n += 1
            prot = None
            for t in tries:
                if any(sub is m for b in t.body for m in ast.walk(b)):
                    caught = []
                    raises_syntax = False
                    for h in t.handlers:
                        ts = [] if h.type is None else (
                            h.type.elts if isinstance(h.type, ast.Tuple)
                            else [h.type])
                        caught.extend(['BaseException'] if h.type is None
                                      else [ast.unparse(x).split('.')[-1]
                                            for x in ts])
                        raises_syntax = raises_syntax or any(
                            isinstance(m, ast.Raise) and m.exc is not None
                            and 'SyntaxError' in ast.unparse(m.exc)
                            for m in ast.walk(h))
                    if raises_syntax and any(
                            c in ('BaseException', 'Exception', 'IndexError',
                                  'LookupError') for c in caught):
                        prot = 'handler'
            if prot is None:
                base = ast.unparse(sub.value)
                for i in ifs:
                    if i.lineno < sub.lineno and base in ast.unparse(i.test):
                        prot = 'test'
            r.inst(function=f.short(), access=ast.unparse(sub),
                   line=sub.lineno, protected_by=prot)
            if prot:
                r.ok()
            else:
                r.fail(Finding(
                    PROP, 'R-BP-7', '%s:%d' % (f.module.relpath, sub.lineno),
                    f.short(), 'first-statement:%s' % f.name,
                    '%s takes `%s` without a handler or a test: for a text '
                    'without any statement (empty, blanks, a comment) this '
                    'raises IndexError instead of SyntaxError' % (
                        f.short(), ast.unparse(sub))))
    floor('R-BP-7', 'positional accesses to the parsed body', n, 2)
    return r


def _documented_node_fields(prog, rule):
    """the rules below address the fields of a node by the names the
    library gives them today; with other names nothing can be said"""
    from ..fields import bdd_node_fields
    got = bdd_node_fields(prog)
    if tuple(got) != ('var', 'low', 'high', 'value'):
        raise Inconclusive(rule, 'the fields of a BDD node are called %r' % (
            got,), 'pyModelChecking/BDD/BDD.py')


# -- R-BP-8: an explicit empty ordering is an ordering --------------------------

def rule_bp8(prog):
    """OBDD(text, []) (a constant, n = 0) is read as an expression over the
    empty ordering, like OBDD(text, ['a']); only OBDD(text) -- no ordering at
    all -- is read in lambda notation.  Decided by comparing the functions
    the constructor calls on its returning paths for the three arguments."""
    r = RuleResult('R-BP-8', 'the OBDD constructor takes the same route for '
                   'an explicit empty ordering as for a non-empty one (the '
                   'lambda reader only when no ordering is given)')
    oc = prog.cls('BDD.OBDD.OBDD')
    init = prog.method(oc, '__init__')
    if init is None or len(init.node.args.args) < 3:
        raise Inconclusive('R-BP-8', 'OBDD.__init__(self, text, ordering, '
                           '..) not found', '')

    class H(Hooks):
        def inline(self, I, fi, args):
            return fi is init

    def routes(mk):
        I = Interp(prog, H(), rule='R-BP-8')
        path = I.new_path()
        o = path.alloc('inst')
        path.heap[o.oid].ci = oc
        args = [o, Sym('text', ('b', 'str')), mk(I, path)]
        for a in init.node.args.args[3:]:
            args.append(Const(True))
        res = I.call_function(FRef(init), args, [], path, init.node)
        out = set()
        for (p, v) in res:
            if isinstance(v, Raise):
                continue
            out.add(tuple(e.target.fi.qn for e in p.log
                          if e.kind == 'call' and isinstance(e.target, FRef)))
        return out
    none = routes(lambda I, p: Const(None))
    empty = routes(lambda I, p: I._mk_coll('list', [], p, None))
    one = routes(lambda I, p: I._mk_coll('list', [Const('a')], p, None))
    r.inst(no_ordering=sorted(none), empty_ordering=sorted(empty),
           one_variable=sorted(one))
    if not one or not none:
        raise Inconclusive('R-BP-8', 'no returning path of OBDD.__init__ '
                           'for a one-variable ordering / no ordering',
                           init.where())
    if one == none:
        raise Inconclusive('R-BP-8', 'the constructor calls the same '
                           'functions with and without an ordering',
                           init.where())
    if empty == one:
        r.ok()
    else:
        r.fail(Finding(
            PROP, 'R-BP-8', init.where(), init.short(), 'empty-ordering',
            'OBDD(text, []) calls %s while OBDD(text, [\'a\']) calls %s%s: '
            'an explicit empty ordering (the n = 0 case: constants) is not '
            'treated as an ordering' % (
                sorted(empty) or 'nothing (no returning path)', sorted(one),
                ' -- it takes the route of OBDD(text), the lambda notation'
                if empty == none else ''),
            expected=sorted(one), found=sorted(empty)),
            witness=Const('empty'))
    return r


def run(prog, tier, seed):
    _documented_node_fields(prog, 'R-BP-1')
    T = Attempts()
    seeds, funcs = parser_functions(prog)
    r1, results = T(rule_bp1, prog, funcs, _n=2)
    if results is not None:
        r2 = T(rule_bp2, prog, results)
        r2b = T(rule_bp2b, prog, results)
    else:
        r2 = r2b = None
        T.skipped('R-BP-2 / R-BP-2b')
    r3 = T(rule_bp3, prog, funcs, seeds)
    r4 = T(rule_bp4, prog)
    r5 = T(rule_bp5, prog, funcs, seeds)
    r6 = T(rule_bp6, prog)
    r7 = T(rule_bp7, prog, seeds)
    r8 = T(rule_bp8, prog)
    expl = ('The expression parser of the OBDD module is interpreted '
            'abstractly per function: every path returns an OBDD-valued '
            'expression or raises SyntaxError (no fall-through None); the '
            'case table maps and/& , or/| , not/~ to the same operation; '
            'the elements handed to Ordering([...]) and the variable slot of '
            'nodes are str by type flow from the ast field types; the node '
            'printer\'s templates (extracted from __str__ for every shape '
            'of children) use only tokens of the parser\'s case table and '
            'every embedded child stays a single operand when the composed '
            'text is read by Python\'s own grammar (ast.parse applied to '
            'the *template*, not to repository output). Not decided: '
            'equality of the two notations as Boolean functions (C16/C17).')
    assumptions = ['ast field types: Name.id and arg.arg are str; id() is '
                   'int', 'Python\'s ast.parse is the parser the library '
                   'itself uses']
    # both notations are built with &, |, ~ under the ordering object: its
    # in_order / == / membership must be those of the sequence
    from . import c17
    from ..report import adopt
    dep = adopt(T.results(T(c17.rule_bdd5, prog)), PROP,
                'the ordering both notations are built under')
    # a table that survives a call of a parser (a cache of parsed
    # expressions) makes the diagram of one notation depend on the history
    from . import c16 as _c16
    dep = dep + adopt(T.results(T(_c16.rule_hc8, prog)), PROP,
                      'tables that outlive a call of the parsers')
    # the two notations give the *same* OBDD only if node construction finds
    # the node that already exists and terminals accept 0 / 1 only
    from . import c16

    def _hashcons(prog):
        r1_, r2_, lookup, reg = c16.rule_hc12(prog)
        out = [r1_, r2_]
        if lookup is not None:
            out.append(c16.rule_hc3(prog, lookup, reg))
        return out
    dep = dep + adopt(T.results(T(_hashcons, prog)), PROP,
                      'one node per (variable, low, high)')
    return T.results(r1, r2, r2b, r3, r4, r5, r6, r7, r8) + dep, expl, \
        assumptions, T.extra()
