"""C13 -- reachability, reversal, subgraph, clone: exact and non-destructive
(partial).

R-G-0 accessors and constructor/mutators of DiGraph agree with the adjacency
      model (nodes/next/edges/sources; __init__, add_node, add_edge on
      symbolic unrolled instances)
R-G-1 the five operations write nothing reachable from their arguments and
      return nothing that aliases them
R-G-2 extracted summaries of get_subgraph / get_reversed_graph / clone equal
      the specification on every digraph with <= 3 nodes
R-G-3 worklist-closure conditions of get_reachable_set_from
"""
import ast
import itertools

from ..program import AnalysisError, Inconclusive, ClassInfo
from ..values import (Const, Sym, CRef, FRef, ERef, Bound, BoundB, Obj, Tup, App,
                      New, Raise, Coll, Part, walk)
from ..interp import Interp, Hooks
from ..galg import (GraphHooks, Evaluator, evaluate_set, deep_snapshot,
                    all_graphs, all_subsets, NotEvaluable, GraphError, CG,
                    g_subgraph, g_reversed, g_reach, _freeze)
from ..report import Finding, RuleResult, floor, Attempts

PROP = 'C13'


def adjacency_field(prog):
    """the field whose keys `nodes()` returns"""
    dg = prog.cls('graph.DiGraph')
    f = prog.method(dg, 'nodes')
    I = Interp(prog, Hooks(), rule='R-G-0')
    path = I.new_path()
    G = Sym('G', ('inst', dg))
    res = I.call_function(FRef(f), [G], [], path, f.node)
    for (p, v) in res:
        for x in walk(v):
            if isinstance(x, App) and x.op == 'attr' and x.args[0] == G:
                return x.args[1].v
    raise Inconclusive('R-G-0', 'adjacency field not found from nodes()',
                       f.where())


def graph_env(G, adj, g):
    return {App('attr', G, Const(adj)): {n: g.succ[n] for n in g.nodes},
            '$adjfield': adj}


def ev_value(v, env):
    e = Evaluator(env)
    return _freeze(e.ev(v))


def pc_holds(p, env, I):
    e = Evaluator(env)
    for (c, pol) in p.pc:
        if e.is_marker(c):
            return False          # implicit-exception alternative
        c = deep_snapshot(I, c, p)
        if bool(e.ev(c)) != pol:
            return False
    return True


# ---------------------------------------------------------------------------
# R-G-0 accessors
# ---------------------------------------------------------------------------

def rule_g0(prog, adj):
    r = RuleResult('R-G-0', 'DiGraph accessors/constructor/mutators agree '
                   'with the adjacency model')
    dg = prog.cls('graph.DiGraph')
    G = Sym('G', ('inst', dg))
    specs = {
        'nodes': lambda g, a: frozenset(g.nodes),
        'edges': lambda g, a: frozenset(g.edges()),
        'edges_iter': lambda g, a: frozenset(g.edges()),
        'sources': lambda g, a: frozenset(n for n in g.nodes if g.succ[n]),
        'next': lambda g, a: frozenset(g.succ[a]) if a in g.nodes
        else 'RuntimeError',
    }
    for name, spec in sorted(specs.items()):
        f = prog.method(dg, name)
        if f is None:
            raise AnalysisError('DiGraph.%s not found' % name)
        I = Interp(prog, Hooks(), rule='R-G-0')
        path = I.new_path()
        args = [G] + ([Sym('v')] if name == 'next' else [])
        res = I.call_function(FRef(f), args, [], path, f.node)
        res = [(p, v) for (p, v) in res
               if not (isinstance(v, Raise) and v.implicit)]
        bad = None
        nm = 0
        muts = [e for (p, v) in res for e in p.log
                if e.kind in ('mutate', 'setattr', 'setitem')]
        try:
            for n in range(0, 4):
                for g in all_graphs(n):
                    for a in ([None] if name != 'next'
                              else list(range(n)) + [99]):
                        nm += 1
                        env = graph_env(G, adj, g)
                        env[Sym('v')] = a
                        want = spec(g, a)
                        got = None
                        for (p, v) in res:
                            if not pc_holds(p, env, I):
                                continue
                            if isinstance(v, Raise):
                                c = I.exc_class(v.exc)
                                got = c.name if c else 'raise'
                            else:
                                x = ev_value(deep_snapshot(I, v, p), env)
                                got = frozenset(x) if not isinstance(
                                    x, frozenset) else x
                            break
                        if got != want and bad is None:
                            bad = (g, a, got, want)
        except NotEvaluable as e:
            raise Inconclusive('R-G-0', 'DiGraph.%s not evaluable: %s' % (
                name, e), f.where())
        r.inst(method=f.short(), models=nm, paths=len(res))
        if bad:
            g, a, got, want = bad
            r.fail(Finding(
                PROP, 'R-G-0', f.where(), f.short(), 'accessor:' + name,
                'DiGraph.%s%s on %r yields %s, expected %s' % (
                    name, '(%r)' % a if a is not None else '()', g,
                    _s(got), _s(want)), expected=_s(want), found=_s(got)))
        else:
            r.ok()
        if muts:
            r.fail(Finding(PROP, 'R-G-1', f.where(), f.short(),
                           'accessor-mutates:' + name,
                           'DiGraph.%s modifies the graph: %r' % (name,
                                                                  muts[0])))
        else:
            r.ok()
    # constructor and mutators on unrolled symbolic instances
    _unrolled(prog, adj, r)
    return r


def _s(x):
    if isinstance(x, (set, frozenset)):
        return sorted(x, key=repr)
    return x


def _unrolled(prog, adj, r):
    dg = prog.cls('graph.DiGraph')
    init = prog.method(dg, '__init__')
    syms = [Sym('x%d' % i) for i in range(4)]
    vals = [0, 1, 2]
    cases = []
    # DiGraph(V, E) with |V| <= 2, |E| <= 2 over symbolic nodes
    for nv in range(0, 3):
        for ne in range(0, 3):
            V = [Sym('v%d' % i) for i in range(nv)]
            E = [(Sym('s%d' % i), Sym('d%d' % i)) for i in range(ne)]
            cases.append((V, E))
    nm = 0
    bad = None
    for (V, E) in cases:
        I = Interp(prog, Hooks(), rule='R-G-0')
        path = I.new_path()
        o = path.alloc('inst')
        path.heap[o.oid].ci = dg
        lv = I._mk_coll('list', V, path, None)
        le = I._mk_coll('list', [Tup(e) for e in E], path, None)
        res = I.call_function(FRef(init), [o, lv, le], [], path, init.node)
        res = [(p, v) for (p, v) in res
               if not (isinstance(v, Raise) and v.implicit)]
        free = V + [x for e in E for x in e]
        for asg in itertools.product(vals, repeat=len(free)):
            env = dict(zip(free, asg))
            env['$adjfield'] = adj
            succ = {}
            for v in V:
                succ.setdefault(env[v], set())
            for (s, d) in E:
                succ.setdefault(env[s], set()).add(env[d])
                succ.setdefault(env[d], set())
            want = CG(succ.keys(), succ)
            nm += 1
            got = None
            try:
                for (p, v) in res:
                    if not pc_holds(p, env, I):
                        continue
                    if isinstance(v, Raise):
                        got = 'raise'
                    else:
                        got = Evaluator(env).ev(deep_snapshot(I, o, p))
                    break
            except NotEvaluable as e:
                raise Inconclusive('R-G-0', 'DiGraph.__init__ not '
                                   'evaluable: %s' % e, init.where())
            except GraphError as e:
                got = 'ill-formed: %s' % e
            if got != want and bad is None:
                bad = (dict((repr(k), v) for k, v in env.items()
                            if isinstance(k, Sym)),
                       [repr(v) for v in V], [repr(e) for e in E], got, want)
    r.inst(method=init.short(), unrolled_instances=len(cases),
           assignments=nm)
    if bad:
        r.fail(Finding(
            PROP, 'R-G-0', init.where(), init.short(), 'init',
            'DiGraph(V=%s, E=%s) under %s builds %r, expected %r' % (
                bad[1], bad[2], bad[0], bad[3], bad[4]),
            expected=repr(bad[4]), found=repr(bad[3])))
    else:
        r.ok()
    # add_node / add_edge on a graph with symbolic adjacency
    G = Sym('G', ('inst', dg))
    for name, nargs in (('add_node', 1), ('add_edge', 2)):
        f = prog.method(dg, name)
        args = [Sym('a%d' % i) for i in range(nargs)]
        I = Interp(prog, _MutHooks(prog, adj), rule='R-G-0')
        path = I.new_path()
        o = path.alloc('inst')
        path.heap[o.oid].ci = dg
        # adjacency: a concrete dict over symbolic keys k0,k1 with symbolic
        # successor sets is not expressive enough; use small concrete graphs
        bad = None
        nm = 0
        for n in range(0, 3):
            for g in all_graphs(n):
                for asg in itertools.product(range(n + 2), repeat=nargs):
                    nm += 1
                    got = _run_mutator(prog, f, adj, g, asg)
                    want = _spec_mutator(name, g, asg)
                    if got != want and bad is None:
                        bad = (g, asg, got, want)
        r.inst(method=f.short(), models=nm)
        if bad:
            r.fail(Finding(
                PROP, 'R-G-0', f.where(), f.short(), 'mutator:' + name,
                'DiGraph.%s%r on %r gives %r, expected %r' % (
                    name, bad[1], bad[0], bad[2], bad[3]),
                expected=repr(bad[3]), found=repr(bad[2])))
        else:
            r.ok()


class _MutHooks(Hooks):
    def __init__(self, prog, adj):
        self.adj = adj


def _run_mutator(prog, f, adj, g, asg):
    """abstractly interpret a mutator on a graph whose adjacency is a
    concrete dict of constant nodes (an *instance* of the code, node values
    are opaque constants)"""
    dg = prog.cls('graph.DiGraph')
    I = Interp(prog, Hooks(), rule='R-G-0')
    path = I.new_path()
    o = path.alloc('inst')
    path.heap[o.oid].ci = dg
    d = path.alloc('dict')
    for n in sorted(g.nodes):
        s = I._mk_coll('set', [Const(x) for x in sorted(g.succ[n])], path,
                       None)
        path.heap[d.oid].parts.append(Part('elem', s, key=Const(n)))
    path.heap[o.oid].fields[adj] = d
    res = I.call_function(FRef(f), [o] + [Const(a) for a in asg], [], path,
                          f.node)
    res = [(p, v) for (p, v) in res
           if not (isinstance(v, Raise) and v.implicit)]
    if len(res) != 1:
        return 'paths=%d' % len(res)
    p, v = res[0]
    if isinstance(v, Raise):
        c = I.exc_class(v.exc)
        return c.name if c else 'raise'
    try:
        return Evaluator({'$adjfield': adj}).ev(deep_snapshot(I, o, p))
    except GraphError as e:
        return 'ill-formed: %s' % e


def _spec_mutator(name, g, asg):
    succ = {n: set(g.succ[n]) for n in g.nodes}
    if name == 'add_node':
        if asg[0] in succ:
            return 'RuntimeError'
        succ[asg[0]] = set()
    else:
        s, d = asg
        if s in succ and d in succ[s]:
            return 'RuntimeError'
        succ.setdefault(s, set()).add(d)
        succ.setdefault(d, set())
    return CG(succ.keys(), succ)


# ---------------------------------------------------------------------------
# R-G-1 / R-G-2
# ---------------------------------------------------------------------------

class _OpHooks(GraphHooks):
    """inside the operations, DiGraph(V, E) / DiGraph() is the constructor
    primitive verified by R-G-0"""

    def __init__(self, prog):
        self.graph_init(prog)

    def call(self, I, fv, args, kw, path, node):
        return None          # methods of self are interpreted, not primitive


def root_of(v):
    """symbolic root (Sym) of an access path"""
    while True:
        if isinstance(v, App) and v.op in ('attr', 'item', 'mcall',
                                           'dictview', 'iter', 'dictget'):
            v = v.args[1] if v.op == 'dictview' else v.args[0]
        elif isinstance(v, Sym):
            if v.meta and v.meta[0] == 'elem':
                v = v.meta[1]
            else:
                return v
        elif isinstance(v, Coll):
            return None
        else:
            return None


def rule_g12(prog, adj):
    r1 = RuleResult('R-G-1', 'operations write nothing reachable from their '
                    'arguments; results alias nothing of them')
    r2 = RuleResult('R-G-2', 'extracted summaries == specification on every '
                    'digraph with <= 3 nodes')
    dg = prog.cls('graph.DiGraph')
    G = Sym('G', ('inst', dg))
    X = Sym('X')
    ops = {
        'get_subgraph': ([X], lambda g, x: g_subgraph(g, x)),
        'get_reversed_graph': ([], lambda g, x: g_reversed(g)),
        'clone': ([], lambda g, x: g),
        'get_reachable_set_from': ([X], None),
    }
    deferred = []
    for name, (args, spec) in sorted(ops.items()):
        try:
            _g12_one(prog, dg, adj, G, X, name, args, spec, r1, r2)
        except Inconclusive as e:
            deferred.append(e)
    floor('R-G-1', 'operations', len(r1.instances), 4)
    if deferred:
        deferred[0].partial = (r1, r2)
        raise deferred[0]
    return r1, r2


def _g12_one(prog, dg, adj, G, X, name, args, spec, r1, r2):
    if True:
        f = prog.method(dg, name)
        if f is None:
            raise AnalysisError('DiGraph.%s not found' % name)
        hooks = _OpHooks(prog)
        hooks.adjacency_field = adj
        I = Interp(prog, hooks, rule='R-G-1')
        path = I.new_path()
        res = I.call_function(FRef(f), [G] + args, [], path, f.node)
        res = [(p, v) for (p, v) in res
               if not (isinstance(v, Raise) and v.implicit)]
        rets = [(p, v) for (p, v) in res if not isinstance(v, Raise)]
        if not rets:
            raise Inconclusive('R-G-1', 'no returning path of %s' % name,
                               f.where())
        copied = False
        for (p, v) in rets:
            if isinstance(v, App) and v.op == 'call' and \
                    isinstance(v.args[0], ERef) and \
                    v.args[0].name in ('copy.deepcopy', 'copy.copy') and \
                    list(v.args[1].items) == [G]:
                deep = v.args[0].name.endswith('deepcopy')
                copied = True
                r2.fail(Finding(
                    PROP, 'R-G-2', f.where(), f.short(),
                    'copy-module:' + name,
                    'DiGraph.%s is %s(self): %s' % (
                        name, v.args[0].name,
                        'the nodes (arbitrary hashable objects) are copied '
                        'too, so for nodes that are compared by identity '
                        'the result has other nodes than the graph: it is '
                        'not equal to it and next(v) of a node v of the '
                        'graph raises' if deep else
                        'a shallow copy shares the adjacency dictionary and '
                        'the successor sets with the graph')))
        if copied:
            r1.inst(op=f.short(), writes_to_arguments=[],
                    note='built by the copy module')
            return
        for (p, v) in rets:
            # writes
            muts = [e for e in p.log if e.kind in ('mutate', 'setattr',
                                                   'setitem', 'delete')
                    and root_of(e.target) in (G, X)]
            r1.inst(op=f.short(), writes_to_arguments=[repr(e)[:120]
                                                      for e in muts])
            if muts:
                e = muts[0]
                r1.fail(Finding(
                    PROP, 'R-G-1', I.where(e.node, f.module), f.short(),
                    'write:%s:%s' % (name, e.name),
                    'DiGraph.%s modifies its graph/argument: %s on %r' % (
                        name, e.name, e.target)))
            else:
                r1.ok()
            # aliasing of the result
            snap = deep_snapshot(I, v, p)
            al = _aliases(I, snap, p, (G, X), top=True)
            if al:
                r1.fail(Finding(
                    PROP, 'R-G-1', f.where(), f.short(),
                    'alias:%s' % name,
                    'the result of DiGraph.%s shares the mutable object %r '
                    'with the graph/argument' % (name, al[0])))
            else:
                r1.ok()
        if spec is None:
            return
        # one summary per returning path, selected by its path condition
        snaps = [([(deep_snapshot(I, c, p), pol) for (c, pol) in p.pc],
                  deep_snapshot(I, v, p)) for (p, v) in rets]
        snap = snaps[0][1] if len(snaps) == 1 else \
            Tup([t for (_, t) in snaps])
        bad = None
        nm = 0
        try:
            for n in range(0, 4):
                for g in all_graphs(n):
                    xs = [None] if not args else \
                        [frozenset(s) for s in all_subsets(n + 1)]
                    for x in xs:
                        nm += 1
                        env = graph_env(G, adj, g)
                        env[X] = x
                        want = spec(g, x)
                        try:
                            ev = Evaluator(env)
                            live = [t for (pc, t) in snaps
                                    if all((not ev.is_marker(c)) and
                                           bool(ev.ev(c)) == pol
                                           for (c, pol) in pc)]
                            if len(live) != 1:
                                raise NotEvaluable(
                                    '%d path conditions hold' % len(live))
                            got = ev.ev(live[0])
                        except GraphError as e:
                            got = 'raises: %s' % e
                        if got != want and bad is None:
                            bad = (g, x, got, want)
                if bad:
                    break
        except NotEvaluable as e:
            raise Inconclusive('R-G-2', 'summary of %s not evaluable: %s' % (
                name, e), f.where())
        r2.inst(op=f.short(), summary=repr(snap)[:400], models=nm)
        if bad:
            g, x, got, want = bad
            r2.fail(Finding(
                PROP, 'R-G-2', f.where(), f.short(), 'summary:' + name,
                'DiGraph.%s%s on %r yields %r, expected %r' % (
                    name, '(%s)' % sorted(x) if x is not None else '()', g,
                    got, want), expected=repr(want), found=repr(got),
                extra={'summary': repr(snap)[:800]}))
        else:
            r2.ok()


def _aliases(I, v, path, roots, top=False, items_of=()):
    """mutable containers of the arguments reachable from the result;
    `items_of`: roots whose items are mutable containers by contract"""
    out = []

    def is_mutable_sym(x):
        if isinstance(x, App) and x.op in ('item', 'dictget') and \
                x.args[0] in items_of:
            return True
        t = I.typeof(x, path)
        return t is not None and t[0] == 'b' and t[1] in ('set', 'dict',
                                                         'list')

    def visit(x, depth):
        if isinstance(x, (Sym, App)) and not (isinstance(x, App) and
                                              x.op in ('inst', 'graph',
                                                       'mkgraph',
                                                       'mkkripke')):
            if root_of(x) in roots and (is_mutable_sym(x) or
                                        (depth == 0 and isinstance(x, Sym)
                                         and x in roots)):
                out.append(x)
            return
        if isinstance(x, Coll):
            for p in x.parts:
                if p.kind == 'elem':
                    visit(p.val, depth + 1)
                elif p.kind == 'spread' and x.kind in ('dict', 'list'):
                    # dict(X) / list(X): the members (values) of X are
                    # shared, not copied
                    src = p.val
                    t = I.typeof(src, path) if isinstance(
                        src, (Sym, App)) else None
                    inner = None
                    if t and t[0] == 'b' and t[1] == 'dict' and len(t) > 3:
                        inner = t[3]
                    elif t and t[0] == 'b' and t[1] == 'list' and len(t) > 2:
                        inner = t[2]
                    if inner and inner[0] == 'b' and inner[1] in (
                            'set', 'list', 'dict') and root_of(src) in roots:
                        out.append(App('members-of', src))
        elif isinstance(x, App) and x.op == 'inst':
            for kv in x.args[2].items:
                visit(kv.items[1], depth + 1)
        elif isinstance(x, Tup):
            for y in x.items:
                visit(y, depth + 1)
    visit(v, 0)
    return out


# ---------------------------------------------------------------------------
# R-G-3 worklist closure
# ---------------------------------------------------------------------------

def rule_g3(prog, adj):
    r = RuleResult('R-G-3', 'worklist closure conditions of '
                   'get_reachable_set_from')
    dg = prog.cls('graph.DiGraph')
    f = prog.method(dg, 'get_reachable_set_from')
    G = Sym('G', ('inst', dg))
    X = Sym('X')
    I = Interp(prog, Hooks(), rule='R-G-3')
    path = I.new_path()
    res = I.call_function(FRef(f), [G, X], [], path, f.node)
    rets = [(p, v) for (p, v) in res if not isinstance(v, Raise)]
    if len(rets) != 1 or not isinstance(rets[0][1], Obj):
        raise Inconclusive('R-G-3', 'get_reachable_set_from returns %r' % (
            [v for _, v in rets],), f.where())
    p, R = rets[0]
    hR = p.heap[R.oid]
    if hR.kind != 'set':
        raise Inconclusive('R-G-3', 'result is a %s' % hR.kind, f.where())

    def fail(key, msg):
        r.fail(Finding(PROP, 'R-G-3', f.where(), f.short(), key, msg))

    # (1) initialised with all of the argument
    init = [q for q in hR.parts if not q.gens]
    ok1 = any(q.kind == 'spread' and q.val == X and not q.conds
              for q in init)
    r.inst(condition='result initialised with every node of the argument',
           holds=ok1, parts=[repr(q) for q in init])
    if ok1:
        r.ok()
    else:
        fail('init-result', 'the result set is not initialised with every '
             'node of the argument: %r' % (init,))
    # worklists: lists that are popped in a while loop
    loopparts = [q for q in hR.parts if q.gens]
    wl = None
    for oid, h in p.heap.items():
        if h.kind == 'list' and any(q.kind == 'spread' and q.val == X
                                    for q in h.parts):
            wl = (oid, h)
    ok2 = wl is not None
    r.inst(condition='worklist initialised with every node of the argument',
           holds=ok2)
    if ok2:
        r.ok()
    else:
        # is there a popped list at all?  A worklist that is there but not
        # seeded with the argument is a defect; no recognisable worklist is
        # another organisation of the search (no verdict)
        popped = [oid for oid, h in p.heap.items() if h.kind == 'list' and
                  any(e.kind == 'mutate' and e.name == 'pop' and
                      isinstance(e.target, (Obj, Coll)) and
                      getattr(e.target, 'oid', None) == oid
                      for e in p.log)]
        if not popped:
            e = Inconclusive('R-G-3', 'no worklist (a list seeded with the '
                             'argument and popped in a loop) recognised in '
                             '%s' % f.short(), f.where())
            e.partial = r
            raise e
        fail('init-worklist', 'no worklist is initialised with every node '
             'of the argument')
        return r
    woid, hW = wl
    # (3) every added element is a successor of a popped worklist element
    ok3 = bool(loopparts)
    ok5 = bool(loopparts)
    ok6 = bool(loopparts)
    for q in loopparts:
        gens = q.gens
        wh = [g for g in gens if g[0] is None]
        succ_gen = [g for g in gens if g[0] is not None]
        if not wh or len(succ_gen) != 1 or q.val != succ_gen[0][0]:
            ok3 = False
            continue
        it = succ_gen[0][1]
        # it == adjacency[popped]
        good = isinstance(it, App) and it.op == 'item' and \
            it.args[0] == App('attr', G, Const(adj)) and \
            isinstance(it.args[1], Sym) and it.args[1].meta and \
            it.args[1].meta[0] == 'elem' and \
            isinstance(it.args[1].meta[1], Coll) and \
            it.args[1].meta[1].oid == woid
        if not good:
            ok3 = False
        # (5) membership test before adding
        mem = [c for (c, pol) in q.conds if isinstance(c, App) and
               c.op == 'in' and c.args[0] == q.val and
               isinstance(c.args[1], Coll) and c.args[1].oid == R.oid
               and not pol]
        if not mem:
            ok5 = False
        # (6) the while condition is the worklist itself (exhaustion)
        wcond = [c for (c, pol) in q.conds
                 if isinstance(c, Coll) and c.oid == woid and pol]
        if not wcond:
            ok6 = False
    r.inst(condition='every node added is a successor (adjacency[popped]) of '
           'a node taken from the worklist', holds=ok3,
           parts=[repr(q)[:200] for q in loopparts])
    # is the loop of the recognised form at all: contributions made inside
    # `while <worklist>` over an iteration of some adjacency[...]
    shaped = bool(loopparts) and all(
        [g for g in q.gens if g[0] is None] and
        len([g for g in q.gens if g[0] is not None]) == 1 and
        isinstance([g for g in q.gens if g[0] is not None][0][1], App) and
        [g for g in q.gens if g[0] is not None][0][1].op == 'item' and
        [g for g in q.gens if g[0] is not None][0][1].args[0] ==
        App('attr', G, Const(adj)) for q in loopparts)
    if not shaped:
        e = Inconclusive('R-G-3', 'the search loop of %s is not of the form '
                         '`while worklist: x = pop; for y in adjacency[x]` '
                         '(%s)' % (f.short(), [repr(q)[:120]
                                               for q in loopparts][:2]),
                         f.where())
        e.partial = r
        raise e
    if ok3:
        r.ok()
    else:
        fail('successor', 'a node is added to the result that is not a '
             'successor of a node taken from the worklist: %r' % (
                 loopparts,))
    r.inst(condition='membership is tested before adding', holds=ok5)
    if ok5:
        r.ok()
    else:
        fail('membership', 'nodes are added to the result/worklist without '
             'testing membership first (the loop diverges on a cycle)')
    r.inst(condition='loop runs until the worklist is empty', holds=ok6)
    if ok6:
        r.ok()
    else:
        # another way of running until exhaustion (while True / try pop)
        # is not recognised: no verdict on this condition
        e = Inconclusive('R-G-3', 'the loop condition of %s is not the '
                         'worklist itself' % f.short(), f.where())
        e.partial = r
        raise e
    # (7) the scan of the successors of a node taken from the worklist is
    # not cut short
    cut = []
    for lf in getattr(I, 'loop_frames', []):
        it = lf.iterable
        if isinstance(it, App) and it.op == 'item' and \
                it.args[0] == App('attr', G, Const(adj)) and lf.breaks:
            cut.append(lf)
    ok7 = not cut
    r.inst(condition='every successor of a node taken from the worklist is '
           'examined (no break out of the successor scan)', holds=ok7)
    if ok7:
        r.ok()
    else:
        fail('scan-cut-short', 'the scan of the successors of a node taken '
             'from the worklist is left with `break` (under %s): the node is '
             'not examined again, its remaining successors are never added' %
             ([repr(c)[:60] for (c, pol) in cut[0].breaks[0]],))
    # (4) everything added to the result is also pushed on the worklist
    pushed = [q for q in hW.parts if q.gens]
    ok4 = all(any(w.val == q.val and w.gens == q.gens and
                  set(w.conds) == set(q.conds) for w in pushed)
              for q in loopparts) and bool(pushed)
    r.inst(condition='every node added to the result is pushed on the '
           'worklist under the same condition', holds=ok4)
    if ok4:
        r.ok()
    else:
        fail('push', 'a node added to the result is not pushed on the '
             'worklist (its successors are never explored)')
    return r


# ---------------------------------------------------------------------------

MUTATING = ('add', 'update', 'discard', 'remove', 'clear', 'pop', 'append',
            'extend', 'insert', 'sort', 'reverse', 'setdefault', 'popitem',
            'difference_update', 'intersection_update', 'add_node',
            'add_edge')
COPIERS = ('set', 'list', 'dict', 'frozenset', 'tuple', 'sorted', 'iter',
           'len', 'next', 'min', 'max', 'str', 'isinstance')


def syntactic_param_writes(fnode, params):
    """writes whose target is rooted at a parameter (through local aliases).
    Used for functions the interpreter does not model (compute_SCCs)."""
    alias = {p: p for p in params}

    def root(e):
        while True:
            if isinstance(e, ast.Name):
                return alias.get(e.id)
            if isinstance(e, (ast.Attribute, ast.Subscript)):
                e = e.value
            elif isinstance(e, ast.Call):
                if isinstance(e.func, ast.Name) and e.func.id in COPIERS:
                    return None
                if isinstance(e.func, ast.Attribute):
                    e = e.func.value
                else:
                    return None
            else:
                return None
    out = []
    for n in ast.walk(fnode):
        if isinstance(n, ast.Assign):
            for t in n.targets:
                if isinstance(t, ast.Name):
                    rt = root(n.value)
                    if rt and not isinstance(n.value, ast.Name):
                        alias[t.id] = rt
                    elif isinstance(n.value, ast.Name) and rt:
                        alias[t.id] = rt
    for n in ast.walk(fnode):
        if isinstance(n, (ast.Assign, ast.AugAssign, ast.Delete)):
            ts = n.targets if not isinstance(n, ast.AugAssign) else [n.target]
            for t in ts:
                if isinstance(t, (ast.Attribute, ast.Subscript)) and \
                        root(t.value):
                    out.append((n.lineno, ast.unparse(t)))
        if isinstance(n, ast.Call) and isinstance(n.func, ast.Attribute) and \
                n.func.attr in MUTATING and root(n.func.value):
            out.append((n.lineno, ast.unparse(n)))
    return out


def rule_g1_scc(prog, r1):
    f = prog.func('graph.compute_SCCs')
    params = [a.arg for a in f.node.args.args]
    w = syntactic_param_writes(f.node, params)
    r1.inst(op=f.short(), writes_to_arguments=[x[1] for x in w],
            method='syntactic effect analysis with local alias propagation')
    if w:
        r1.fail(Finding(PROP, 'R-G-1', '%s:%d' % (f.module.relpath, w[0][0]),
                        f.short(), 'write:compute_SCCs:' + w[0][1],
                        'compute_SCCs modifies its argument: ' + w[0][1]))
    else:
        r1.ok()


# -- R-G-5: reading the adjacency map inserts nothing ---------------------------

_ADJ_WRITERS = ('add', 'update', 'discard', 'remove', 'pop', 'clear',
                'setdefault', 'popitem', 'difference_update',
                'intersection_update', 'symmetric_difference_update',
                '__setitem__', '__delitem__')


def _adj_names(fnode, adj):
    """local names that are plain copies of self.<adj>"""
    import ast
    me = fnode.args.args[0].arg if fnode.args.args else None
    names = set()
    for n in ast.walk(fnode):
        if isinstance(n, ast.Assign) and len(n.targets) == 1 and \
                isinstance(n.targets[0], ast.Name) and \
                isinstance(n.value, ast.Attribute) and \
                n.value.attr == adj and \
                isinstance(n.value.value, ast.Name) and \
                n.value.value.id == me:
            names.add(n.targets[0].id)
    return me, names


def _is_adj(e, me, names, adj):
    import ast
    return (isinstance(e, ast.Attribute) and e.attr == adj and
            isinstance(e.value, ast.Name) and e.value.id == me) or \
        (isinstance(e, ast.Name) and e.id in names)


def _unguarded_adj_reads(fnode, adj):
    """(writes_adjacency, [(subscript node, verdict)]): verdict 'safe' (key
    bound by iterating the graph's own nodes, or dominated by a membership
    test on the same key), 'unguarded' (no membership test on the map in the
    whole function) or 'unknown'"""
    import ast
    me, names = _adj_names(fnode, adj)
    writes = False
    reads = []
    tests = []          # key texts tested for membership in the map
    bound = set()       # names bound by iterating the map / self.method()
    for n in ast.walk(fnode):
        if isinstance(n, (ast.Subscript, ast.Attribute)) and \
                isinstance(n.ctx, (ast.Store, ast.Del)):
            b = n.value if isinstance(n, ast.Subscript) else n
            if _is_adj(b, me, names, adj):
                writes = True
        if isinstance(n, ast.Call) and isinstance(n.func, ast.Attribute) and \
                n.func.attr in _ADJ_WRITERS:
            b = n.func.value
            if _is_adj(b, me, names, adj) or (
                    isinstance(b, ast.Subscript) and
                    _is_adj(b.value, me, names, adj)):
                writes = True
        if isinstance(n, ast.Compare) and len(n.ops) == 1 and \
                isinstance(n.ops[0], (ast.In, ast.NotIn)) and \
                _is_adj(n.comparators[0], me, names, adj):
            tests.append(ast.unparse(n.left))
        if isinstance(n, (ast.For, ast.comprehension)):
            it = n.iter
            src = it.func.value if isinstance(it, ast.Call) and \
                isinstance(it.func, ast.Attribute) and \
                it.func.attr in ('keys', 'items') else it
            own_call = isinstance(it, ast.Call) and \
                isinstance(it.func, ast.Attribute) and \
                isinstance(it.func.value, ast.Name) and \
                it.func.value.id == me and not it.args
            if _is_adj(src, me, names, adj) or own_call:
                for t in ast.walk(n.target):
                    if isinstance(t, ast.Name):
                        bound.add(t.id)
    for n in ast.walk(fnode):
        if isinstance(n, ast.Subscript) and isinstance(n.ctx, ast.Load) and \
                _is_adj(n.value, me, names, adj):
            k = n.slice
            kt = ast.unparse(k)
            if isinstance(k, ast.Name) and k.id in bound:
                reads.append((n, 'safe'))
            elif kt in tests:
                reads.append((n, 'safe'))
            elif not tests:
                reads.append((n, 'unguarded'))
            else:
                reads.append((n, 'unknown'))
    return writes, reads


def rule_g5(prog, adj):
    r = RuleResult('R-G-5', 'reading the adjacency map never inserts a key: '
                   'the map is a plain dict, or no method that otherwise '
                   'leaves the graph alone subscripts it with a key that '
                   'may be missing')
    import ast
    dg = prog.cls('graph.DiGraph')
    classes = sorted([c for c in prog.classes.values()
                      if c.is_subclass_of(dg)], key=lambda c: c.qn)
    auto = []
    n_assign = 0
    for c in classes:
        for nm, fn in sorted(c.attrs.items()):
            if not isinstance(fn, ast.FunctionDef) or not fn.args.args:
                continue
            me = fn.args.args[0].arg
            for n in ast.walk(fn):
                if isinstance(n, ast.Assign) and any(
                        isinstance(t, ast.Attribute) and t.attr == adj and
                        isinstance(t.value, ast.Name) and t.value.id == me
                        for t in n.targets):
                    n_assign += 1
                    v = n.value
                    kind = 'other'
                    if isinstance(v, (ast.Dict, ast.DictComp)):
                        kind = 'dict'
                    elif isinstance(v, ast.Call):
                        x = prog.eval_static(c.module, v.func)
                        nmx = getattr(x, 'name', None)
                        if isinstance(v.func, ast.Name) and \
                                v.func.id == 'dict' and x is not None and \
                                nmx in (None, 'dict'):
                            kind = 'dict'
                        elif nmx in ('collections.defaultdict',
                                     'defaultdict'):
                            kind = 'defaultdict'
                    r.inst(assigned_in='%s.%s' % (c.short(), nm),
                           value=ast.unparse(v)[:60], kind=kind)
                    if kind == 'defaultdict':
                        auto.append((c, nm, n))
                    r.ok()
    floor('R-G-5', 'assignments of the adjacency field', n_assign, 1)
    # matcher self-test
    pos = ast.parse('def q(self, xs):\n'
                    '    m = self.%s\n'
                    '    return [m[x] for x in xs]\n' % adj).body[0]
    neg = ast.parse('def q(self, x):\n'
                    '    if x not in self.%s:\n'
                    '        raise RuntimeError(x)\n'
                    '    return [self.%s[x]] + [self.%s[v] for v in '
                    'self.nodes()]\n' % (adj, adj, adj)).body[0]
    pw, pr = _unguarded_adj_reads(pos, adj)
    nw, nr = _unguarded_adj_reads(neg, adj)
    if pw or [v for (_, v) in pr] != ['unguarded'] or nw or \
            [v for (_, v) in nr] != ['safe', 'safe']:
        raise Inconclusive('R-G-5', 'matcher self-test failed', '')
    r.notes.append('matcher self-test: positive example reported, negative '
                   'example silent')
    if not auto:
        return r
    unknown = None
    for c in classes:
        for nm, fn in sorted(c.attrs.items()):
            if not isinstance(fn, ast.FunctionDef) or not fn.args.args:
                continue
            writes, reads = _unguarded_adj_reads(fn, adj)
            if writes or nm == '__init__':
                continue
            for (n, verdict) in reads:
                r.inst(method='%s.%s' % (c.short(), nm),
                       read=ast.unparse(n), verdict=verdict)
                if verdict == 'safe':
                    r.ok()
                elif verdict == 'unguarded':
                    f = prog.method(c, nm, own=True)
                    r.fail(Finding(
                        PROP, 'R-G-5', '%s:%d' % (c.module.relpath, n.lineno),
                        f.short(), 'auto-insert:%s' % nm,
                        'the adjacency map is a defaultdict (%s.%s) and %s '
                        'reads %s with a key that need not be a node and '
                        'without a membership test: the read inserts the key, '
                        'so an operation that must leave G unchanged adds '
                        'nodes to it (and answers instead of raising)' % (
                            auto[0][0].short(), auto[0][1], f.short(),
                            ast.unparse(n)),
                        expected='G unchanged / RuntimeError for a non-node',
                        found='key inserted'), witness=ast.unparse(n))
                elif unknown is None:
                    unknown = (c, nm, n)
    if unknown is not None and not r.findings:
        c, nm, n = unknown
        e = Inconclusive('R-G-5', 'adjacency map is a defaultdict; whether '
                         '%s is only read with existing keys in %s.%s is not '
                         'decided' % (ast.unparse(n), c.short(), nm),
                         '%s:%d' % (c.module.relpath, n.lineno))
        e.partial = r
        raise e
    return r


def run(prog, tier, seed):
    adj = adjacency_field(prog)
    T = Attempts()
    r0 = T(rule_g0, prog, adj)
    r1, r2 = T(rule_g12, prog, adj, _n=2)
    if r1 is not None:
        T(rule_g1_scc, prog, r1)
    r3 = T(rule_g3, prog, adj)
    r5 = T(rule_g5, prog, adj)
    expl = ('DiGraph is analysed at the level of its adjacency dictionary '
            '(field discovered from nodes()). R-G-0: accessors, constructor '
            '(unrolled symbolic instances with |V|,|E| <= 2) and mutators '
            'are interpreted abstractly and compared with the adjacency '
            'model. R-G-1: effect/alias analysis of the five operations '
            '(complete: no write to anything reachable from self/argument, '
            'no mutable object of them in the result). R-G-2: the set-'
            'builder summaries of subgraph/reversed/clone equal the '
            'specification on every digraph with <= 3 nodes and every node '
            'subset. R-G-3: the five worklist-closure conditions of '
            'reachability (each necessary). Not decided: SCC correctness '
            '(C12).')
    assumptions = ['Python dict/set semantics', 'summaries compared on all '
                   'digraphs with <= 3 nodes (bounded)',
                   'worklist conditions are necessary and, together, '
                   'sufficient for "X plus everything reachable"; they are '
                   'recognised on the interpreter\'s loop summary']
    # "for every directed graph G": nodes are arbitrary hashable objects;
    # an ordering comparison / sort of nodes inside graph.py fails (TypeError)
    # on graphs whose nodes are not mutually comparable
    from ..report import adopt

    def _opaque_nodes(prog):
        from . import c06
        r = c06.rule_opq1(prog)
        r.findings = [f for f in r.findings
                      if f.where.startswith(prog.module('graph').relpath)]
        return r
    dep = adopt(T.results(T(_opaque_nodes, prog)), PROP,
                'graph.py treats nodes as opaque hashable values')
    # clone() of the subclass: a Kripke structure is a DiGraph too, its
    # clone must be as independent as DiGraph.clone is

    def _kripke_clone(prog):
        from . import c14
        r = c14.rule_k4(prog, adj)
        r.findings = [f for f in r.findings if 'clone' in f.key]
        return r
    dep = dep + adopt(T.results(T(_kripke_clone, prog)), PROP,
                      'clone() of the Kripke subclass')
    return T.results(r0, r1, r2, r3, r5) + dep, expl, assumptions, \
        T.extra({'adjacency_field': adj})
