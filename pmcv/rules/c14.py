"""C14 -- Kripke structures are total, fully labelled, copied faithfully.

R-K-1 constructor: succeeds exactly on total relations, labels every state,
      S0 is a subset of the states (evaluated summary of __init__)
R-K-3 labels(s) / next(s) of a non-state raise RuntimeError
R-K-4 clone / get_substructure: provenance of the four constructor arguments
      and no shared label set
"""
import itertools

from ..program import AnalysisError, Inconclusive, ClassInfo, ExtClass
from ..values import (ERef, Const, Sym, CRef, FRef, Bound, BoundB, Obj, Tup, App,
                      New, Raise, Coll, Part, walk)
from ..interp import Interp, Hooks
from ..galg import (ctor_params, GraphHooks, Evaluator, deep_snapshot, all_graphs,
                    all_subsets, NotEvaluable, GraphError, CG, _freeze,
                    g_subgraph)
from ..fields import labels_field, s0_field
from ..report import Finding, RuleResult, floor, Attempts
from .c13 import adjacency_field, root_of, _aliases

PROP = 'C14'


class KS(object):
    """concrete Kripke structure value"""

    def __init__(self, g, S0, labels):
        self.g = g
        self.S0 = frozenset(S0)
        self.labels = {k: frozenset(v) for k, v in labels.items()}

    def key(self):
        return (self.g.key(), self.S0, _freeze(self.labels))

    def __eq__(self, o):
        return isinstance(o, KS) and o.key() == self.key()

    def __hash__(self):
        return hash(self.key())

    def __repr__(self):
        return 'Kripke(%r, S0=%s, L=%s)' % (
            self.g, sorted(self.S0, key=repr),
            {k: sorted(v, key=repr) for k, v in sorted(
                self.labels.items(), key=repr)})


def build_kripke(S, S0, R, L):
    """the documented constructor: nodes = S + endpoints of R; RuntimeError
    unless every state has a successor; S0 restricted to the states; every
    state labelled (empty if unspecified)"""
    succ = {}
    for n in (S or ()):
        succ.setdefault(n, set())
    for (s, d) in (R or ()):
        succ.setdefault(s, set()).add(d)
        succ.setdefault(d, set())
    for n in succ:
        if not succ[n]:
            raise GraphError('RuntimeError: state %r has no successor' % (n,))
    if L is None:
        L = {}
    if not isinstance(L, dict):
        raise GraphError('RuntimeError: L is not a dict')
    g = CG(succ.keys(), succ)
    s0 = frozenset(succ) & frozenset(S0 or ())
    labels = {n: frozenset(L[n]) if n in L else frozenset() for n in succ}
    return KS(g, s0, labels)


class KEval(Evaluator):
    def op_isinstance(self, v, c):
        val = self.ev(v)
        name = c.ci.name
        py = {'dict': dict, 'set': (set, frozenset), 'list': (list, tuple),
              'str': str, 'bool': bool, 'int': int}.get(name)
        if py is None:
            raise NotEvaluable('isinstance %s' % name)
        return isinstance(val, py)

    def op_inst(self, cref, oid, fields):
        g = Evaluator.op_inst(self, cref, oid, fields)
        d = {kv.items[0].v: kv.items[1] for kv in fields.items}
        ci = getattr(cref, 'ci', None)
        if LABELS[0] in d and S0F[0] in d and isinstance(g, CG):
            # an instance assembled field by field (object.__new__ + stores)
            lab = self.ev(d[LABELS[0]])
            s0 = self.ev(d[S0F[0]])
            if not isinstance(lab, dict):
                raise NotEvaluable('labels field is %r' % (lab,))
            return KS(g, frozenset(s0), {k: frozenset(v)
                                         for k, v in lab.items()})
        return g

    def op_mkkripke4(self, S, S0, R, L):
        vals = [self.ev(x) for x in (S, S0, R, L)]
        if isinstance(vals[0], CG):
            vals[0] = vals[0].nodes
        return build_kripke(*vals)

    def op_nodes(self, g):
        x = self.ev(g)
        return (x.g if isinstance(x, KS) else x).nodes

    def op_edges(self, g):
        x = self.ev(g)
        return (x.g if isinstance(x, KS) else x).edges()

    def op_sources(self, g):
        x = self.ev(g)
        x = x.g if isinstance(x, KS) else x
        return frozenset(n for n in x.nodes if x.succ[n])

    def op_next(self, g, v):
        x = self.ev(g)
        x = x.g if isinstance(x, KS) else x
        v = self.ev(v)
        if v not in x.nodes:
            raise GraphError('next of a non-node %r' % (v,))
        return x.succ[v]


class _KHooks(GraphHooks):
    """DiGraph-level methods are primitives (verified by C13); Kripke-level
    methods are interpreted; Kripke(...) calls are the constructor primitive"""

    def __init__(self, prog, interpret_init=False):
        self.graph_init(prog)
        self.interpret_init = interpret_init

    def call(self, I, fv, args, kw, path, node):
        if isinstance(fv, Bound):
            owner = fv.f.fi.owner
            name = fv.f.fi.name
            if owner is self.digraph and name == '__init__':
                # super().__init__(S, R): self becomes the graph of (S, R)
                o = fv.recv
                if isinstance(o, Obj):
                    h = path.heap[o.oid]
                    a = [I.snapshot(x, path) for x in args] + \
                        [Const(None), Const(None)]
                    kwd = dict(kw)
                    if 'V' in kwd:
                        a[0] = I.snapshot(kwd['V'], path)
                    if 'E' in kwd:
                        a[1] = I.snapshot(kwd['E'], path)
                    h.fields['$base'] = App('mkgraph', a[0], a[1])
                    h.fields['$edges'] = path.alloc('set')
                    h.fields['$nodes'] = path.alloc('set')
                    h.fields['$sedges'] = path.alloc('list')
                    return [(path, Const(None))]
            if owner is self.digraph and name == 'next' and len(args) == 1:
                # explicit precondition: RuntimeError on a non-node
                sg = self.snap_graph(I, fv.recv, path)
                c = App('in', args[0], App('nodes', sg))
                q = path.fork()
                I.assume(c, True, path)
                I.assume(c, False, q)
                return [(path, App('next', sg, args[0])),
                        (q, Raise(New(ExtClass('RuntimeError'),
                                      (Const('not a node'),)), node))]
            if owner is self.digraph:
                return self.graph_call(I, fv, args, kw, path, node)
        return None

    def construct(self, I, ci, args, kw, path, node):
        if isinstance(ci, ClassInfo) and ci.is_subclass_of(self.kripke):
            names = ctor_params(self.gprog, self.kripke, ['S', 'S0', 'R', 'L'])
            kwd = dict(kw)
            vals = []
            for i, n in enumerate(names):
                v = args[i] if i < len(args) else kwd.get(n, Const(None))
                vals.append(v)
            return [(path, App('mkkripke4', *vals))]
        return self.graph_construct(I, ci, args, kw, path, node)


LABELS = ['_labels']      # set from fields.labels_field
S0F = ['S0']              # set from fields.s0_field


def kripke_env(K, adj, ks, extra=None):
    env = {K: ks,
           App('attr', K, Const(adj)): {n: ks.g.succ[n] for n in ks.g.nodes},
           App('attr', K, Const(LABELS[0])): dict(ks.labels),
           App('attr', K, Const(S0F[0])): ks.S0,
           '$adjfield': adj}
    if extra:
        env.update(extra)
    return env


def pc_holds(p, env, I):
    e = KEval(env)
    for (c, pol) in p.pc:
        if e.is_marker(c):
            return False
        c = deep_snapshot(I, c, p)
        if bool(e.ev(c)) != pol:
            return False
    return True


def small_structures():
    """a family of total Kripke structures with labels, <= 3 states"""
    out = []
    for n in range(1, 4):
        for g in all_graphs(n, total=True):
            if n == 3 and len(g.edges()) > 5:
                continue
            for lab in (0, 1):
                labels = {s: frozenset(['p'] if (s + lab) % 2 == 0 else
                                       ['q', 'r'][:s]) for s in range(n)}
                for S0 in (frozenset(), frozenset([0])):
                    out.append(KS(g, S0, labels))
    return out


# ---------------------------------------------------------------------------

def rule_k1(prog, adj):
    LABELS[0] = labels_field(prog)
    S0F[0] = s0_field(prog)
    r = RuleResult('R-K-1', 'Kripke.__init__: total <=> succeeds, every '
                   'state labelled, S0 within the states')
    kc = prog.cls('kripke.Kripke')
    init = prog.method(kc, '__init__')
    hooks = _KHooks(prog)
    I = Interp(prog, hooks, rule='R-K-1')
    path = I.new_path()
    o = path.alloc('inst')
    path.heap[o.oid].ci = kc
    S, S0, R = Sym('S'), Sym('S0'), Sym('R')
    L = Sym('L')
    res = I.call_function(FRef(init), [o, S, S0, R, L], [], path, init.node)
    res = [(p, v) for (p, v) in res]
    # the new structure must not share a mutable object with its arguments
    # (clone / get_substructure rely on the constructor copying label sets)
    for (p, v) in res:
        if isinstance(v, Raise):
            continue
        al = _aliases(I, deep_snapshot(I, o, p), p, (S, S0, R, L),
                      items_of=(L,))
        if al:
            r.fail(Finding(
                PROP, 'R-K-1', init.where(), init.short(), 'ctor-alias',
                'the constructed structure stores the caller\'s mutable '
                'object %r without copying it: label sets are shared with '
                'the argument (and, through clone/get_substructure, with '
                'the original structure)' % (al[0],)))
            break
    else:
        r.ok()
    # every state has a label set *of its own*: one mutable object stored
    # for many keys (dict.fromkeys(states, set()), a default hoisted out of
    # the loop) makes an atom added for one state appear on all of them
    for (p, v) in res:
        if isinstance(v, Raise):
            continue
        lab = p.heap[o.oid].fields.get(LABELS[0])
        if not isinstance(lab, Obj) or p.heap[lab.oid].kind != 'dict':
            continue
        hd = p.heap[lab.oid]
        shared = None
        seen_vals = {}
        for pt in hd.parts:
            if not isinstance(pt.val, Obj) or \
                    p.heap[pt.val.oid].kind not in ('set', 'list', 'dict'):
                continue
            hv = p.heap[pt.val.oid]
            if pt.gens and hv.loops_len - hd.loops_len < len(pt.gens):
                shared = pt
            if pt.val.oid in seen_vals and seen_vals[pt.val.oid] != pt.key:
                shared = pt
            seen_vals[pt.val.oid] = pt.key
        if shared is not None:
            r.fail(Finding(
                PROP, 'R-K-1', init.where(), init.short(),
                'shared-label-set',
                'the constructor stores one and the same set object as the '
                'label set of several states (allocated once, outside the '
                'iteration over the states): labelling one state -- '
                'label_fair_states, the CTL* eliminator -- labels all of '
                'them'))
            break
    else:
        r.ok()
    # argument space
    nodes = [0, 1, 2]
    edge_sets = []
    pairs = [(a, b) for a in nodes for b in nodes]
    for k in range(0, 4):
        for c in itertools.combinations(pairs, k):
            edge_sets.append(list(c))
    S_opts = [None, [], [0], [0, 1], [2, 0]]
    S0_opts = [None, [0], [1, 7]]
    L_opts = [None, {}, {0: ['p'], 1: [], 5: ['z']}, {1: ['q', 'p']}]
    nm = 0
    bad = None
    try:
        for Rv in edge_sets:
            for Sv in S_opts:
                for S0v in S0_opts:
                    for Lv in L_opts:
                        nm += 1
                        env = {S: Sv, S0: S0v, R: Rv, L: Lv,
                               '$adjfield': adj}
                        try:
                            want = build_kripke(Sv, S0v, Rv, Lv)
                        except GraphError as e:
                            want = 'RuntimeError'
                        got = None
                        for (p, v) in res:
                            try:
                                if not pc_holds(p, env, I):
                                    continue
                            except GraphError:
                                continue
                            if isinstance(v, Raise):
                                c = I.exc_class(v.exc)
                                got = c.name if c else 'raise'
                            else:
                                got = _eval_kripke_obj(I, o, p, env)
                            break
                        if got != want and bad is None:
                            bad = (Sv, S0v, Rv, Lv, got, want)
    except NotEvaluable as e:
        u = Inconclusive('R-K-1', 'Kripke.__init__ not evaluable: %s' % e,
                         init.where())
        u.partial = r        # what was established before (aliasing)
        raise u
    r.inst(method=init.short(), argument_tuples=nm, paths=len(res))
    if bad:
        r.fail(Finding(
            PROP, 'R-K-1', init.where(), init.short(), 'init',
            'Kripke(S=%r, S0=%r, R=%r, L=%r) gives %r, expected %r' % bad,
            expected=repr(bad[5]), found=repr(bad[4])))
    else:
        r.ok()
    return r


def _eval_kripke_obj(I, o, p, env):
    snap = deep_snapshot(I, o, p)
    d = {kv.items[0].v: kv.items[1] for kv in snap.args[2].items}
    e = KEval(env)
    try:
        g = e.op_graph(d['$base'], d['$edges'], d['$nodes'],
                       d.get('$sedges'))
        S0 = e.ev(d[S0F[0]]) if S0F[0] in d else 'missing'
        labels = e.ev(d[LABELS[0]]) if LABELS[0] in d else 'missing'
        if not isinstance(labels, dict) or S0 == 'missing':
            return 'object without S0 / labelling field'
        return KS(g, S0, labels)
    except GraphError as ex:
        return 'ill-formed: %s' % ex


# ---------------------------------------------------------------------------

def _s2(x):
    return sorted(x, key=repr) if isinstance(x, (set, frozenset)) else x


def rule_k3(prog, adj):
    LABELS[0] = labels_field(prog)
    S0F[0] = s0_field(prog)
    r = RuleResult('R-K-3', 'labels(s) / next(s) of a non-state raise '
                   'RuntimeError; of a state return its label / successor '
                   'set')
    kc = prog.cls('kripke.Kripke')
    K = Sym('K', ('inst', kc))
    structs = small_structures()[:60]

    def rename(ks, a, b):
        m = lambda x: b if x == a else x
        g = CG([m(n) for n in ks.g.nodes],
               {m(n): set(m(x) for x in ks.g.succ[n]) for n in ks.g.nodes})
        return KS(g, frozenset(m(x) for x in ks.S0),
                  {m(n): l for n, l in ks.labels.items()})
    # any hashable object can be a state -- None too
    structs = structs + [rename(ks, 0, None) for ks in structs[:24]]
    for name in ('labels', 'next'):
        f = prog.method(kc, name)
        hooks = _KHooks(prog)
        I = Interp(prog, hooks, rule='R-K-3')
        path = I.new_path()
        s = Sym('s')
        res = I.call_function(FRef(f), [K, s], [], path, f.node)
        bad = None
        bad_none = None
        nm = 0
        try:
            for ks in structs:
                for sv in list(ks.g.nodes) + [99]:
                    nm += 1
                    env = kripke_env(K, adj, ks, {s: sv})
                    if sv in ks.g.nodes:
                        want = ks.labels[sv] if name == 'labels' \
                            else ks.g.succ[sv]
                    else:
                        want = 'RuntimeError'
                    got = None
                    for (p, v) in res:
                        if not pc_holds(p, env, I):
                            continue
                        if isinstance(v, Raise):
                            c = I.exc_class(v.exc)
                            got = c.name if c else 'raise'
                        else:
                            try:
                                got = _freeze(KEval(env).ev(
                                    deep_snapshot(I, v, p)))
                            except GraphError as e:
                                got = 'internal error: %s' % e
                        break
                    if got != want and sv is None and bad_none is None:
                        bad_none = (ks, sv, got, want)
                    elif got != want and sv is not None and bad is None:
                        bad = (ks, sv, got, want)
        except NotEvaluable as e:
            raise Inconclusive('R-K-3', 'Kripke.%s not evaluable: %s' % (
                name, e), f.where())
        # labels() of the whole structure (no state given): the union of
        # all label sets -- also for the structure without any state
        bad_all = None
        if name == 'labels':
            empty = KS(CG([], {}), frozenset(), {})
            try:
                for ks in [empty] + structs[:40]:
                    if None in ks.g.nodes:
                        continue
                    env = kripke_env(K, adj, ks, {s: None})
                    nm += 1
                    want = frozenset(x for l in ks.labels.values() for x in l)
                    got = None
                    for (p, v) in res:
                        try:
                            if not pc_holds(p, env, I):
                                continue
                        except GraphError:
                            continue
                        if isinstance(v, Raise):
                            c = I.exc_class(v.exc)
                            got = c.name if c else 'raise'
                        else:
                            try:
                                got = _freeze(KEval(env).ev(
                                    deep_snapshot(I, v, p)))
                            except GraphError as e:
                                got = 'internal error: %s' % e
                        break
                    if got != want and bad_all is None:
                        bad_all = (ks, got, want)
            except NotEvaluable as e:
                raise Inconclusive('R-K-3', 'Kripke.labels() not evaluable: '
                                   '%s' % e, f.where())
            if bad_all:
                ks, got, want = bad_all
                r.fail(Finding(
                    PROP, 'R-K-3', f.where(), f.short(),
                    'accessor:labels:all',
                    'Kripke.labels() on %r gives %r, expected the union of '
                    'all label sets %r%s' % (
                        ks, _s2(got), _s2(want),
                        ' (the structure without states is a legal, '
                        'vacuously total structure; the CTL* checker and '
                        'every fair query call labels())'
                        if not ks.g.nodes else ''),
                    expected=repr(_s2(want)), found=repr(_s2(got))))
            else:
                r.ok()
        # a state added after construction (add_node / add_edge of the
        # graph layer): it is a node, it has successors, but no label entry
        bad_late = None
        if name == 'next':
            try:
                for ks in structs[:40]:
                    if len(ks.g.nodes) < 2 or None in ks.g.nodes:
                        continue
                    late = sorted(ks.g.nodes)[-1]
                    env = kripke_env(K, adj, ks, {s: late})
                    lab = dict(ks.labels)
                    del lab[late]
                    env[App('attr', K, Const(LABELS[0]))] = lab
                    nm += 1
                    got = None
                    for (p, v) in res:
                        if not pc_holds(p, env, I):
                            continue
                        if isinstance(v, Raise):
                            c = I.exc_class(v.exc)
                            got = c.name if c else 'raise'
                        else:
                            try:
                                got = _freeze(KEval(env).ev(
                                    deep_snapshot(I, v, p)))
                            except GraphError as e:
                                got = 'internal error: %s' % e
                        break
                    want = ks.g.succ[late]
                    if got != want and bad_late is None:
                        bad_late = (ks, late, got, want)
            except NotEvaluable as e:
                raise Inconclusive('R-K-3', 'Kripke.next not evaluable: %s' %
                                   e, f.where())
            if bad_late:
                ks, sv, got, want = bad_late
                r.fail(Finding(
                    PROP, 'R-K-3', f.where(), f.short(),
                    'accessor:next:late-state',
                    'Kripke.next(%r) on %r, where %r has been added after '
                    'construction (it is a node of the graph, it has no '
                    'label entry), gives %r, expected %r: whether a value '
                    'is a state is decided by the adjacency, not by the '
                    'labelling' % (sv, ks, sv, _s2(got), _s2(want)),
                    expected=repr(_s2(want)), found=repr(_s2(got))))
            else:
                r.ok()
        r.inst(method=f.short(), models=nm, paths=len(res))
        if bad_none:
            ks, sv, got, want = bad_none
            r.fail(Finding(
                PROP, 'R-K-3', f.where(), f.short(),
                'accessor:%s:state-None' % name,
                'Kripke.%s(None) on %r, where None is a state, gives %r, '
                'expected %r: the value None is taken for "no state given"'
                % (name, ks, _s2(got), _s2(want)),
                expected=repr(_s2(want)), found=repr(_s2(got))))
        else:
            r.ok()
        if bad:
            r.fail(Finding(
                PROP, 'R-K-3', f.where(), f.short(), 'accessor:' + name,
                'Kripke.%s(%r) on %r gives %r, expected %r' % (
                    name, bad[1], bad[0], bad[2], bad[3]),
                expected=repr(bad[3]), found=repr(bad[2])))
        else:
            r.ok()
    return r


# ---------------------------------------------------------------------------

def spec_substructure(ks, V):
    V = frozenset(V)
    g = g_subgraph(ks.g, V)
    for n in g.nodes:
        if not g.succ[n]:
            return 'RuntimeError'
    return KS(g, ks.S0 & V, {n: ks.labels[n] for n in g.nodes})


def rule_k4(prog, adj):
    LABELS[0] = labels_field(prog)
    S0F[0] = s0_field(prog)
    r = RuleResult('R-K-4', 'clone / get_substructure: arguments of the new '
                   'structure originate from states, S0, induced '
                   'transitions and labels; no label set is shared')
    kc = prog.cls('kripke.Kripke')
    K = Sym('K', ('inst', kc))
    V = Sym('V', ('b', 'set'))
    structs = small_structures()
    ops = {'clone': ([], lambda ks, v: ks),
           'get_substructure': ([V], spec_substructure)}
    for name, (args, spec) in sorted(ops.items()):
        f = prog.method(kc, name)
        if f is None:
            raise AnalysisError('Kripke.%s not found' % name)
        hooks = _KHooks(prog)
        I = Interp(prog, hooks, rule='R-K-4')
        path = I.new_path()
        res = I.call_function(FRef(f), [K] + args, [], path, f.node)
        res = [(p, v) for (p, v) in res
               if not (isinstance(v, Raise) and v.implicit)]
        rets = [(p, v) for (p, v) in res if not isinstance(v, Raise)]
        if len(rets) != 1:
            raise Inconclusive('R-K-4', '%d returning paths in %s' % (
                len(rets), name), f.where())
        p, v = rets[0]
        snap = deep_snapshot(I, v, p)
        if isinstance(v, App) and v.op == 'call' and \
                isinstance(v.args[0], ERef) and \
                v.args[0].name in ('copy.deepcopy', 'copy.copy') and \
                list(v.args[1].items) == [K]:
            deep = v.args[0].name.endswith('deepcopy')
            r.fail(Finding(
                PROP, 'R-K-4', f.where(), f.short(), 'copy-module:' + name,
                'Kripke.%s is %s(self): %s' % (
                    name, v.args[0].name,
                    'the states (arbitrary hashable objects) are copied '
                    'too, so the states of the result are not the states '
                    'of the structure -- what is computed on a clone is not '
                    'a set of states of K' if deep else
                    'a shallow copy shares the adjacency and label sets '
                    'with the original')))
            continue
        # writes to the original
        muts = [e for e in p.log if e.kind in ('mutate', 'setattr',
                                               'setitem', 'delete')
                and root_of(e.target) in (K, V)]
        if muts:
            r.fail(Finding(PROP, 'R-K-4', I.where(muts[0].node, f.module),
                           f.short(), 'write:' + name,
                           'Kripke.%s modifies the original: %s on %r' % (
                               name, muts[0].name, muts[0].target)))
        else:
            r.ok()
        # aliasing: label sets handed to the constructor are copied by it
        # (R-K-1); anything else that is a mutable object of K is an alias
        al = []
        if isinstance(snap, App) and snap.op == 'mkkripke4':
            pass        # the constructor copies S, S0, R and every L[state]
        else:
            al = _aliases(I, snap, p, (K, V), top=True)
        if al:
            r.fail(Finding(PROP, 'R-K-4', f.where(), f.short(),
                           'alias:' + name, 'the result of Kripke.%s '
                           'shares %r with the original' % (name, al[0])))
        else:
            r.ok()
        bad = None
        nm = 0
        try:
            for ks in structs:
                vs = [None] if not args else \
                    [frozenset(s) for s in all_subsets(len(ks.g.nodes) + 1)]
                for vv in vs:
                    nm += 1
                    env = kripke_env(K, adj, ks, {V: vv})
                    want = spec(ks, vv)
                    try:
                        got = KEval(env).ev(snap)
                    except GraphError as e:
                        got = 'RuntimeError' if 'RuntimeError' in str(e) \
                            else 'internal error: %s' % e
                    if got != want and bad is None:
                        bad = (ks, vv, got, want)
        except NotEvaluable as e:
            raise Inconclusive('R-K-4', 'summary of Kripke.%s not '
                               'evaluable: %s' % (name, e), f.where())
        r.inst(method=f.short(), summary=repr(snap)[:500], models=nm)
        if bad:
            ks, vv, got, want = bad
            r.fail(Finding(
                PROP, 'R-K-4', f.where(), f.short(), 'summary:' + name,
                'Kripke.%s%s on %r yields %r, expected %r' % (
                    name, '(%s)' % sorted(vv) if vv is not None else '()',
                    ks, got, want), expected=repr(want), found=repr(got),
                extra={'summary': repr(snap)[:800]}))
        else:
            r.ok()
    return r


def run(prog, tier, seed):
    LABELS[0] = labels_field(prog)
    S0F[0] = s0_field(prog)
    adj = adjacency_field(prog)
    T = Attempts()
    results = T.results(T(rule_k1, prog, adj), T(rule_k3, prog, adj),
                        T(rule_k4, prog, adj))
    # the constructor stores states and transitions through DiGraph and
    # decides totality from nodes() / sources(): they must be exact
    from ..report import adopt
    from . import c13
    results = results + adopt(T.results(T(c13.rule_g0, prog, adj)), PROP,
                              'the graph layer the totality test reads')
    expl = ('Kripke is interpreted abstractly on top of the DiGraph '
            'primitives verified under C13. R-K-1: the constructor is '
            'summarised (paths with their conditions, resulting fields) and '
            'compared with the documented constructor on ~7000 argument '
            'tuples (relations with <= 3 edges over 3 nodes, S/S0/L '
            'variants incl. non-total relations, labels for non-states, S0 '
            'outside S): succeeds exactly when total, every state labelled, '
            'S0 restricted. R-K-3: labels/next raise RuntimeError on a '
            'non-state. R-K-4: clone/get_substructure are summarised as '
            'constructor calls whose four arguments are compared with the '
            'specification on a family of labelled structures and all node '
            'subsets; effect and alias analysis for the originals.')
    assumptions = ['DiGraph primitives as verified by C13',
                   'bounded comparison (<= 3 states)',
                   'the constructor copies every label set it is given '
                   '(decided by R-K-1 through set(L[state]))']
    return results, expl, assumptions, T.extra()
