"""C10 -- parsers reject text outside their language with a positioned
ParserError (partial).

R-GR-1 slot agreement (operator tokens <-> class built by the callback)
R-GR-2 callback completeness
R-GR-3 sort typing of every grammar: no derivation hands an ill-sorted
       operand (or a wrong number of operands) to a constructor
R-GR-4 binding parser <-> language <-> modelcheck
R-GR-5 translation of lark's exceptions in Parser.__call__
"""
import ast

from ..program import AnalysisError, Inconclusive, ClassInfo, ExtClass
from ..values import (Const, Sym, CRef, FRef, MRef, ERef, Bound, Obj, Tup,
                      App, New, Raise)
from ..interp import Interp, Hooks
from ..formulas import signatures, LANGS
from ..report import Finding, RuleResult, floor, Attempts
from . import c09

PROP = 'C10'


def rule_gr3(prog, G):
    r = RuleResult('R-GR-3', 'sort typing: every aliased production hands '
                   'its constructor only operands it accepts')
    sigs = signatures(prog)
    for lang, g in G.items():
        acc = c09.acceptance(prog, lang)
        roots = {n: set() for n in g.nonterminals()}
        lens = {n: set() for n in g.nonterminals()}   # helper: list lengths

        def prod_roots(ru):
            """-> (set of roots of the value, list of child root-sets)"""
            kids = []
            for (s, t, f) in ru.rhs:
                if t:
                    if not f:
                        kids.append({'<token>'})
                    continue
                if s.startswith('_'):
                    kids.append(('splice', set(roots[s])))
                else:
                    kids.append(set(roots[s]))
            return kids

        changed = True
        while changed:
            changed = False
            for ru in g.rules:
                kids = prod_roots(ru)
                flat = []
                for k in kids:
                    if isinstance(k, tuple):
                        flat.append(k[1])
                    else:
                        flat.append(k)
                if ru.helper():
                    new = set()
                    for k in flat:
                        new |= k
                else:
                    name = ru.alias or ru.origin
                    cb = g.callbacks.get(name, ('missing',))
                    if cb[0] == 'pass':
                        new = set(flat[cb[1]]) if cb[1] < len(flat) else set()
                    elif cb[0] in ('construct', 'construct-other'):
                        new = {cb[1].name}
                    elif cb[0] == 'function' and cb[1].name == 'LNot':
                        # LNot(x) is Not(x) or an operand of a negation
                        # below x: same sort as a negation
                        new = {'Not'}
                        for k in flat:
                            new |= set(k)
                    elif cb[0] == 'function':
                        new = {'<via %s>' % cb[1].name}
                    elif cb[0] == 'const':
                        new = {cb[1].name}
                    elif cb[0] == 'atom':
                        new = {cb[1].name}
                    else:
                        new = {'<tree>'}
                if not new <= roots[ru.origin]:
                    roots[ru.origin] |= new
                    changed = True
        # obligations
        for ru in g.rules:
            name = ru.alias or ru.origin
            cb = g.callbacks.get(name, ('missing',))
            if not ru.helper() and cb[0] == 'function':
                r.inst(lang=lang, production=repr(ru),
                       builds='via function %s (sort typing not applied)' %
                       cb[1].short(), nontrivial=False)
                r.notes.append('%s: %s builds through %s' % (lang, ru,
                                                            cb[1].short()))
                continue
            if ru.helper() or cb[0] not in ('construct', 'construct-other'):
                continue
            cname = cb[1].name
            kids = prod_roots(ru)
            allowed = acc.get(cname)
            sig = sigs[lang].get(cname)
            bad = set()
            nmin = 0
            unbounded = False
            kids = [(k[0], set(x for x in k[1] if not x.startswith('<via ')))
                    if isinstance(k, tuple) else
                    set(x for x in k if not x.startswith('<via '))
                    for k in kids]
            for k in kids:
                if isinstance(k, tuple):
                    bad |= (k[1] - allowed) if allowed is not None else set()
                    nmin += 1
                    unbounded = True
                else:
                    bad |= (k - allowed) if allowed is not None else set()
                    nmin += 1
            r.inst(lang=lang, production=repr(ru), builds=cb[1].short(),
                   operand_roots=[sorted(k[1]) if isinstance(k, tuple)
                                  else sorted(k) for k in kids],
                   accepted=sorted(allowed or []))
            if allowed is None or cb[1].module.name != \
                    prog.module(LANGS[lang]).name:
                r.fail(Finding(
                    PROP, 'R-GR-3', g.parser_cls.module.relpath + ':1',
                    g.parser_cls.short(), 'foreign-class:%s:%s' % (lang,
                                                                   name),
                    'production  %s  of the %s grammar builds %s, which is '
                    'not an operator of %s' % (ru, lang, cb[1].short(),
                                               lang)))
                continue
            if bad:
                r.fail(Finding(
                    PROP, 'R-GR-3', g.parser_cls.module.relpath + ':1',
                    g.parser_cls.short(),
                    'ill-sorted:%s:%s:%s' % (lang, ru, ','.join(sorted(bad))),
                    'the %s grammar lets  %s  hand a %s-rooted operand to '
                    '%s.%s, which accepts only %s: such text is either '
                    'accepted outside the documented %s syntax or makes the '
                    'constructor raise a foreign exception inside the '
                    'parser' % (lang, ru, sorted(bad), lang, cname,
                                sorted(allowed), lang),
                    expected=sorted(allowed), found=sorted(bad)))
            else:
                r.ok()
            doc_n = c09_arity(cname)
            if doc_n is not None and (unbounded or nmin != doc_n):
                r.fail(Finding(
                    PROP, 'R-GR-3', g.parser_cls.module.relpath + ':1',
                    g.parser_cls.short(), 'doc-arity:%s:%s' % (lang, ru),
                    'production  %s  gives %s%d operand(s) to %s.%s, which '
                    'the documented syntax defines with exactly %d: the '
                    'parser accepts text outside the documented grammar '
                    '(e.g. "p %s q %s r")' % (
                        ru, '>=' if unbounded else '', nmin, lang, cname,
                        doc_n, cname, cname)))
            elif sig is not None and sig.max_arity is not None and \
                    (unbounded or nmin > sig.max_arity or
                     nmin < sig.min_arity):
                r.fail(Finding(
                    PROP, 'R-GR-3', g.parser_cls.module.relpath + ':1',
                    g.parser_cls.short(), 'arity:%s:%s' % (lang, ru),
                    'production  %s  passes %s%d operand(s) to %s.%s, which '
                    'takes %d..%d: TypeError escapes from the parser' % (
                        ru, '>=' if unbounded else '', nmin, lang, cname,
                        sig.min_arity, sig.max_arity)))
            else:
                r.ok()
        # the start symbol yields formulas of the language only
        al = set(prog.alphabet(LANGS[lang]))
        extra = set(x for x in roots[g.start] - al
                    if not x.startswith('<via '))
        r.inst(lang=lang, start=g.start, start_roots=sorted(roots[g.start]))
        if extra or not roots[g.start]:
            r.fail(Finding(
                PROP, 'R-GR-3', g.parser_cls.module.relpath + ':1',
                g.parser_cls.short(), 'start-roots:%s:%s' % (
                    lang, ','.join(sorted(extra))),
                'the %s parser can return something that is not a %s '
                'formula: %s' % (lang, lang, sorted(extra) or 'nothing')))
        else:
            r.ok()
    floor('R-GR-3', 'typed productions', len(r.instances), 40)
    return r


def c09_arity(cname):
    from .c08 import DOC_ARITY
    if cname in ('Or', 'And'):
        return None             # n-ary by the parsers' own documentation
    return DOC_ARITY.get(cname)


def rule_gr4(prog, G):
    r = RuleResult('R-GR-4', 'each parser defaults to its own logic, builds '
                   'through it, and each modelcheck defaults to its own '
                   'parser')
    for lang, g in G.items():
        want = prog.module(lang).name
        r.inst(lang=lang, parser=g.parser_cls.short(),
               default_language=g.language, transformer=g.transformer.short())
        if g.language != want:
            r.fail(Finding(
                PROP, 'R-GR-4', g.parser_cls.module.relpath + ':1',
                g.parser_cls.short(), 'default-language:%s:%s' % (
                    lang, g.language),
                'the %s parser builds formulas of %s by default' % (
                    lang, g.language), expected=want, found=g.language))
        else:
            r.ok()
        lm = prog.module(LANGS[lang]).name
        for name, cb in sorted(g.callbacks.items()):
            if cb[0] in ('construct', 'const', 'atom', 'construct-other'):
                if cb[1].module.name != lm:
                    r.fail(Finding(
                        PROP, 'R-GR-4', cb[-1].where(), cb[-1].short(),
                        'callback-language:%s:%s' % (lang, name),
                        'callback `%s` of the %s parser builds %s, a class '
                        'of another logic' % (name, lang, cb[1].short())))
                else:
                    r.ok()
    for lang in ('CTL', 'LTL', 'CTLS'):
        f = prog.func('%s.model_checking.modelcheck' % lang)
        ns = prog.namespace(f.module)
        pb = ns.get('Parser')
        ok = isinstance(pb, ClassInfo) and pb is G[lang].parser_cls
        # the default parser is constructed by modelcheck or by a helper
        # of its module it calls (closure over same-module callees)
        seen, todo, calls = set(), [f], []
        while todo:
            g = todo.pop()
            if g.qn in seen:
                continue
            seen.add(g.qn)
            for n in ast.walk(g.node):
                if isinstance(n, ast.Call) and isinstance(n.func, ast.Name):
                    if n.func.id == 'Parser':
                        calls.append(n)
                    elif n.func.id in f.module.funcs:
                        todo.append(f.module.funcs[n.func.id])
        r.inst(entry=f.short(), default_parser=pb.short() if isinstance(
            pb, ClassInfo) else repr(pb), constructs_it=bool(calls))
        if ok and calls:
            r.ok()
        else:
            r.fail(Finding(
                PROP, 'R-GR-4', f.where(), f.short(),
                'default-parser:%s' % lang,
                '%s.modelcheck parses text with %s instead of the %s '
                'parser' % (lang, pb.short() if isinstance(pb, ClassInfo)
                            else pb, lang)))
    return r


class _CallHooks(Hooks):
    def inline(self, I, fi, args):
        return fi.name == '__call__' or fi.name == '__init__'


def rule_gr5(prog):
    r = RuleResult('R-GR-5', 'Parser.__call__ turns exactly lark\'s '
                   'UnexpectedToken / UnexpectedCharacters into the '
                   'package\'s positioned errors and raises nothing else')
    pc = prog.cls('parser.Parser')
    f = prog.method(pc, '__call__')
    if f is None:
        raise AnalysisError('parser.Parser.__call__ not found')
    perr = prog.cls('parser.ParserError')
    I = Interp(prog, Hooks(), rule='R-GR-5')
    path = I.new_path()
    self_v = Sym('self', ('inst', pc))
    s = Sym('string', ('b', 'str'))
    res = I.call_function(FRef(f), [self_v, s], [], path, f.node)
    handled = set()
    nret = 0
    for (p, v) in res:
        marker = [c for (c, pol) in p.pc if isinstance(c, App) and
                  c.op == 'implicit_exc']
        if not isinstance(v, Raise):
            nret += 1
            r.inst(path='normal', returns=repr(v)[:100])
            ok = isinstance(v, App) and v.op == 'mcall' and \
                v.args[1] == Const('parse') and not marker
            if ok:
                r.ok()
            else:
                r.fail(Finding(PROP, 'R-GR-5', f.where(), f.short(),
                               'return', 'Parser.__call__ returns %r on a '
                               'path %s' % (v, [repr(m) for m in marker])), witness=v)
            continue
        if v.implicit:
            continue
        exc = v.exc
        caught = marker[0].args[0].v if marker else None
        ok = isinstance(exc, (New,)) or (isinstance(exc, App) and
                                         exc.op == 'call')
        cls = None
        args = ()
        if isinstance(exc, New):
            cls, args = exc.ci, exc.args
        elif isinstance(exc, Obj):
            h = p.heap[exc.oid]
            cls = h.ci
            args = (h.fields.get('string'), h.fields.get('pos'))
        r.inst(path='except ' + str(caught), raises=cls.short() if cls
               else repr(exc)[:80], args=[repr(a)[:60] for a in args])
        if caught is None:
            r.fail(Finding(PROP, 'R-GR-5', I.where(v.node, f.module),
                           f.short(), 'uncaught-raise',
                           'Parser.__call__ raises %r outside a handler' % (
                               exc,)), witness=v)
            continue
        handled.add(caught.split('.')[-1])
        good = isinstance(cls, ClassInfo) and cls.is_subclass_of(perr) and \
            cls.name == caught.split('.')[-1]
        if not good:
            r.fail(Finding(
                PROP, 'R-GR-5', I.where(v.node, f.module), f.short(),
                'translation:%s->%s' % (caught, cls.short() if cls else exc),
                'lark\'s %s is re-raised as %s instead of the package\'s '
                'positioned %s' % (caught, cls.short() if cls else exc,
                                   caught.split('.')[-1])), witness=v)
        else:
            r.ok()
        pos_ok = len(args) == 2 and args[0] == s and \
            'pos_in_stream' in repr(args[1])
        # .pos is an index into the input: lark's position itself
        # (optionally through int()), not a value computed from it
        pt = args[1] if len(args) == 2 else None
        if isinstance(pt, App) and pt.op == 'int' and len(pt.args) == 1:
            pt = pt.args[0]
        ident = isinstance(pt, App) and pt.op == 'attr' and \
            isinstance(pt.args[0], Sym) and \
            pt.args[1] == Const('pos_in_stream')
        if pos_ok and not ident:
            from ..values import walk as _walk
            resized = [x for x in _walk(args[1]) if isinstance(x, App) and
                       x.op in ('mcall', 'call') and any(
                           isinstance(a, Const) and a.v in (
                               'expandtabs', 'encode', 'strip', 'lstrip',
                               'replace', 'split') for a in x.args)]
            if resized:
                r.fail(Finding(
                    PROP, 'R-GR-5', I.where(v.node, f.module), f.short(),
                    'position-computed:%s' % caught,
                    'the position reported for %s is %s: measured on a '
                    'transformed copy of the input (%s), so it is not an '
                    'index into the string that was given (e.g. a TAB '
                    'before the offending character: "\\t$" has its error '
                    'at index 1)' % (caught, repr(args[1])[:120],
                                     repr(resized[0])[:80])), witness=v)
            else:
                raise Inconclusive(
                    'R-GR-5', 'the position reported for %s is computed '
                    'from lark\'s position (%s); not decided' % (
                        caught, repr(args[1])[:100]),
                    I.where(v.node, f.module))
        elif pos_ok:
            r.ok()
        else:
            r.fail(Finding(
                PROP, 'R-GR-5', I.where(v.node, f.module), f.short(),
                'position:%s' % caught,
                'the error raised for %s does not carry the input string '
                'and lark\'s position: %r' % (caught, args)), witness=v)
    if handled != {'UnexpectedToken', 'UnexpectedCharacters'}:
        r.fail(Finding(
            PROP, 'R-GR-5', f.where(), f.short(),
            'handlers:' + ','.join(sorted(handled)),
            'Parser.__call__ handles %s, expected exactly lark\'s '
            'UnexpectedToken and UnexpectedCharacters' % sorted(handled)))
    else:
        r.ok()
    if nret == 0:
        raise Inconclusive('R-GR-5', 'no returning path', f.where())
    return r


def rule_gr6(prog):
    """leaves: the callbacks build AtomicProposition(<token text>) and
    Bool(True / False).  Whatever the text of the token is -- an identifier,
    or any quoted string -- the constructor must return: an exception raised
    there is not one of lark's two input errors, so it leaves __call__ as it
    is (ValueError, RuntimeError, a VisitError wrapping it ...)."""
    r = RuleResult('R-GR-6', 'the leaf constructors the callbacks use '
                   'accept every token text')
    n = 0
    for lang in ('PL', 'CTLS', 'CTL', 'LTL'):
        al = prog.alphabet(LANGS[lang])
        for cname, args in (('AtomicProposition',
                             [Sym('text', ('b', 'str'), ('apname',))]),
                            ('Bool', [Const(True)]), ('Bool', [Const(False)])):
            ci = al.get(cname)
            if ci is None:
                raise AnalysisError('%s.%s not found' % (lang, cname))
            I = Interp(prog, Hooks(), rule='R-GR-6')
            path = I.new_path()
            init = prog.method(ci, '__init__')
            res = I.construct(ci, list(args), [], path,
                              init.node if init else None)
            n += 1
            raising = [(p, v) for (p, v) in res if isinstance(v, Raise) and
                       not v.implicit]
            rets = [(p, v) for (p, v) in res if not isinstance(v, Raise)]
            r.inst(lang=lang, constructor=ci.qn, argument=repr(args[0]),
                   returning_paths=len(rets), raising_paths=len(raising))
            if not rets:
                raise Inconclusive('R-GR-6', '%s(%r) has no returning path' %
                                   (ci.qn, args[0]), ci.where()
                                   if hasattr(ci, 'where') else '')
            for (p, v) in raising:
                c = I.exc_class(v.exc)
                conds = [('' if pol else 'not ') + repr(cc)[:80]
                         for (cc, pol) in p.pc]
                r.fail(Finding(
                    PROP, 'R-GR-6', I.where(v.node, ci.module), ci.qn,
                    'leaf-raises:%s:%s' % (cname, c.name if c else '?'),
                    '%s.%s(%s) raises %s when %s: a %s parser given such a '
                    'token raises that exception (or lark\'s wrapper of it) '
                    'instead of returning the formula or a positioned '
                    'ParserError' % (lang, cname, 'token text' if cname ==
                                     'AtomicProposition' else args[0].v,
                                     c.name if c else v.exc, conds, lang)),
                    witness=Tup([cc for (cc, pol) in p.pc]))
            if not raising:
                r.ok()
    floor('R-GR-6', 'leaf constructor calls interpreted', n, 12)
    return r


# documented identifier terminal (doc/source/using_logics.rst, grammar of
# every logic):  /[a-zA-Z_][a-zA-Z_0-9]*/
_ID_FIRST = frozenset('abcdefghijklmnopqrstuvwxyzABCDEFGHIJKLMNOPQRSTUVWXYZ_')
_ID_REST = _ID_FIRST | frozenset('0123456789')


def _charset(items):
    """(set of characters, description of what makes it open-ended) of a
    regex character class given as re._parser items"""
    import re._parser as sp
    chars, open_ = set(), []
    for (op, av) in items:
        if op is sp.LITERAL:
            chars.add(chr(av))
        elif op is sp.RANGE:
            if av[1] - av[0] > 512:
                open_.append('range %r-%r' % (chr(av[0]), chr(av[1])))
            else:
                chars |= set(chr(c) for c in range(av[0], av[1] + 1))
        elif op is sp.CATEGORY:
            open_.append(str(av).lower().replace('category_', '\\') +
                         ' (Unicode-aware for str patterns)')
        elif op is sp.NEGATE:
            open_.append('negated class')
        else:
            open_.append(str(op))
    return chars, open_


def identifier_shape(pattern):
    """(first set, rest set, open-ended parts) of a terminal of the form
    <class><class>* ; None when it has another form"""
    import re._parser as sp
    try:
        t = list(sp.parse(pattern))
    except Exception:
        return None

    def cls(node):
        op, av = node
        if op is sp.IN:
            return _charset(av)
        if op is sp.LITERAL:
            return {chr(av)}, []
        if op is sp.CATEGORY:
            return _charset([node])
        return None
    if len(t) != 2:
        return None
    first = cls(t[0])
    op, av = t[1]
    if first is None or op not in (sp.MAX_REPEAT, sp.MIN_REPEAT) or \
            av[0] != 0 or av[1] is not sp.MAXREPEAT or len(av[2]) != 1:
        return None
    rest = cls(av[2][0])
    if rest is None:
        return None
    return first[0], rest[0], first[1] + rest[1]


def rule_gr7(prog, G):
    """the identifier terminal of every grammar denotes the documented set
    of names, no more (a wider class accepts strings the documented grammar
    excludes) and no less"""
    r = RuleResult('R-GR-7', 'the identifier terminal is the documented '
                   '/[a-zA-Z_][a-zA-Z_0-9]*/')
    n = 0
    for lang, g in sorted(G.items()):
        cands = [(nm, v) for nm, (k, v) in g.terminals.items()
                 if k == 're' and nm not in g.ignore and
                 not nm.startswith('ESCAPED')]
        for nm, pat in cands:
            sh = identifier_shape(pat)
            if sh is None:
                continue        # not an identifier-like terminal
            n += 1
            first, rest, open_ = sh
            extra = sorted((first - _ID_FIRST) | (rest - _ID_REST))
            missing = sorted((_ID_FIRST - first) | (_ID_REST - rest)) \
                if not open_ else []
            r.inst(lang=lang, terminal=nm, pattern=pat, open_ended=open_,
                   extra=extra[:8], missing=missing[:8])
            if open_ or extra:
                r.fail(Finding(
                    PROP, 'R-GR-7', 'pyModelChecking/%s/parser.py:1' % lang,
                    '%s.parser.Parser' % lang, 'identifier:%s' % pat,
                    'the %s grammar reads atom names with /%s/, which '
                    'accepts more than the documented '
                    '/[a-zA-Z_][a-zA-Z_0-9]*/ (%s): strings the documented '
                    'grammar excludes are parsed without an error' % (
                        lang, pat, '; '.join(open_) or 'also %r' % extra)))
            elif missing:
                r.fail(Finding(
                    PROP, 'R-GR-7', 'pyModelChecking/%s/parser.py:1' % lang,
                    '%s.parser.Parser' % lang, 'identifier:%s' % pat,
                    'the %s grammar reads atom names with /%s/, which '
                    'rejects documented names (no %r)' % (lang, pat,
                                                          missing[:8])))
            else:
                r.ok()
    floor('R-GR-7', 'identifier terminals', n, 4)
    return r


def rule_gr8(prog, G, prop=PROP):
    """the two ways to write an atomic proposition: an identifier is taken
    as it is, a double-quoted string is taken *without its quotes* (that is
    how names that look like operators or contain blanks are written): the
    callbacks of the two alternatives must build AtomicProposition(text) and
    AtomicProposition(text[1:-1])"""
    r = RuleResult('R-GR-8', 'identifier atoms are named by the token text, '
                   'quoted atoms by the text between the quotes')
    n = 0
    for lang, g in sorted(G.items()):
        for ru in g.rules:
            toks = [(sym, t, f) for (sym, t, f) in ru.rhs if t and not f]
            if len(ru.rhs) != 1 or len(toks) != 1:
                continue
            tname = toks[0][0]
            kind, pat = g.terminals.get(tname, (None, None))
            if kind != 're':
                continue
            quoted = tname.startswith('ESCAPED') or pat.startswith('"')
            ident = identifier_shape(pat) is not None
            if not (quoted or ident):
                continue
            name = ru.alias or ru.origin
            cb = g.callbacks.get(name, ('missing',))
            want = 'tokenslice(K(1), K(-1), K(None))' if quoted else 'token'
            n += 1
            r.inst(lang=lang, production='%s -> %s' % (ru.origin, tname),
                   callback=name, builds=cb[2] if cb[0] == 'atom' else cb[0],
                   expected=want)
            where = cb[-1].where() if cb[0] != 'missing' and \
                hasattr(cb[-1], 'where') else \
                g.parser_cls.module.relpath + ':1'
            if cb[0] == 'atom' and cb[2] == want:
                r.ok()
            elif cb[0] == 'atom':
                r.fail(Finding(
                    prop, 'R-GR-8', where, g.transformer.short(),
                    'atom-text:%s:%s:%s' % (lang, name, cb[2]),
                    'the %s parser names %s atom by `%s` of the token, '
                    'expected `%s`: %s' % (
                        lang, 'a quoted' if quoted else 'an identifier',
                        cb[2].replace('token', 'text'),
                        want.replace('token', 'text'),
                        'the quotes become part of the name, so "x y" names '
                        'no label of any structure' if quoted and
                        cb[2] == 'token' else 'the name is not the text '
                        'that was written')))
            elif cb[0] == 'missing':
                r.fail(Finding(
                    prop, 'R-GR-8', where, g.transformer.short(),
                    'atom-missing:%s:%s' % (lang, name),
                    'the %s grammar has the alternative `%s -> %s` but the '
                    'transformer %s has no callback `%s`: a raw parse tree '
                    'is put where the atomic proposition belongs' % (
                        lang, ru.origin, tname, g.transformer.short(), name)))
            elif cb[0] == 'pass':
                r.fail(Finding(
                    prop, 'R-GR-8', where, g.transformer.short(),
                    'atom-token:%s:%s' % (lang, name),
                    'callback `%s` of the %s parser returns the raw token '
                    'instead of an AtomicProposition' % (name, lang)))
            else:
                raise Inconclusive('R-GR-8', 'callback %s of %s: %s' % (
                    name, lang, cb[0]), where)
    floor('R-GR-8', 'atom alternatives', n, 8)
    return r


def run(prog, tier, seed):
    G = c09.grammars(prog)
    T = Attempts()
    r1 = T(c09.rule_rt3, prog, G, PROP, 'R-GR-1')
    r2 = T(c09.rule_rt2, prog, G, PROP, 'R-GR-2')
    results = T.results(r1, r2, T(rule_gr3, prog, G), T(rule_gr4, prog, G),
                        T(rule_gr5, prog), T(rule_gr6, prog),
                        T(rule_gr7, prog, G), T(rule_gr8, prog, G))
    # lark's LALR builder resolves a conflict silently (shift wins): only a
    # conflict-free grammar is parsed as written, so that the parser accepts
    # exactly the strings the documented productions derive
    from ..report import adopt
    results = results + adopt(T.results(T(c09.rule_rt0, prog, G)), PROP,
                              'the parser accepts the language of its '
                              'grammar only if the grammar is conflict-free')
    expl = ('Every grammar (text obtained by abstract interpretation, '
            'productions expanded by lark) is typed: the least fixpoint of '
            'the possible root operators per nonterminal shows that no '
            'derivation can hand an operand to a constructor that the '
            'constructor does not accept (C08 signature table), nor a wrong '
            'number of operands; hence no TypeError/VisitError escapes and '
            'every accepted string denotes a formula of exactly that logic. '
            'Operator tokens agree with the class each callback builds; '
            'callbacks exist and build through the parser\'s own language; '
            'modelchecks default to their own parser; Parser.__call__ '
            'translates exactly lark\'s two exception classes into the '
            'positioned package errors. Not decided: the value of pos; '
            'lark\'s other exception classes; the contextual lexer\'s '
            'splitting of glued tokens (e.g. "a Ub").')
    assumptions = ['lark raises only UnexpectedToken/UnexpectedCharacters '
                   'on malformed input', 'C08 signature table',
                   'pos within the input is produced by lark (run-time '
                   'value, not decided)']
    return results, expl, assumptions, T.extra()
