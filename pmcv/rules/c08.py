"""C08 -- formulas belong to their logic; out-of-logic input is rejected.

R-SORT-1 signature table of every alphabet class vs the documented syntax
R-SORT-2 wrap_subformulas: every stored operand passed the sort check
R-SORT-3 cast_to: same class name in the target alphabet, children in order
R-SORT-4 modelcheck: guards dominate the core, rejections are TypeError
"""
import ast

from ..program import AnalysisError, Inconclusive, ClassInfo, ExtClass
from ..values import (Const, Sym, CRef, FRef, MRef, Bound, Obj, Tup, App, Coll,
                      New, Raise, walk)
from ..interp import Interp, Hooks, is_private_helper, prologue_helpers
from ..formulas import (LANGS, signatures, FormulaHooks, new_instance)
from ..fields import subformula_field
from ..report import Finding, RuleResult, floor, Attempts, adopt

PROP = 'C08'

BOOL = ['Not', 'Or', 'And', 'Imply']
TEMP = ['X', 'F', 'G', 'U', 'R']
ATOMS = ['AtomicProposition', 'Bool']

# transcribed from the "Syntax" sections of doc/source/logics.rst
#   operator -> set of symbols whose formulas may appear as its operand
DOC_SYNTAX = {
    # "A PL formula is T, F, a variable, or not/and/or/--> over PL formulas"
    'PL': dict(alphabet=set(ATOMS + BOOL),
               operands={op: set(ATOMS + BOOL) for op in BOOL}),
    # CTL*: state and path formulas; every path formula may be an operand of
    # every operator and every state formula is a path formula
    'CTLS': dict(alphabet=set(ATOMS + BOOL + TEMP + ['A', 'E']),
                 operands={op: set(ATOMS + BOOL + TEMP + ['A', 'E'])
                           for op in BOOL + TEMP + ['A', 'E']}),
    # CTL: A/E are followed by exactly one temporal operator whose operands
    # are state formulas; Boolean operators range over state formulas
    'CTL': dict(alphabet=set(ATOMS + BOOL + TEMP + ['A', 'E']),
                operands=dict(
                    [(op, set(ATOMS + BOOL + ['A', 'E']))
                     for op in BOOL + TEMP] +
                    [(q, set(TEMP)) for q in ('A', 'E')])),
    # LTL: "A rho" with rho an LTL path formula; no E; no nested A
    'LTL': dict(alphabet=set(ATOMS + BOOL + TEMP + ['A']),
                operands={op: set(ATOMS + BOOL + TEMP)
                          for op in BOOL + TEMP + ['A']}),
}
DOC_ARITY = {'Not': 1, 'X': 1, 'F': 1, 'G': 1, 'A': 1, 'E': 1, 'Imply': 2,
             'U': 2, 'R': 2, 'Or': 2, 'And': 2}
# CTL* state formulas (is_a_state_formula): atoms and quantified formulas
# are state formulas, temporal operators are not, Boolean operators are state
# formulas exactly when all their operands are
CTLS_STATE = {'A': True, 'E': True, 'AtomicProposition': True, 'Bool': True,
              'X': False, 'F': False, 'G': False, 'U': False, 'R': False}


def _where(fi):
    return fi.where()


def rule_sort1(prog, sigs):
    r = RuleResult('R-SORT-1', 'signature of every alphabet class vs '
                   'documented syntax')
    nclasses = 0
    for lang, d in sigs.items():
        doc = DOC_SYNTAX[lang]
        names = set(d)
        if names != doc['alphabet']:
            r.fail(Finding(
                PROP, 'R-SORT-1', prog.module(LANGS[lang]).relpath + ':1',
                LANGS[lang], 'alphabet',
                'alphabet of %s differs from the documented one' % lang,
                expected=sorted(doc['alphabet']), found=sorted(names)))
        else:
            r.ok()
        # foreign classes: alphabet classes of the other languages
        others = []
        for l2, d2 in sigs.items():
            if l2 != lang:
                others.extend((l2, n2, s2.ci) for n2, s2 in d2.items())
        foreign_by_req = {}
        for name, s in sorted(d.items()):
            nclasses += 1
            if s.kind != 'op':
                # leaves: constructor rejects anything but bool / str
                lt = 'bool' if name == 'Bool' else 'str'
                ok, detail = _leaf_guard(prog, s, lt)
                r.inst(lang=lang, cls=name, kind='leaf', init=s.init.short(),
                       demands=lt, ok=ok)
                if ok:
                    r.ok()
                else:
                    r.fail(Finding(PROP, 'R-SORT-1', _where(s.init),
                                   s.ci.short(), 'leaf-guard',
                                   '%s.%s accepts a non-%s value: %s' % (
                                       lang, name, lt, detail)))
                continue
            acc = set(n2 for n2, s2 in d.items()
                      if s2.ci.is_subclass_of(s.required))
            want = doc['operands'].get(name)
            r.inst(lang=lang, cls=name, kind='op', init=s.init.short(),
                   required=s.required.short(), accepts=sorted(acc),
                   arity=[s.min_arity, s.max_arity])
            if want is None or acc != want:
                extra = sorted(acc - (want or set()))
                missing = sorted((want or set()) - acc)
                r.fail(Finding(
                    PROP, 'R-SORT-1', _where(s.init), s.ci.short(),
                    'operands:+%s-%s' % (','.join(extra), ','.join(missing)),
                    '%s.%s (operand class %s) accepts %s%s' % (
                        lang, name, s.required.short(),
                        'also ' + str(extra) if extra else '',
                        (' and rejects ' + str(missing)) if missing else ''),
                    expected=sorted(want or []), found=sorted(acc)))
            else:
                r.ok()
            # foreign formulas that pass isinstance(FormulaClass) uncasted
            leak = []
            for (l2, n2, c2) in others:
                if c2.is_subclass_of(s.required):
                    same = d.get(n2)
                    if same is None or not c2.is_subclass_of(same.ci) or \
                            n2 not in (want or set()):
                        leak.append('%s.%s' % (l2, n2))
            foreign_by_req.setdefault(s.required, set()).update(leak)
        for req, leak in sorted(foreign_by_req.items(),
                                key=lambda kv: kv[0].qn):
            names2 = sorted(set(x.split('.')[1] for x in leak))
            r.inst(lang=lang, required=req.short(), kind='foreign-acceptance',
                   leaked=sorted(leak))
            if leak:
                r.fail(Finding(
                    PROP, 'R-SORT-1',
                    '%s:%d' % (req.module.relpath, req.node.lineno),
                    req.short(), 'foreign-acceptance:' + ','.join(names2),
                    'operators of %s that demand %s store, without a cast, '
                    'formulas of other logics built with %s (each is a '
                    'subclass of %s): e.g. %s.Not(%s(..)) is constructed' % (
                        lang, req.short(), names2, req.short(), lang,
                        sorted(leak)[0]),
                    expected='only classes refining a symbol of the %s '
                             'alphabet' % lang, found=sorted(leak)))
            else:
                r.ok()
    floor('R-SORT-1', 'alphabet classes', nclasses, 44)
    # CTL* state/path classification
    hooks = FormulaHooks(prog)
    for name, s in sorted(sigs['CTLS'].items()):
        verdict = _is_state_summary(prog, s.ci, hooks)
        want = CTLS_STATE.get(name, 'children')
        r.inst(lang='CTLS', cls=name, kind='is_a_state_formula',
               summary=str(verdict), expected=str(want))
        if verdict == want:
            r.ok()
        elif verdict == 'unknown':
            raise Inconclusive('R-SORT-1', 'is_a_state_formula of CTLS.%s'
                               % name, '')
        else:
            f = prog.method(s.ci, 'is_a_state_formula')
            r.fail(Finding(PROP, 'R-SORT-1', _where(f), f.short(),
                           'is_state:%s:%s' % (name, verdict),
                           'CTLS.%s classifies itself as state formula: %s; '
                           'documented: %s' % (name, verdict, want),
                           expected=str(want), found=str(verdict)))
    return r


def _leaf_guard(prog, s, lt):
    """every non-raising path of the leaf constructor established
    isinstance(arg, <lt>)"""
    I = Interp(prog, Hooks(), rule='R-SORT-1')
    path = I.new_path()
    self_v = new_instance(I, s.ci, path)
    arg = Sym('value')
    res = I.call_function(FRef(s.init), [self_v, arg], [], path, s.init.node)
    for (p, v) in res:
        if isinstance(v, Raise):
            c = I.exc_class(v.exc)
            if c is None or c.name != 'TypeError':
                return False, 'raises %s instead of TypeError' % (
                    c.name if c else v.exc)
            continue
        ok = False
        for (c, pol) in p.pc:
            if pol and isinstance(c, App) and c.op == 'isinstance' and \
                    c.args[0] == arg and isinstance(c.args[1], CRef) and \
                    c.args[1].ci.name == lt:
                ok = True
        if not ok:
            return False, 'a path stores the value without isinstance(%s)' \
                % lt
    return True, ''


def _is_state_summary(prog, ci, hooks):
    f = prog.method(ci, 'is_a_state_formula')
    if f is None:
        return 'unknown'
    I = Interp(prog, hooks, rule='R-SORT-1')
    path = I.new_path()
    # a generic instance with symbolic children
    self_v = Sym('self', ('inst', ci))
    res = I.call_function(FRef(f), [self_v], [], path, f.node)
    vals = []
    for (p, v) in res:
        if isinstance(v, Raise):
            return 'raises'
        vals.append((v, p))
    # the children: what subformulas() returns
    children = None
    sub = prog.method(ci, 'subformulas')
    if sub is not None:
        rs = [v for (_, v) in I.call_function(FRef(sub), [self_v], [],
                                              I.new_path(), sub.node)]
        if len(rs) == 1:
            children = rs[0]
    if all(isinstance(v, Const) for v, _ in vals):
        s = set(v.v for v, _ in vals)
        if len(s) == 1:
            return s.pop()
    # Not: child0.is_a_state_formula()
    if len(vals) == 1 and isinstance(vals[0][0], App) and \
            vals[0][0].op == 'mcall' and \
            vals[0][0].args[1] == Const('is_a_state_formula'):
        return 'children'
    # all(child.is_a_state_formula() for child in children)
    if len(vals) == 1 and isinstance(vals[0][0], App) and \
            vals[0][0].op == 'all' and len(vals[0][0].args) == 1 and \
            isinstance(vals[0][0].args[0], Coll):
        parts = vals[0][0].args[0].parts
        if len(parts) == 1 and parts[0].kind == 'elem' and \
                not parts[0].conds and len(parts[0].gens) == 1 and \
                isinstance(parts[0].val, App) and \
                parts[0].val.op == 'mcall' and \
                parts[0].val.args[0] == parts[0].gens[0][0] and \
                parts[0].gens[0][1] == children and \
                parts[0].val.args[1] == Const('is_a_state_formula'):
            return 'children'
    # Or/And/Imply: False inside the loop when a child is not a state
    # formula, True after the loop
    falses = [p for v, p in vals if v == Const(False)]
    trues = [p for v, p in vals if v == Const(True)]
    if len(falses) + len(trues) == len(vals) and trues and falses:
        def _exit_on_nonstate(p):
            for (c, pol) in p.pc:
                if pol and isinstance(c, App) and c.op == 'exists' and \
                        c.args[1] == children:
                    for cp in c.args[2].items:
                        cc, cpol = cp.items
                        if isinstance(cc, App) and cc.op == 'mcall' and \
                                cc.args[1] == Const('is_a_state_formula') \
                                and cpol == Const(False):
                            return True
            return False
        okf = all(_exit_on_nonstate(p) for p in falses)
        okt = all(all(isinstance(c, App) and c.op == 'exists' and not pol
                      for (c, pol) in p.pc) for p in trues)
        if okf and okt:
            return 'children'
    return 'unknown'


# ---------------------------------------------------------------------------

def rule_sort2(prog, sigs):
    r = RuleResult('R-SORT-2', 'wrap_subformulas: every stored operand '
                   'passed isinstance(FormulaClass)')
    by_kind = {}
    wraps = set()
    for lang, d in sigs.items():
        for name, s in sorted(d.items()):
            if s.kind != 'op':
                continue
            wraps.add(s.wrap.short())
            hooks = FormulaHooks(prog, check_sorts=False)
            I = Interp(prog, hooks, rule='R-SORT-2')
            path = I.new_path()
            self_v = new_instance(I, s.ci, path)
            phi = Sym('phi')
            res = I.call_function(FRef(s.wrap),
                                  [self_v, Tup([phi]), CRef(s.required)], [],
                                  path, s.wrap.node)
            nstore = 0
            for (p, v) in res:
                if isinstance(v, Raise):
                    c = I.exc_class(v.exc)
                    if v.implicit:
                        continue
                    if c is None or c.name != 'TypeError':
                        r.fail(Finding(
                            PROP, 'R-SORT-2', I.where(v.node, s.wrap.module),
                            s.wrap.short(), 'raise:' + (c.name if c else '?'),
                            'rejection of an ill-sorted operand raises %s '
                            'instead of TypeError' % (c.name if c else v.exc)), witness=v)
                    else:
                        r.ok()
                    continue
                lst = p.heap[self_v.oid].fields.get(subformula_field(prog))
                if not isinstance(lst, Obj):
                    raise Inconclusive('R-SORT-2', '_subformula is not a '
                                       'list built in wrap_subformulas',
                                       s.wrap.where())
                for part in p.heap[lst.oid].parts:
                    nstore += 1
                    ok, how = _stored_ok(I, part.val, s.required, p)
                    pv = part.val
                    if not ok and isinstance(pv, Sym) and pv.meta and \
                            pv.meta[0] in ('elem', 'next', 'widened',
                                           'loopvar'):
                        # what is stored comes out of an iterator / loop
                        # whose filtering is not visible here: no verdict
                        raise Inconclusive(
                            'R-SORT-2', 'wrap_subformulas of %s.%s stores %r'
                            % (lang, name, pv), s.wrap.where())
                    if ok:
                        r.ok()
                    else:
                        by_kind.setdefault((s.wrap, how), []).append(
                            '%s.%s' % (lang, name))
                        r.obligations += 1
            r.inst(lang=lang, cls=name, wrap=s.wrap.short(),
                   required=s.required.short(), paths=len(res),
                   stores=nstore)
            if nstore == 0:
                r.fail(Finding(PROP, 'R-SORT-2', s.wrap.where(),
                               s.wrap.short(), 'nostore:%s.%s' % (lang, name),
                               'no path of wrap_subformulas stores the '
                               'operand of %s.%s' % (lang, name)))
    for (wrap, how), classes in sorted(by_kind.items(),
                                       key=lambda kv: kv[0][1]):
        r.findings.append(Finding(
            PROP, 'R-SORT-2', wrap.where(), wrap.short(), 'unchecked:' + how,
            'an operand is stored without the sort check (%s); affected '
            'operators whose required class excludes it: %s -- e.g. %s(%s) '
            'is constructed' % (how, sorted(classes), sorted(classes)[0],
                                "True" if 'Bool' in how else "'p'"),
            expected='isinstance(operand, FormulaClass) established on the '
                     'storing path', found=how,
            extra={'classes': sorted(classes)}))
    floor('R-SORT-2', 'operator classes', len(r.instances), 36)
    return r


def _stored_ok(I, v, req, path):
    if isinstance(v, New) and isinstance(v.ci, ClassInfo):
        if v.ci.is_subclass_of(req):
            return True, ''
        return False, 'shortcut builds %s' % v.ci.name
    for (c, pol) in path.pc:
        if pol and isinstance(c, App) and c.op == 'isinstance' and \
                c.args[0] == v and isinstance(c.args[1], CRef) and \
                c.args[1].ci.is_subclass_of(req):
            return True, ''
    return False, 'value %r' % (v,)


# ---------------------------------------------------------------------------

def rule_sort3(prog, sigs):
    r = RuleResult('R-SORT-3', 'cast_to: same symbol in the target '
                   'alphabet, children cast in order, else TypeError')
    n = 0
    for lang, d in sigs.items():
        for name, s in sorted(d.items()):
            f = prog.method(s.ci, 'cast_to')
            if f is None:
                raise AnalysisError('cast_to not resolved for ' + s.ci.qn)
            for tlang, tmod in LANGS.items():
                n += 1
                hooks = _CastHooks(prog, check_sorts=False)
                I = Interp(prog, hooks, rule='R-SORT-3', max_depth=6)
                path = I.new_path()
                if s.kind == 'leaf':
                    self_v = New(s.ci, (Sym('leafval'),))
                else:
                    kids = [Sym('c0', ('inst', prog.cls('language.Formula'))),
                            Sym('c1', ('inst', prog.cls('language.Formula')))]
                    k = DOC_ARITY[name]
                    self_v = New(s.ci, kids[:k])
                target = MRef(prog.module(tmod).name)
                res = I.call_function(FRef(f), [self_v, target], [], path,
                                      f.node)
                talpha = prog.alphabet(tmod)
                verdict = _cast_verdict(I, res, s, name, self_v, talpha,
                                        target, f)
                r.inst(src='%s.%s' % (lang, name), target=tlang,
                       verdict=verdict[1])
                if verdict[0]:
                    r.ok()
                else:
                    r.fail(Finding(
                        PROP, 'R-SORT-3', f.where(), f.short(),
                        'cast:%s.%s->%s:%s' % (lang, name, tlang, verdict[1]),
                        'cast_to of a %s.%s formula into %s: %s' % (
                            lang, name, tlang, verdict[1]),
                        expected=verdict[2], found=verdict[1]))
    floor('R-SORT-3', 'cast instances', n, 176)
    return r


class _CastHooks(FormulaHooks):
    def inline(self, I, fi, args):
        # the recursive cast of a (symbolic) child stays a recorded call
        if fi.name == 'cast_to' and args and isinstance(args[0], Sym):
            return False
        return True


def _cast_verdict(I, res, s, name, self_v, talpha, target, f):
    res = [(p, v) for (p, v) in res
           if not (isinstance(v, Raise) and v.implicit)]
    if name not in talpha:
        exp = 'TypeError'
        for (p, v) in res:
            if not isinstance(v, Raise):
                return (False, 'returns %r although %s is not in the target '
                        'alphabet' % (v, name), exp)
            c = I.exc_class(v.exc)
            if c is None or c.name != 'TypeError':
                return (False, 'raises %s' % (c.name if c else v.exc), exp)
        return (True, 'TypeError', exp)
    tci = talpha[name]
    exp = '%s(children cast in order)' % tci.short()
    if not res:
        return (False, 'no path', exp)
    for (p, v) in res:
        if isinstance(v, Raise):
            return (False, 'raises %r' % (v.exc,), exp)
        if not (isinstance(v, New) and v.ci is tci):
            return (False, 'returns %r' % (v,), exp)
        if s.kind == 'leaf':
            src = set(x for a in v.args for x in walk(a)
                      if isinstance(x, Sym))
            if Sym('leafval') not in src:
                return (False, 'leaf value not carried over: %r' % (v,), exp)
            continue
        # children: either explicit list or star of a comprehension
        kids = list(self_v.args)
        got = []
        for a in v.args:
            if isinstance(a, App) and a.op == 'star':
                lst = a.args[0]
                parts = p.heap[lst.oid].parts if isinstance(lst, Obj) \
                    else getattr(lst, 'parts', None)
                if parts is None:
                    return (False, 'children are %r' % (a,), exp)
                for part in parts:
                    if part.kind != 'elem' or part.conds or part.gens:
                        return (False, 'children are built conditionally: %r'
                                % (part,), exp)
                    got.append(part.val)
            else:
                got.append(a)
        if len(got) != len(kids):
            return (False, '%d children for %d' % (len(got), len(kids)), exp)
        for g, k in zip(got, kids):
            if not _is_cast_of(g, k, target):
                return (False, 'child %r is not cast_to(%r)' % (g, k), exp)
    return (True, 'ok', exp)


def _is_cast_of(g, k, target):
    if isinstance(g, App) and g.op == 'call' and isinstance(g.args[0], FRef) \
            and g.args[0].fi.name == 'cast_to':
        a = g.args[1].items
        return len(a) == 2 and a[0] == k and a[1] == target
    if isinstance(g, App) and g.op == 'mcall' and \
            g.args[1] == Const('cast_to'):
        return g.args[0] == k and g.args[2].items == (target,)
    return False


# ---------------------------------------------------------------------------

class _GuardHooks(FormulaHooks):
    """only the entry point itself is interpreted; every other package
    function is a recorded, uninterpreted call"""

    def __init__(self, prog, entry):
        FormulaHooks.__init__(self, prog)
        self.entry = entry

    def inline(self, I, fi, args):
        if fi is self.entry or fi.name == 'LNot':
            return True
        # a private helper next to the entry that does not receive the
        # structure is part of the prologue (parsing / casting / guards),
        # not a checking routine: interpreted
        return fi.qn in prologue_helpers(self.entry) or (
            is_private_helper(fi, self.entry) and not any(
                x == self.kripke_sym for a in args for x in walk(a)))


def rule_sort4(prog):
    r = RuleResult('R-SORT-4', 'modelcheck: Kripke and sort guards dominate '
                   'the checking core; rejections raise TypeError')
    kripke = prog.cls('kripke.Kripke')
    ctls_a = prog.cls('CTLS.language.A')
    ctl_state = prog.cls('CTL.language.StateFormula')
    want_guard = {'CTL': ctl_state, 'LTL': ctls_a, 'CTLS': None}
    for lang in ('CTL', 'LTL', 'CTLS'):
        f = prog.func('%s.model_checking.modelcheck' % lang)
        hooks = _GuardHooks(prog, f)
        I = Interp(prog, hooks, rule='R-SORT-4')
        path = I.new_path()
        k = Sym('kripke')
        hooks.kripke_sym = k
        fm = Sym('formula')
        res = I.call_function(FRef(f), [k, fm, Sym('parser'), Sym('F')], [],
                              path, f.node)
        ncore = 0
        for (p, v) in res:
            # explicit raises must be TypeError
            if isinstance(v, Raise):
                c = I.exc_class(v.exc)
                if c is None or c.name != 'TypeError':
                    r.fail(Finding(
                        PROP, 'R-SORT-4', I.where(v.node, f.module),
                        f.short(), 'raise:' + (c.name if c else repr(v.exc)),
                        '%s.modelcheck rejects with %s, not TypeError' % (
                            lang, c.name if c else v.exc),
                        expected='TypeError'), witness=v)
                else:
                    r.ok()
                continue
            # returning path: all core calls on this path must be dominated
            kg = any(pol and isinstance(c, App) and c.op == 'isinstance' and
                     c.args[0] == k and isinstance(c.args[1], CRef) and
                     c.args[1].ci.is_subclass_of(kripke)
                     for (c, pol) in p.pc)
            fg = True
            gc = want_guard[lang]
            if gc is not None:
                fg = any(pol and isinstance(c, App) and c.op == 'isinstance'
                         and isinstance(c.args[1], CRef) and
                         c.args[1].ci.is_subclass_of(gc) and
                         _derived_from(c.args[0], fm)
                         for (c, pol) in p.pc)
            ncore += 1
            core = [e for e in p.log if e.kind == 'call' and
                    isinstance(e.target, FRef)]
            if not core:
                # nothing recognised as the checking core on this path
                # (e.g. it is reached through a computed function value):
                # outside the fragment
                raise Inconclusive('R-SORT-4', 'a returning path of '
                                   '%s.modelcheck reaches no recognised '
                                   'checking routine' % lang, f.where())
            r.inst(lang=lang, path_condition=[
                ('' if pol else 'not ') + repr(c) for (c, pol) in p.pc][:8],
                core=[e.target.fi.short() for e in core],
                kripke_guard=kg, formula_guard=fg)
            if not kg:
                r.fail(Finding(
                    PROP, 'R-SORT-4', f.where(), f.short(), 'kripke-guard',
                    'a path of %s.modelcheck reaches %s without '
                    'isinstance(kripke, Kripke)' % (
                        lang, core[0].target.fi.short()),
                    expected='guard dominates the core'))
            else:
                r.ok()
            if not fg:
                r.fail(Finding(
                    PROP, 'R-SORT-4', f.where(), f.short(), 'formula-guard',
                    'a path of %s.modelcheck reaches %s without the sort '
                    'guard isinstance(formula, %s)' % (
                        lang, core[0].target.fi.short(), gc.short()),
                    expected='guard dominates the core'))
            else:
                r.ok()
            if lang == 'CTLS':
                # delegated: the value returned is the result of a call to
                # CTL.modelcheck / LTL.modelcheck (both guarded, see above)
                ok = isinstance(v, App) and v.op == 'call' and \
                    isinstance(v.args[0], FRef) and \
                    v.args[0].fi.name == 'modelcheck'
                if ok:
                    r.ok()
                else:
                    r.fail(Finding(
                        PROP, 'R-SORT-4', f.where(), f.short(), 'delegate',
                        'CTLS.modelcheck returns %r, not the result of a '
                        'guarded CTL/LTL modelcheck' % (v,)), witness=v)
        if ncore == 0:
            raise AnalysisError('R-SORT-4: no returning path in %s' % f.qn)
        # an argument that is not a formula of the logic is *cast*; an
        # argument that cannot be cast at all (a number, None, a formula of
        # the base language: no cast_to) must be rejected with TypeError
        # too, i.e. the attempt sits in a handler that catches whatever the
        # attempt raises (AttributeError included)
        fparam = f.node.args.args[1].arg if len(f.node.args.args) > 1 \
            else None
        for t in ast.walk(f.node):
            if not isinstance(t, ast.Try):
                continue
            casts = [c for b in t.body for c in ast.walk(b)
                     if isinstance(c, ast.Call) and
                     isinstance(c.func, ast.Attribute) and
                     c.func.attr == 'cast_to' and
                     isinstance(c.func.value, ast.Name) and
                     c.func.value.id == fparam]
            if not casts:
                continue
            caught = []
            for h in t.handlers:
                if h.type is None:
                    caught.append('BaseException')
                else:
                    ts = h.type.elts if isinstance(h.type, ast.Tuple) \
                        else [h.type]
                    caught.extend(ast.unparse(x).split('.')[-1] for x in ts)
            covers = any(c in ('BaseException', 'Exception',
                               'AttributeError') for c in caught)
            r.inst(lang=lang, cast_attempt_line=casts[0].lineno,
                   handler_catches=caught, covers_uncastable=covers)
            if covers:
                r.ok()
            else:
                r.fail(Finding(
                    PROP, 'R-SORT-4', '%s:%d' % (f.module.relpath,
                                                 casts[0].lineno),
                    f.short(), 'cast-handler:%s' % ','.join(caught),
                    '%s.modelcheck tries `%s.cast_to(..)` under a handler '
                    'that catches only %s: an argument without cast_to (a '
                    'number, None, a formula of the base language) leaves '
                    'modelcheck with AttributeError instead of TypeError' % (
                        lang, fparam, caught),
                    expected='TypeError for every argument that is not a '
                             'formula of the logic'))
    floor('R-SORT-4', 'returning paths', len(r.instances), 6)
    return r


def _derived_from(v, root):
    return any(x == root for x in walk(v))


def run(prog, tier, seed):
    sigs = signatures(prog)
    T = Attempts()
    results = T.results(T(rule_sort1, prog, sigs), T(rule_sort2, prog, sigs),
                        T(rule_sort3, prog, sigs), T(rule_sort4, prog))
    expl = ('Static decision of sort membership: (1) the resolved __init__ '
            'and required operand class of each of the 44 alphabet classes '
            '(C3 MRO rebuilt from source) give, per operator, the set of '
            'symbols it accepts; compared with the Syntax sections of the '
            'documentation. (2) wrap_subformulas is interpreted abstractly '
            'per operator class: every path that stores an operand must have '
            'established isinstance(operand, FormulaClass). (3) cast_to is '
            'interpreted for all 44x4 (class, target) pairs. (4) each '
            'modelcheck is interpreted with the checking core opaque: '
            'guards dominate the core and rejections are TypeError. By '
            'induction on construction (1)+(2) decide membership for all '
            'operator trees.')
    assumptions = ['no reflection / monkey patching of the class lattice',
                   'documented syntax transcribed by hand into DOC_SYNTAX',
                   'arity is not part of the armed rule (observation only)']
    # LTL.modelcheck rejects what is not LTL inside the body of A only in
    # the closure of its tableau: TypeError discipline of that function
    from . import c02

    def _closure_discipline(prog):
        return c02.rule_ltl2(prog, c02.discover(prog))
    results = results + adopt(T.results(T(_closure_discipline, prog)), PROP,
                              'TypeError discipline of the LTL closure')
    return results, expl, assumptions, T.extra()
