"""C15 -- fairness (partial).

R-F-1 get_fair_states: extracted summary == states that start a fair path
R-F-2 fair rewriters do not raise (constructor arity / sorts)
R-F-3 the formula handed to the LTL tableau stays inside its alphabet
R-F-4 fair rewrite rules are valid w.r.t. the CGP fair semantics
R-F-5 F is None: no fairness code on the path
"""
import itertools

from ..program import AnalysisError, Inconclusive, ClassInfo
from ..values import (Const, Sym, CRef, FRef, Bound, Obj, Tup, App, New,
                      Raise, Coll, walk)
from ..interp import Interp, Hooks, prologue_helpers, is_private_helper
from ..templates import (TemplateHooks, extract, generic_instances, show,
                         to_term, make_hole)
from ..formulas import LANGS
from ..galg import (GraphHooks, evaluate_set, all_graphs, all_subsets,
                    NotEvaluable, GraphError, CG, g_sccs, g_reach, g_reversed)
from .. import oracle
from ..report import Finding, RuleResult, floor, Attempts, adopt

PROP = 'C15'
METHOD = 'get_equivalent_non_fair_formula'


# ---------------------------------------------------------------------------
# R-F-1
# ---------------------------------------------------------------------------

class _FairHooks(GraphHooks):
    def __init__(self, prog):
        self.graph_init(prog)


def spec_fair_states(g, F):
    """states from which some infinite path visits every set of F infinitely
    often: backward closure of the non-trivial SCCs meeting every set"""
    good = set()
    for C in g_sccs(g):
        v = next(iter(C))
        nontrivial = len(C) > 1 or v in g.succ[v]
        if nontrivial and all(C & P for P in F):
            good |= C
    return g_reach(g_reversed(g), good)


def fairness_families(n):
    subs = [s for s in all_subsets(n)]
    yield []
    for P in subs:
        yield [P]
    for P, Q in itertools.combinations(subs, 2):
        yield [P, Q]


def _f1_per_family(prog, f, K, nmax):
    from .c13 import pc_holds
    nm = 0
    counter = None
    mism = []
    for n in range(1, nmax + 1):
        for fam in fairness_families(n):
            hooks = _FairHooks(prog)
            I = Interp(prog, hooks, rule='R-F-1')
            path = I.new_path()
            Fv = I._mk_coll('list', [
                I._mk_coll('set', [Const(x) for x in sorted(P)], path, None)
                for P in fam], path, None)
            try:
                res = I.call_function(FRef(f), [K, Fv], [], path, f.node)
            except Inconclusive as e:
                raise NotEvaluable(str(e))
            rets = []
            for (p, v) in res:
                if isinstance(v, Raise):
                    if not v.implicit:
                        rets.append((p, v))
                else:
                    rets.append((p, I.snapshot(v, p)))
            if hooks.param_mutations:
                raise NotEvaluable('the structure is modified')
            for g in all_graphs(n, total=True):
                nm += 1
                env = {K: g}
                want = spec_fair_states(g, fam)
                hit = [o for (p, o) in rets if pc_holds(p, env, I)]
                if len(hit) != 1:
                    raise NotEvaluable('%d returning paths hold' % len(hit))
                if isinstance(hit[0], Raise):
                    lo = hi = 'raises %r' % (hit[0].exc,)
                else:
                    try:
                        lo, hi = evaluate_set(hit[0], env)
                    except GraphError as e:
                        lo = hi = 'raises ' + str(e)
                if lo != want or hi != want:
                    got = lo if lo != want else hi
                    got = sorted(got) if not isinstance(got, str) else got
                    if counter is None:
                        counter = (g, fam, got, want)
                    mism.append((repr(g), [sorted(P) for P in fam], got))
    return nm, counter, mism


def rule_f1(prog, tier):
    r = RuleResult('R-F-1', 'get_fair_states: extracted summary == states '
                   'starting a fair path, on every small structure')
    f = prog.func('kripke.Kripke.get_fair_states')
    hooks = _FairHooks(prog)
    I = Interp(prog, hooks, rule='R-F-1')
    path = I.new_path()
    K = Sym('K', ('inst', prog.cls('kripke.Kripke')))
    F = Sym('F', ('b', 'list'))
    res = I.call_function(FRef(f), [K, F], [], path, f.node)
    res = [(p, v) for (p, v) in res
           if not (isinstance(v, Raise) and v.implicit)]
    outs = []
    rets = []
    for (p, v) in res:
        if isinstance(v, Raise):
            r.fail(Finding(PROP, 'R-F-1', I.where(v.node, f.module),
                           f.short(), 'raise', 'get_fair_states raises %r'
                           % (v.exc,)), witness=v)
        else:
            outs.append(I.snapshot(v, p))
            rets.append((p, outs[-1]))
    if not outs or not all(isinstance(o, Coll) for o in outs):
        raise Inconclusive('R-F-1', 'get_fair_states returns %r' % (outs,),
                           f.where())
    term = outs[0]
    if len(outs) > 1:
        # several returning paths (an early `return set()` ...): per model
        # the path whose conditions hold is the one that returns
        from .c13 import pc_holds

        def pick(env):
            hit = []
            for (p, o) in rets:
                if pc_holds(p, env, I):
                    hit.append(o)
            if len(hit) != 1:
                raise NotEvaluable('%d returning paths hold' % len(hit))
            return hit[0]
        term = App('select', Tup(outs))
    else:
        pick = None
    if hooks.param_mutations:
        r.fail(Finding(PROP, 'R-F-1', f.where(), f.short(), 'mutates-K',
                       'get_fair_states modifies the structure: %r' % (
                           hooks.param_mutations[0][1],)))
    nmax = 3
    nm = 0
    counter = None
    mism = []
    try:
        for n in range(1, nmax + 1):
            for g in all_graphs(n, total=True):
                for fam in fairness_families(n):
                    nm += 1
                    env = {K: g, F: tuple(fam)}
                    want = spec_fair_states(g, fam)
                    try:
                        lo, hi = evaluate_set(
                            term if pick is None else pick(env), env)
                    except GraphError as e:
                        lo = hi = 'raises ' + str(e)
                    if lo != want or hi != want:
                        got = lo if lo != want else hi
                        got = sorted(got) if not isinstance(got, str) else got
                        if counter is None:
                            counter = (g, fam, got, want)
                        if n <= 3:
                            mism.append((repr(g), [sorted(P) for P in fam],
                                         got))
    except NotEvaluable as e:
        # the summary over a symbolic family F is not evaluable (a loop over
        # F that carries state from one constraint to the next, say): the
        # function is summarised once per concrete family instead -- the
        # loop over F is then unrolled -- and each summary is evaluated on
        # the structures
        try:
            nm, counter, mism = _f1_per_family(prog, f, K, nmax)
        except NotEvaluable as e2:
            raise Inconclusive('R-F-1', 'summary of get_fair_states not '
                               'evaluable: %s (per family: %s)' % (e, e2),
                               f.where())
        term = 'one summary per concrete family F (%s)' % e
    import hashlib
    fp = hashlib.sha1(repr(sorted(mism, key=repr)).encode()).hexdigest()[:10]
    r.inst(function=f.short(), summary=repr(term)[:500], models=nm)
    if counter is None:
        r.ok()
    else:
        g, fam, got, want = counter
        r.fail(Finding(
            PROP, 'R-F-1', f.where(), f.short(),
            'fair-states:behaviour-on-<=3-states=' + fp,
            'get_fair_states differs from "states from which some path '
            'visits every set of F infinitely often": on %r with F=%s it '
            'yields %s, expected %s' % (g, [sorted(P) for P in fam], got,
                                        sorted(want)),
            expected=sorted(want), found=got,
            extra={'structure': repr(g), 'F': [sorted(P) for P in fam],
                   'summary': repr(term)[:800]}))
    return r


# ---------------------------------------------------------------------------
# R-F-2 / R-F-4
# ---------------------------------------------------------------------------

def fair_instances(prog):
    out = []
    for lang in ('CTL', 'CTLS', 'LTL'):
        for (name, ci, kids, lhs) in generic_instances(prog, lang):
            if lang == 'CTL' and name in ('X', 'F', 'G', 'U', 'R'):
                continue
            out.append((lang, name, ci, kids, lhs))
        al = prog.alphabet(LANGS[lang])
        out.append((lang, 'Atom', al['AtomicProposition'],
                    [Sym('apname', ('b', 'str'), ('apname',))],
                    ('atom', 'p')))
    return out


def _to_holes(t):
    """raw children -> holes (for the generic rebuild comparison)"""
    if t[0] == 'raw':
        return ('hole', t[1])
    if t[0] in ('hole', 'atom', 'bool'):
        return t
    if t[0] == 'LNot':
        return ('LNot', _to_holes(t[1]))
    return t[:2] + tuple(_to_holes(x) for x in t[2:])


def fair_atoms(t):
    """instantiate: every atom p of a path instance becomes p and fair"""
    if t[0] == 'atom' and t[1] != '$fair':
        return ('And', None, t, ('atom', '$fair'))
    if t[0] in ('hole', 'raw', 'bool', 'atom'):
        return t
    if t[0] == 'LNot':
        return ('LNot', fair_atoms(t[1]))
    return t[:2] + tuple(fair_atoms(x) for x in t[2:])


def fam_for_states(n):
    subs = list(all_subsets(n))
    fams = [[]] + [[P] for P in subs if P] + \
        [[P, Q] for P, Q in itertools.combinations([s for s in subs if s], 2)]
    return fams


RESTRICT = 'get_equivalent_restricted_formula'   # meaning preserving (C05)


def _plain_atom(i):
    return oracle.hole_atom(i) + '_plain'


def _subst_rhs(t, mh, mr):
    """right-hand side: a rewritten child c' (hole) stands for the fair
    meaning of the child, a child used as it is (raw) for its ordinary
    meaning -- two different things on a structure with unfair paths"""
    if t[0] == 'hole':
        return mh.get(t[1], t)
    if t[0] == 'raw':
        return mr.get(t[1], t)
    if t[0] == 'LNot':
        return ('LNot', _subst_rhs(t[1], mh, mr))
    if t[0] in ('atom', 'bool'):
        return t
    return t[:2] + tuple(_subst_rhs(x, mh, mr) for x in t[2:])


def _raws_of(t, acc=None):
    acc = set() if acc is None else acc
    if t[0] == 'raw':
        acc.add(t[1])
    elif t[0] == 'LNot':
        _raws_of(t[1], acc)
    elif t[0] not in ('atom', 'bool', 'hole'):
        for x in t[2:]:
            _raws_of(x, acc)
    return acc


def decide_fair(lhs, rhs, tier, state_holes):
    """LHS under fair semantics == RHS under ordinary semantics on the
    structure whose fair states carry the label $fair"""
    hs = sorted(oracle.holes_of(lhs) | oracle.holes_of(rhs))
    insts = [None]
    if not state_holes and hs:
        insts = oracle.PATH_INSTANCES
    nmax = 2 if tier == 'quick' else 3
    total = 0
    for inst in insts:
        if inst is None:
            # state holes: the ordinary meaning of a child is a set of
            # states of its own (an atom independent of the fair meaning)
            l2 = lhs
            r2 = _subst_rhs(rhs, {}, {i: ('atom', _plain_atom(i))
                                      for i in _raws_of(rhs)})
        else:
            m = {i: inst(i) for i in hs}
            mf = {i: fair_atoms(inst(i)) for i in hs}
            l2 = oracle.subst(lhs, m)
            r2 = _subst_rhs(rhs, mf, m)
        atoms = sorted((set(oracle._atoms(l2)) | set(oracle._atoms(r2)) |
                        set(oracle.hole_atom(i) for i in
                            oracle.holes_of(l2) | oracle.holes_of(r2))) -
                       {'$fair'})
        for n in range(1, nmax + 1):
            fams = fam_for_states(n)
            if n == 3:
                fams = [f for f in fams if len(f) <= 1]
            for M in oracle.all_structures(n, atoms):
                for fam in fams:
                    total += 1
                    semf = oracle.Sem(M, fam)
                    a = semf.state(l2)
                    lab2 = tuple(M.lab[s] | (frozenset(['$fair'])
                                             if s in semf.fair
                                             else frozenset())
                                 for s in range(n))
                    M2 = oracle.K(n, M.succ, lab2)
                    b = oracle.Sem(M2, None).state(r2)
                    if a != b:
                        return {'verdict': 'counter',
                                'model': M.describe(),
                                'F': [sorted(P) for P in fam],
                                'fair_states': sorted(semf.fair),
                                'instance': None if inst is None else {
                                    'c%d' % i: show(m[i]) for i in hs},
                                'fair_semantics': sorted(a),
                                'rewritten_formula': sorted(b)}
    return {'verdict': 'bounded', 'how': '%d (structure, F) pairs with <= %d '
            'states' % (total, nmax)}


def rules_f24(prog, tier):
    r2 = RuleResult('R-F-2', 'fair rewriters return a formula (no '
                    'constructor arity / sort error)')
    r4 = RuleResult('R-F-4', 'fair rewrite rules agree with the CGP fair '
                    'semantics on every small (structure, F)')
    fair = Sym('fairAP', ('b', 'str'), ('fairap',))
    insts = fair_instances(prog)
    floor('R-F-2', 'fair rewrite instances', len(insts), 40)
    seen = set()
    for (lang, name, ci, kids, lhs) in insts:
        f, outs = extract(prog, ci, METHOD, kids, extra_args=[fair],
                          rule='R-F-2', equiv=(RESTRICT,))
        terms = [t for (t, p) in outs if t[0] != 'raise']
        raises = [t for (t, p) in outs if t[0] == 'raise']
        desc = dict(lang=lang, rule=name, method=f.short(), lhs=show(lhs),
                    rhs=[show(t) for t in terms] +
                    ['raise %s: %s' % (t[1], t[2]) for t in raises])
        r2.inst(**desc)
        for t in raises:
            r2.fail(Finding(
                PROP, 'R-F-2', t[3], f.short(),
                '%s.%s raises %s' % (lang, name, t[1]),
                'with fairness constraints, rewriting the %s formula %s '
                'raises %s (%s): every such call fails' % (
                    lang, show(lhs), t[1], t[2]),
                expected='a formula', found='raise %s: %s' % (t[1], t[2])))
        if terms and not raises:
            r2.ok()
        for t in terms:
            generic = (_to_holes(lhs) == t)
            if generic and name not in ('A', 'E') and lang != 'CTL' or \
                    (generic and lang == 'CTL' and
                     name.split('/')[0] in ('Not', 'Or', 'And', 'Imply')):
                # congruence step: same operator over the rewritten children
                desc2 = dict(desc)
                desc2['validity'] = 'congruence (same operator over ' \
                                    'rewritten children)'
                r4.inst(**desc2)
                r4.ok()
                continue
            key = (f.short(), show(lhs), show(t))
            state_holes = (lang == 'CTL')
            try:
                d = decide_fair(lhs, t, tier, state_holes)
            except oracle.NotEvaluable as e:
                raise Inconclusive('R-F-4', 'cannot evaluate %s => %s: %s' % (
                    show(lhs), show(t), e), f.where())
            desc2 = dict(desc)
            desc2['validity'] = d['verdict'] + ': ' + d.get('how', '')
            r4.inst(**desc2)
            if d['verdict'] == 'bounded':
                r4.ok()
            else:
                if key in seen:
                    continue
                seen.add(key)
                r4.fail(Finding(
                    PROP, 'R-F-4', f.where(), f.short(),
                    '%s => %s' % (show(lhs), show(t)),
                    '%s fair rewrite rule  %s  =>  %s  does not agree with '
                    'the fair semantics (A/E over fair paths, atoms = p and '
                    'fair)' % (lang, show(lhs), show(t)),
                    expected='same states', found='countermodel', extra=d))
    return r2, r4


# ---------------------------------------------------------------------------
# R-F-3 / R-F-5
# ---------------------------------------------------------------------------

class _EntryHooks(TemplateHooks, GraphHooks):
    """interpret a modelcheck entry point; everything else is a recorded
    call, except the language-level rewriters on generic terms"""

    def __init__(self, prog, entry):
        TemplateHooks.__init__(self, prog, 'get_equivalent_restricted_formula')
        self.graph_init(prog)
        self.entry = entry

    fair_arg = None

    def inline(self, I, fi, args):
        if fi is self.entry or fi.qn in prologue_helpers(self.entry):
            return True
        # a private helper next to the entry that receives the fairness
        # constraints: the fairness handling has been moved into it
        if self.fair_arg is not None and is_private_helper(fi, self.entry) \
                and any(a == self.fair_arg for a in args) \
                and not any(f is fi for f in I.stack):
            return True
        return False

    def call(self, I, fv, args, kw, path, node):
        if isinstance(fv, FRef) and fv.fi is self.lnot and len(args) == 1:
            return [(path, self.summ_lnot(I, args[0], path))]
        return None


def tableau_alphabet(prog):
    """operators accepted by the closure function of the LTL tableau: read
    from the isinstance dispatch of the function that raises the 'restricted'
    TypeError"""
    import ast
    mod = prog.module('LTL.model_checking')
    best = None
    for fi in mod.funcs.values():
        names = set()
        has_raise = False
        for n in ast.walk(fi.node):
            if isinstance(n, ast.Call) and isinstance(n.func, ast.Name) and \
                    n.func.id == 'isinstance' and len(n.args) == 2:
                cl = n.args[1].elts if isinstance(n.args[1], ast.Tuple) \
                    else [n.args[1]]
                for ce in cl:
                    c = prog.eval_static(mod, ce)
                    if isinstance(c, ClassInfo):
                        names.add(c.name)
            if isinstance(n, ast.Raise):
                has_raise = True
        if has_raise and {'X', 'U', 'Or', 'Not'} <= names:
            best = (fi, names)
    if best is None:
        raise AnalysisError('closure function of the LTL tableau not found')
    return best


def rule_f35(prog):
    r3 = RuleResult('R-F-3', 'with F given, the formula reaching the LTL '
                    'tableau uses only operators its closure accepts')
    r5 = RuleResult('R-F-5', 'F is None: no fairness code on the path; '
                    'F given: fairness acts on a clone')
    closure_fn, accepted = tableau_alphabet(prog)
    for lang in ('CTL', 'LTL', 'CTLS'):
        f = prog.func('%s.model_checking.modelcheck' % lang)
        for Fval, label in ((Const(None), 'F=None'),
                            (Sym('F', ('b', 'list')), 'F given')):
            hooks = _EntryHooks(prog, f)
            if isinstance(Fval, Sym):
                hooks.fair_arg = Fval
            I = Interp(prog, hooks, rule='R-F-3')
            path = I.new_path()
            al = prog.alphabet(LANGS[lang])
            if lang == 'LTL':
                formula = New(al['A'], [make_hole(prog, 0, lang)])
            else:
                formula = Sym('formula', ('inst',
                                          prog.cls('CTLS.language.Formula')))
            K = Sym('kripke', ('inst', prog.cls('kripke.Kripke')))
            res = I.call_function(FRef(f), [K, formula, Const(None), Fval],
                                  [], path, f.node)
            nret = 0
            for (p, v) in res:
                if isinstance(v, Raise):
                    continue
                nret += 1
                fair_calls = [e for e in p.log if _is_fair_event(e)]
                desc = dict(entry=f.short(), case=label,
                            fairness_calls=[_ev_name(e) for e in fair_calls])
                r5.inst(**desc)
                if label == 'F=None':
                    if fair_calls:
                        r5.fail(Finding(
                            PROP, 'R-F-5', f.where(), f.short(),
                            'fair-code-without-F:' + _ev_name(fair_calls[0]),
                            '%s.modelcheck with F=None still runs fairness '
                            'code: %s' % (lang, _ev_name(fair_calls[0]))))
                    else:
                        r5.ok()
                else:
                    delegated = [e for e in p.log if e.kind == 'call' and
                                 any(a == Fval for a in (e.args[0] if e.args
                                                         else ()))]
                    if not fair_calls and delegated:
                        # F is handed to a routine that is not interpreted
                        raise Inconclusive(
                            'R-F-5', '%s.modelcheck hands F to %r' % (
                                lang, delegated[0].target), f.where())
                    if not fair_calls:
                        r5.fail(Finding(
                            PROP, 'R-F-5', f.where(), f.short(),
                            'F-ignored', '%s.modelcheck ignores F on a '
                            'returning path' % lang))
                    else:
                        r5.ok()
                    # labelling must act on a clone of the argument
                    for e in fair_calls:
                        if _ev_name(e) == 'label_fair_states':
                            tgt = e.target
                            ok = _is_clone_of(tgt, K)
                            if ok:
                                r5.ok()
                            else:
                                r5.fail(Finding(
                                    PROP, 'R-F-5', I.where(e.node, f.module),
                                    f.short(), 'label-on-argument',
                                    '%s.modelcheck labels fair states on %r, '
                                    'not on a clone of its argument' % (
                                        lang, tgt)))
                # LTL: what reaches the tableau
                if lang == 'LTL':
                    core = [e for e in p.log if e.kind == 'call' and
                            isinstance(e.target, FRef) and
                            e.target.fi.module is f.module]
                    for e in core:
                        args = e.args[0]
                        pf = args[1] if len(args) > 1 else None
                        top = _abstract_alphabet(pf, prog)
                        bad = sorted(t for t in top if t not in accepted)
                        r3.inst(entry=f.short(), case=label,
                                core=e.target.fi.short(),
                                formula=_pshow(pf), accepted=sorted(accepted))
                        if bad:
                            r3.fail(Finding(
                                PROP, 'R-F-3', I.where(e.node, f.module),
                                f.short(), 'tableau-alphabet:' + ','.join(bad),
                                'LTL.modelcheck (%s) hands %s to the tableau, '
                                'whose closure (%s) accepts only %s: operator '
                                '%s raises TypeError, i.e. every LTL call '
                                'with fairness constraints fails' % (
                                    label, _pshow(pf), closure_fn.short(),
                                    sorted(accepted), bad),
                                expected='operators within ' +
                                         str(sorted(accepted)),
                                found=_pshow(pf)))
                        else:
                            r3.ok()
            if nret == 0:
                raise Inconclusive('R-F-5', 'no returning path of %s (%s)' % (
                    f.short(), label), f.where())
    return r3, r5


FAIR_NAMES = ('label_fair_states', 'get_fair_states',
              'get_equivalent_non_fair_formula')


def _ev_name(e):
    if e.kind in ('mcall', 'mutate'):
        return e.name
    if e.kind == 'call' and isinstance(e.target, FRef):
        return e.target.fi.name
    if e.kind == 'call' and isinstance(e.target, Bound):
        return e.target.f.fi.name
    return str(e.name)


def _is_fair_event(e):
    return _ev_name(e) in FAIR_NAMES


def _is_clone_of(v, K):
    # value produced by K.clone()
    for x in walk(v):
        if isinstance(x, App) and x.op in ('call', 'mcall'):
            s = repr(x)
            if 'clone' in s and any(y == K for y in walk(x)):
                return True
    return False


def _top_symbols(v):
    """operator names that certainly occur in the formula value"""
    out = set()
    if isinstance(v, New) and isinstance(v.ci, ClassInfo):
        out.add(v.ci.name)
        for a in v.args:
            out |= _top_symbols(a)
    return out


RESTRICTED_LTL = {'Not', 'Or', 'X', 'U', 'AtomicProposition', 'Bool'}
FULL_LTL = RESTRICTED_LTL | {'And', 'Imply', 'F', 'G', 'R'}


def _abstract_alphabet(v, prog):
    """operators that may occur in the formula value (alphabet typestate):
    the restricting rewriter yields the restricted alphabet (R-RW-1), the
    fair rewriter keeps the operators and adds the conjunction of its atom
    rule, constructors add their own symbol"""
    if isinstance(v, New) and isinstance(v.ci, ClassInfo):
        out = {v.ci.name}
        for a in v.args:
            out |= _abstract_alphabet(a, prog)
        return out
    if isinstance(v, App) and v.op == 'LNot':
        return {'Not'} | _abstract_alphabet(v.args[0], prog)
    if isinstance(v, App) and v.op == 'mcall' and \
            isinstance(v.args[1], Const):
        m = v.args[1].v
        if m == 'get_equivalent_restricted_formula':
            return set(RESTRICTED_LTL)
        if m == 'get_equivalent_non_fair_formula':
            return _abstract_alphabet(v.args[0], prog) | {'And'}
        if m in ('subformula', 'clone'):
            return set(FULL_LTL)
    if isinstance(v, App) and v.op == 'call' and \
            isinstance(v.args[0], FRef) and \
            v.args[0].fi.name == 'subformula':
        return set(FULL_LTL)
    if isinstance(v, Sym) and v.meta and v.meta[0] in ('hole', 'rhole'):
        return set(FULL_LTL) if v.meta[0] == 'hole' else set(RESTRICTED_LTL)
    if isinstance(v, (Sym, Const)):
        return {'AtomicProposition'}          # a label used as an atom
    if isinstance(v, App) and v.op in ('mcall', 'call'):
        return {'AtomicProposition'} if 'label_fair_states' in repr(v) \
            else set(FULL_LTL)
    return set(FULL_LTL)


def _pshow(v):
    return repr(v)[:160]


def rule_f6(prog):
    """`for every F no call ... modifies K`: get_fair_states is a query; it
    writes nothing reachable from the structure or from F (no cache that a
    later call would read, no edit of a label set), and what it returns is
    not an object the structure or the caller's F keeps"""
    from .c07 import effects
    r = RuleResult('R-F-6', 'get_fair_states writes nothing reachable from '
                   'the structure or F and returns an object of its own')
    E = effects(prog)
    kc = prog.cls('kripke.Kripke')
    f = prog.method(kc, 'get_fair_states')
    if f is None:
        raise AnalysisError('Kripke.get_fair_states not found')
    s = E.summ.get(f.qn)
    if s is None or s.failed:
        raise Inconclusive('R-F-6', 'no effect summary for %s: %s' % (
            f.short(), s.failed if s else 'not analysed'), f.where())
    for i, n in enumerate(s.pnames):
        why = s.mutates.get(i)
        r.inst(function=f.short(), parameter=n, modified=bool(why),
               how=(why or [None])[0], result_aliases_it=i in s.ralias)
        if why:
            r.fail(Finding(
                PROP, 'R-F-6', f.where(), f.short(), 'writes:%s' % n,
                'get_fair_states modifies `%s`: %s -- a query on K leaves a '
                'trace that later calls (after the structure, F or the '
                'returned set have been changed) can observe' % (n, why[0]),
                expected='no write to the structure or to F',
                found=why[0]))
        else:
            r.ok()
        if i in s.ralias:
            r.fail(Finding(
                PROP, 'R-F-6', f.where(), f.short(), 'returns-alias:%s' % n,
                'the set returned by get_fair_states is (part of) `%s`: '
                'editing the result edits the structure / the constraints' %
                n))
        else:
            r.ok()
    if s.opaque:
        u = Inconclusive('R-F-6', 'get_fair_states hands its arguments to a '
                         'computed function value: %s' % (s.opaque[0],),
                         f.where())
        u.partial = r
        raise u
    return r


def run(prog, tier, seed):
    T = Attempts()
    r1 = T(rule_f1, prog, tier)
    r6 = T(rule_f6, prog)
    r2, r4 = T(rules_f24, prog, tier, _n=2)
    r3, r5 = T(rule_f35, prog, _n=2)
    expl = ('(1) get_fair_states is summarised by abstract interpretation as '
            'a closed term over the graph primitives (SCCs, reversal, '
            'reachability) and compared, on every total structure with <= 3 '
            'states and every F with <= 2 sets, with "states from which a '
            'path visits every set infinitely often". (2)/(4) every '
            'get_equivalent_non_fair_formula is interpreted on generic '
            'instances: it must return a formula (constructor arity/sort '
            'summaries) and the extracted rule must agree with the '
            'Clarke-Grumberg-Peled fair semantics on all small (K,F). '
            '(3) the formula handed to the LTL tableau under fairness stays '
            'within the alphabet of its closure function. (5) F=None runs no '
            'fairness code; F given labels a clone.')
    assumptions = ['fair semantics: fixpoint characterisation of CGP as '
                   'implemented in pmcv/oracle.py (Sem)',
                   'graph primitives as documented (C12/C13)',
                   'the Bool leaf rule (true -> true and fair) is not armed: '
                   'the cited definition does not say whether T is an atom',
                   'exactness of fair answers beyond these clauses is not '
                   'decided']
    from . import c19
    dep = adopt(T.results(T(c19.rule_res5, prog)), PROP,
                'the fair label must not capture an atom of the structure')
    # "no call modifies K": fairness labels are written into a clone; the
    # clone must not share label sets with K
    from . import c13, c14
    adj = T(c13.adjacency_field, prog)
    if adj:
        dep = dep + adopt(T.results(T(c14.rule_k4, prog, adj),
                                    T(c14.rule_k1, prog, adj)), PROP,
                          'the clone label_fair_states writes into')
    # a fair answer must be computed for the structure as it is now: no
    # table that survives the call (keyed by the object, not its content)
    from . import c07
    E = T(c07.effects, prog)
    if E is not None:
        dep = dep + adopt(T.results(T(c07.rule_pure4, prog, E)), PROP,
                          'no remembered fair structure')
    # with F given, CTL* formulas go through the eliminator of state
    # subformulas: the fairness label must reach every nested check
    from . import c03

    def _elim_fair(prog):
        D = c03.discover(prog)
        ra, rb = c03.rule_ctls12(prog, D, fair=True)
        rb.findings = [f for f in rb.findings if 'fair-label' in f.key]
        return rb
    dep = dep + adopt(T.results(T(_elim_fair, prog)), PROP,
                      'fair CTL*: nested state subformulas are checked under '
                      'the same fairness label')
    return T.results(r1, r2, r4, r3, r5, r6) + dep, expl, assumptions, \
        T.extra()
