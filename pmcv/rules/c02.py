"""C02 -- LTL model checking is exact (partial).

R-LTL-1 A g is computed as the complement of E(not g): odd negation parity
        on the formula and one complement w.r.t. the states
R-LTL-2 closure: per formula kind the members pushed are those of the
        Clarke-Grumberg-Peled closure; other kinds raise TypeError
R-LTL-3 atom decision completeness and local consistency of the atom
        builder, per formula kind, for the atom processed and every atom
        forked from it
R-LTL-4 guards: edges respect X-formulas; self-fulfilling non-trivial SCC;
        answer = states of atoms containing the formula that reach such an
        SCC (extracted summaries evaluated on small instances)
"""
import ast
import itertools

from ..program import AnalysisError, Inconclusive, ClassInfo, ExtClass
from ..values import (Const, Sym, CRef, FRef, MRef, Bound, BoundB, Obj, Tup,
                      App, New, Raise, Coll, Part, walk, V)
from ..interp import Interp, Hooks, prologue_helpers
from ..formulas import FormulaHooks, LANGS
from ..templates import TemplateHooks, make_hole, to_term, show
from ..galg import (GraphHooks, Evaluator, evaluate_set, deep_snapshot,
                    all_graphs, all_subsets, NotEvaluable, GraphError, CG,
                    g_sccs, g_reach, g_reversed, _freeze)
from ..fields import height_field
from ..report import Finding, RuleResult, floor, Attempts, adopt

PROP = 'C02'
STATE_FIELD = ['state']     # name of the state field of a tableau atom


# ---------------------------------------------------------------------------
# discovery
# ---------------------------------------------------------------------------

class Parts(object):
    pass


def _test_calls(fnode, mod):
    """functions of the module called where a truth value is wanted: the
    test of an `if` / `while` / conditional expression or the filter of a
    comprehension (possibly under `not`)"""
    out = []
    tests = []
    for n in ast.walk(fnode):
        if isinstance(n, (ast.If, ast.While, ast.IfExp)):
            tests.append(n.test)
        elif isinstance(n, ast.comprehension):
            tests.extend(n.ifs)
    todo = list(tests)
    while todo:
        t = todo.pop(0)
        while isinstance(t, ast.UnaryOp) and isinstance(t.op, ast.Not):
            t = t.operand
        if isinstance(t, ast.BoolOp):
            todo = list(t.values) + todo
            continue
        if isinstance(t, ast.Call) and isinstance(t.func, ast.Name) and \
                t.func.id in mod.funcs:
            out.append(mod.funcs[t.func.id])
    return out


def discover(prog):
    P = Parts()
    mod = prog.module('LTL.model_checking')
    P.mod = mod
    P.entry = prog.func('LTL.model_checking.modelcheck')

    def calls_in(fnode):
        out = []
        for n in ast.walk(fnode):
            if isinstance(n, ast.Call) and isinstance(n.func, ast.Name):
                if n.func.id in mod.funcs:
                    out.append(mod.funcs[n.func.id])
                elif n.func.id in mod.classes:
                    out.append(mod.classes[n.func.id])
        return out
    core = [c for c in calls_in(P.entry.node) if hasattr(c, 'node') and
            not isinstance(c, ClassInfo)]
    if len(core) != 1:
        # prologue helpers (parsing, fairness set-up) next to the
        # E-procedure: the latter is the callee that builds the tableau
        # (instantiates a class of the module)
        core = [c for c in core if any(isinstance(x, ClassInfo)
                                       for x in calls_in(c.node))]
        core = [c for i, c in enumerate(core) if c not in core[:i]]
    if len(core) != 1:
        raise Inconclusive('R-LTL', 'E-procedure of LTL.modelcheck not '
                           'unique: %r' % core, P.entry.where())
    P.eproc = core[0]
    P.tableau = None
    P.sccfilter = None
    P.closure = None
    for c in calls_in(P.eproc.node):
        if isinstance(c, ClassInfo):
            P.tableau = c
    for fn in _test_calls(P.eproc.node, mod):
        P.sccfilter = fn
    if P.tableau is None or P.sccfilter is None:
        raise Inconclusive('R-LTL', 'tableau class / SCC filter not found',
                           P.eproc.where())
    tinit = prog.method(P.tableau, '__init__', own=True)
    P.tinit = tinit
    P.atoms_fn = None
    P.edge_pred = None
    cands = []
    for c in calls_in(tinit.node):
        if isinstance(c, ClassInfo):
            continue
        src = ast.unparse(c.node)
        if 'sorted(' in src or '.sort(' in src:
            cands.append(c)
    # the atom builder also makes the atoms (instantiates a class of the
    # module); another helper that happens to sort something does not
    makers = [c for c in cands if any(isinstance(x, ClassInfo)
                                      for x in calls_in(c.node))]
    if makers:
        P.atoms_fn = makers[-1]
    elif cands:
        P.atoms_fn = cands[-1]
    for fn in _test_calls(tinit.node, mod):
        P.edge_pred = fn
    from .c15 import tableau_alphabet
    P.closure, P.accepted = tableau_alphabet(prog)
    if P.atoms_fn is None or P.edge_pred is None:
        raise Inconclusive('R-LTL', 'atom builder / edge predicate not '
                           'found', tinit.where())
    # atom class: the class instantiated by the atom builder
    P.atomcls = None
    for c in calls_in(P.atoms_fn.node):
        if isinstance(c, ClassInfo):
            P.atomcls = c
    if P.atomcls is None:
        raise Inconclusive('R-LTL', 'atom class not found',
                           P.atoms_fn.where())
    # the field of an atom that holds its state: filled by the atom class's
    # constructor from its first argument
    ainit = prog.method(P.atomcls, '__init__', own=True)
    if ainit is not None:
        from ..fields import _attr_assigned_from_param
        nm = _attr_assigned_from_param(ainit, 1)
        if nm:
            STATE_FIELD[0] = nm
    # the field of the tableau that holds the atoms: T.<F>[i] in the SCC
    # filter (T its first parameter)
    P.atoms_field = 'atoms'
    tpar = P.sccfilter.node.args.args[0].arg
    for n in ast.walk(P.sccfilter.node):
        if isinstance(n, ast.Subscript) and \
                isinstance(n.value, ast.Attribute) and \
                isinstance(n.value.value, ast.Name) and \
                n.value.value.id == tpar:
            P.atoms_field = n.value.attr
    return P


# ---------------------------------------------------------------------------
# formula kinds of the restricted LTL alphabet
# ---------------------------------------------------------------------------

def kinds(prog):
    """(name, value, children)"""
    al = prog.alphabet('LTL.language')
    h = [make_hole(prog, i, 'LTL') for i in range(3)]
    K = []
    K.append(('true', New(al['Bool'], (Const(True),)), []))
    K.append(('false', New(al['Bool'], (Const(False),)), []))
    K.append(('atom', New(al['AtomicProposition'],
                          (Sym('apname', ('b', 'str'), ('apname',)),)), []))
    K.append(('Or', New(al['Or'], (h[0], h[1])), [h[0], h[1]]))
    # Or is n-ary (the parser builds `a or b or c` as one node)
    K.append(('Or3', New(al['Or'], (h[0], h[1], h[2])),
              [h[0], h[1], h[2]]))
    K.append(('X', New(al['X'], (h[0],)), [h[0]]))
    K.append(('notX', New(al['Not'], (New(al['X'], (h[0],)),)), [h[0]]))
    K.append(('U', New(al['U'], (h[0], h[1])), [h[0], h[1]]))
    K.append(('not', New(al['Not'], (h[0],)), [h[0]]))
    K.append(('nottrue', New(al['Not'], (New(al['Bool'],
                                             (Const(True),)),)), []))
    return K, al


_ATOM_MUTATORS = ('discard', 'remove', 'clear', 'pop', 'difference_update',
                  'intersection_update', 'symmetric_difference_update',
                  '__iand__', '__isub__', '__ixor__')


class LTLHooks(TemplateHooks, GraphHooks):
    """formula terms with structural equality; atoms of the tableau are
    sets with a symbolic remainder"""

    def __init__(self, prog, atomcls, entry_fn):
        TemplateHooks.__init__(self, prog,
                               'get_equivalent_restricted_formula')
        self.graph_init(prog)
        self.check_sorts = False
        self.atomcls = atomcls
        self.entry_fn = entry_fn
        self.atoms = []          # oids of atom objects created

    def inline(self, I, fi, args):
        return True

    # -- formula equality -----------------------------------------------
    def call(self, I, fv, args, kw, path, node):
        if isinstance(fv, Bound) and fv.f.fi.name in ('__eq__', '__ne__') \
                and isinstance(fv.recv, New) and len(args) == 1:
            r = self.feq(fv.recv, args[0])
            if r is not None:
                return [(path, Const(r if fv.f.fi.name == '__eq__'
                                     else not r))]
            c = App('feq', fv.recv, args[0])
            return [(path, c if fv.f.fi.name == '__eq__'
                     else App('not', c))]
        if isinstance(fv, Bound) and fv.f.fi.name == '__hash__' and \
                isinstance(fv.recv, New):
            return [(path, App('hash', fv.recv))]
        # atoms
        if isinstance(fv, BoundB) and self.is_atom(fv.recv, path):
            return self.atom_method(I, fv.recv, fv.name, args, path, node)
        if isinstance(fv, Bound) and self.is_atom(fv.recv, path) and \
                fv.f.fi.owner is self.atomcls:
            r = self.atom_method(I, fv.recv, fv.f.fi.name, args, path, node)
            if r is not None:
                return r
        r = TemplateHooks.call(self, I, fv, args, kw, path, node)
        if r is not None:
            return r
        return self.graph_call(I, fv, args, kw, path, node)

    def feq(self, a, b):
        """structural equality of formula terms; None when a hole decides"""
        if isinstance(a, New) and isinstance(b, New):
            if a.ci.name != b.ci.name or len(a.args) != len(b.args):
                return False
            res = True
            for x, y in zip(a.args, b.args):
                r = self.feq(x, y)
                if r is False:
                    return False
                if r is None:
                    res = None
            return res
        if isinstance(a, Const) and isinstance(b, Const):
            return a == b
        if a == b:
            return True
        if isinstance(a, New) != isinstance(b, New):
            # a hole against a constructed term: the hole may be that term
            return None
        return None

    # -- atoms ----------------------------------------------------------------
    def is_atom(self, v, path):
        return isinstance(v, Obj) and v.oid in path.heap and \
            path.heap[v.oid].kind == 'inst' and \
            path.heap[v.oid].ci is self.atomcls

    def new_atom(self, I, path, state, members, rest):
        o = path.alloc('inst')
        h = path.heap[o.oid]
        h.ci = self.atomcls
        h.fields['$state'] = state
        h.fields[STATE_FIELD[0]] = state
        m = path.alloc('set')
        for x in members:
            path.heap[m.oid].parts.append(Part('elem', x))
        h.fields['$members'] = m
        h.fields['$rest'] = rest
        self.atoms.append(o.oid)
        return o

    def members(self, atom, path):
        h = path.heap[atom.oid]
        return [p.val for p in path.heap[h.fields['$members'].oid].parts]

    def atom_method(self, I, atom, name, args, path, node):
        h = path.heap[atom.oid]
        m = path.heap[h.fields['$members'].oid]
        if name == 'add' and len(args) == 1:
            if not any(self.feq(p.val, args[0]) is True for p in m.parts):
                m.parts.append(Part('elem', args[0]))
            return [(path, Const(None))]
        if name in ('__or__', '__ror__') and len(args) == 1:
            items = I.concrete_iter(args[0], path)
            if items is None:
                return None
            mem = [p.val for p in m.parts]
            for x in items:
                if not any(self.feq(y, x) is True for y in mem):
                    mem.append(x)
            return [(path, self.new_atom(I, path, h.fields['$state'], mem,
                                         h.fields['$rest']))]
        if name == 'clone' and not args:
            return [(path, self.new_atom(I, path, h.fields['$state'],
                                         [p.val for p in m.parts],
                                         h.fields['$rest']))]
        if name in ('update', '__ior__') and args:
            # atom.update([f, g]) / atom |= {f, g}: every member is added
            for a in args:
                items = I.concrete_iter(a, path)
                if items is None:
                    raise Inconclusive('R-LTL-3', 'atom.%s(%r): members not '
                                       'known' % (name, a),
                                       I.where(node) if node is not None
                                       else '')
                for x in items:
                    if not any(self.feq(p.val, x) is True for p in m.parts):
                        m.parts.append(Part('elem', x))
            return [(path, atom if name == '__ior__' else Const(None))]
        if name in _ATOM_MUTATORS:
            # a change of an atom the model of atoms cannot express: never
            # dropped silently
            raise Inconclusive('R-LTL-3', 'atom.%s(..) is not modelled' % name,
                               I.where(node) if node is not None else '')
        return None

    def contains(self, I, container, item, path, node):
        if self.is_atom(container, path):
            for x in self.members(container, path):
                r = self.feq(x, item)
                if r is True:
                    return [(path, Const(True))]
            rest = path.heap[container.oid].fields['$rest']
            return [(path, App('in', item, rest))]
        return None

    def getattr(self, I, v, name, path, node):
        if self.is_atom(v, path) and (name in ('add', 'clone', 'update',
                                               '__ior__') or
                                      name in _ATOM_MUTATORS):
            return BoundB(v, name)
        return TemplateHooks.getattr(self, I, v, name, path, node)

    def construct(self, I, ci, args, kw, path, node):
        if ci is self.atomcls:
            state = args[0] if args else Const(None)
            mem = []
            if len(args) > 1:
                items = I.concrete_iter(args[1], path)
                if items is None:
                    return None
                mem = items
            return [(path, self.new_atom(I, path, state, mem,
                                         path.fresh('rest')))]
        return TemplateHooks.construct(self, I, ci, args, kw, path, node)

    def truth(self, I, val, path):
        if isinstance(val, App) and val.op == 'feq':
            return None
        return None


def lnot_term(hooks, t):
    return hooks.summ_lnot(None, t, None)


# ---------------------------------------------------------------------------
# R-LTL-3
# ---------------------------------------------------------------------------

def find_phi_loop(fn):
    """the `for phi in <sorted closure>` loop of the atom builder"""
    sorted_var = None
    for n in ast.walk(fn.node):
        if isinstance(n, ast.Assign) and isinstance(n.value, ast.Call) and \
                isinstance(n.value.func, ast.Name) and \
                n.value.func.id == 'sorted' and \
                isinstance(n.targets[0], ast.Name):
            sorted_var = n.targets[0].id
    for n in fn.node.body:
        if isinstance(n, ast.For) and isinstance(n.iter, ast.Name) and \
                n.iter.id == sorted_var:
            return n, sorted_var
        if isinstance(n, ast.For) and isinstance(n.iter, ast.Call) and \
                isinstance(n.iter.func, ast.Name) and \
                n.iter.func.id == 'sorted':
            return n, None
    raise Inconclusive('R-LTL-3', 'loop over the sorted closure not found',
                       fn.where())


def rule_ltl3(prog, P):
    r = RuleResult('R-LTL-3', 'atom builder: after processing a closure '
                   'member, every atom (also forked ones) holds exactly one '
                   'of phi / not phi, consistently with its operands')
    loop, _ = find_phi_loop(P.atoms_fn)
    phivar = loop.target.id
    params = [a.arg for a in P.atoms_fn.node.args.args]
    KS, al = kinds(prog)
    # name of the list of atoms: the variable returned
    ret = [n for n in ast.walk(P.atoms_fn.node) if isinstance(n, ast.Return)]
    if not ret or not isinstance(ret[-1].value, ast.Name):
        raise Inconclusive('R-LTL-3', 'atom builder does not return a '
                           'variable', P.atoms_fn.where())
    avar = ret[-1].value.id
    scen = []
    for (kname, phi, kids) in KS:
        scen.append((kname, phi, kids, 'fresh'))
        if kname == 'notX':
            scen.append((kname, phi, kids, 'phi-present'))
        if kname == 'U':
            scen.append((kname, phi, kids, 'notXphi-present'))
    for (kname, phi, kids, sc) in scen:
        hooks = LTLHooks(prog, P.atomcls, P.atoms_fn)
        I = Interp(prog, hooks, rule='R-LTL-3', max_paths=3000)
        path = I.new_path()
        fo = path.alloc('frame')
        fr = path.heap[fo.oid]
        fr.module = P.mod
        fr.fnode = P.atoms_fn.node
        K = Sym('K', ('inst', prog.cls('kripke.Kripke')))
        fr.vars[params[0]] = K
        fr.vars[params[1]] = Sym('closure', ('b', 'set'))
        state = Sym('state')
        rest = Sym('rest0')
        atom = hooks.new_atom(I, path, state, [], rest)
        A = I._mk_coll('list', [atom], path, None)
        fr.vars[avar] = A
        fr.vars[phivar] = phi
        neg = lnot_term(hooks, phi)
        # scenario `fresh`: neither phi nor its negation (nor, for U,
        # X phi / not X phi, which have a larger sort key) is in the atom
        # yet; operands are decided (loop invariant from the sort key)
        pre = [(App('in', phi, rest), False), (App('in', neg, rest), False)]
        Xphi = New(al['X'], (phi,))
        nXphi = New(al['Not'], (Xphi,))
        if kname == 'U':
            pre += [(App('in', Xphi, rest), False),
                    (App('in', nXphi, rest), sc == 'notXphi-present')]
        if kname == 'notX':
            # X psi is processed together with its negation
            xpsi = phi.args[0]
            pre = [(App('in', phi, rest), sc == 'phi-present'),
                   (App('in', xpsi, rest), False),
                   (App('in', New(al['X'], (App('LNot', kids[0]),)), rest),
                    False)]
        if kname == 'nottrue':
            pre = [(App('in', phi, rest), False),
                   (App('in', New(al['Bool'], (Const(True),)), rest), True)]
        path.pc.extend(pre)
        I.stack.append(P.atoms_fn)
        try:
            res = I.exec_block(loop.body, fo.oid, path)
        finally:
            I.stack.pop()
        npaths = 0
        for (p, sig) in res:
            if isinstance(sig, Raise):
                if sig.implicit:
                    continue
                r.fail(Finding(
                    PROP, 'R-LTL-3', I.where(sig.node, P.mod),
                    P.atoms_fn.short(), 'raise:' + kname,
                    'the atom builder raises %r while processing a %s '
                    'formula' % (sig.exc, kname)))
                continue
            # paths that contradict the operand invariant are infeasible
            if not _feasible(p, kids, hooks):
                continue
            if kname == 'not' and _assumes_x(p, kids):
                continue
            npaths += 1
            lst = p.heap[p.heap[fo.oid].vars[avar].oid]
            atoms = [q.val for q in lst.parts]
            for ai, a in enumerate(atoms):
                if not hooks.is_atom(a, p):
                    raise Inconclusive('R-LTL-3', 'non-atom in the atom '
                                       'list: %r' % (a,),
                                       P.atoms_fn.where())
                verdict = _check_atom(hooks, p, a, kname, phi, neg, kids,
                                      al, K, state)
                facts = _facts(p, rest)
                r.inst(kind=kname, scenario=sc, path=npaths, atom=ai,
                       members=[_fshow(prog, x) for x in hooks.members(a,
                                                                       p)],
                       assumed=[('' if pol else 'not ') + _fshow(prog, x)
                                for (x, pol) in facts
                                if (App('in', x, rest), pol) not in pre],
                       verdict=verdict or 'consistent')
                if verdict is None:
                    r.ok()
                else:
                    key = '%s:%s:%s' % (kname, sc, verdict.split(';')[0])
                    if any(f.key_text == key for f in r.findings):
                        r.obligations += 1
                        continue
                    r.fail(Finding(
                        PROP, 'R-LTL-3', P.atoms_fn.where(),
                        P.atoms_fn.short(), key,
                        'processing a %s formula phi = %s with %s, the atom '
                        'builder leaves an atom with members %s: %s. Such '
                        'an atom is not locally consistent and enters the '
                        'tableau (e.g. A G p on the one-state structure '
                        '{s:{p}, s->s} yields the empty set)' % (
                            kname, _fshow(prog, phi),
                            [('' if pol else 'not ') + _fshow(prog, x)
                             for (x, pol) in facts if (App('in', x, rest),
                                                       pol) not in pre],
                            [_fshow(prog, x) for x in hooks.members(a, p)],
                            verdict),
                        expected='exactly one of phi / not phi, justified '
                                 'by the operands'))
        if npaths == 0:
            raise Inconclusive('R-LTL-3', 'no feasible path for kind %s' %
                               kname, P.atoms_fn.where())
    floor('R-LTL-3', 'atoms checked', len(r.instances), 12)
    return r


def _facts(p, rest):
    out = []
    for (c, pol) in p.pc:
        if isinstance(c, App) and c.op == 'in' and c.args[1] == rest:
            out.append((c.args[0], pol))
    return out


def _fshow(prog, v):
    try:
        return show(to_term(v, prog))
    except Exception:
        return repr(v)[:60]


def _feasible(p, kids, hooks):
    """operands are decided: a path assuming both c and LNot(c) absent (or
    both present) contradicts the loop invariant"""
    rest_facts = {}
    for (c, pol) in p.pc:
        if isinstance(c, App) and c.op == 'in':
            rest_facts[c.args[0]] = pol
        if isinstance(c, App) and c.op == 'feq':
            # a hole equal to a constant term: a different kind
            if pol:
                return False
    for k in kids:
        nk = App('LNot', k)
        a, b = rest_facts.get(k), rest_facts.get(nk)
        if a is not None and b is not None and a == b:
            return False
    return True


def _assumes_x(p, kids):
    for (c, pol) in p.pc:
        if pol and isinstance(c, App) and c.op == 'isinstance' and \
                kids and c.args[0] == kids[0] and \
                isinstance(c.args[1], CRef) and c.args[1].ci.name == 'X':
            return True
    return False


def _member(hooks, p, atom, x):
    """True / False / None: x in atom, from explicit members and facts"""
    for y in hooks.members(atom, p):
        if hooks.feq(y, x) is True:
            return True
    rest = p.heap[atom.oid].fields['$rest']
    for (c, pol) in p.pc:
        if isinstance(c, App) and c.op == 'in' and c.args[1] == rest and \
                hooks.feq(c.args[0], x) is True:
            return pol
    return None


def _child(hooks, p, atom, c):
    """membership of an operand (decided by the invariant): True/False/None
    where None = not examined on this path"""
    m = _member(hooks, p, atom, c)
    if m is not None:
        return m
    n = _member(hooks, p, atom, App('LNot', c))
    if n is not None:
        return not n
    return None


def _assignments(hooks, p, atom, kids):
    """all memberships of the operands (each decided: c in a xor LNot(c) in
    a) that are consistent with the path condition"""
    rest = p.heap[atom.oid].fields['$rest']
    explicit = hooks.members(atom, p)

    def known(x):
        for y in explicit:
            if hooks.feq(y, x) is True:
                return True
        return None

    def ev(c, asg):
        """True / False / None (unconstrained)"""
        if isinstance(c, Const):
            return bool(c.v)
        if isinstance(c, App) and c.op == 'in' and c.args[1] == rest:
            x = c.args[0]
            for i, k in enumerate(kids):
                if hooks.feq(x, k) is True:
                    return asg[i]
                if hooks.feq(x, App('LNot', k)) is True or \
                        x == App('LNot', k):
                    return not asg[i]
            return None
        if isinstance(c, App) and c.op == 'not':
            r = ev(c.args[0], asg)
            return None if r is None else not r
        if isinstance(c, App) and c.op == 'or':
            rs = [ev(a, asg) for a in c.args]
            if any(r is True for r in rs):
                return True
            if all(r is False for r in rs):
                return False
            return None
        if isinstance(c, App) and c.op == 'and':
            rs = [ev(a, asg) for a in c.args]
            if any(r is False for r in rs):
                return False
            if all(r is True for r in rs):
                return True
            return None
        if isinstance(c, V) and any(x == rest for x in walk(c)):
            # a condition on the atom's remainder in a form that is not
            # interpreted: no verdict rather than "unconstrained"
            raise Inconclusive('R-LTL-3', 'condition on the atom not '
                               'interpreted: %r' % (c,), '')
        return None
    out = []
    for asg in itertools.product([True, False], repeat=len(kids)):
        ok = True
        for (c, pol) in p.pc:
            r = ev(c, asg)
            if r is not None and r != pol:
                ok = False
                break
        # explicit members override
        for i, k in enumerate(kids):
            if known(k) is True and not asg[i]:
                ok = False
            if known(App('LNot', k)) is True and asg[i]:
                ok = False
        if ok:
            out.append(asg)
    return out


def _atom_print_is_name(prog, phi):
    """None when an atomic proposition of phi's class prints as exactly its
    name on every path; a description when some path positively prints
    something else (a template with more than the name); Inconclusive when a
    path is not understood"""
    from ..printers import FormulaHooks
    ci = phi.ci
    f = prog.method(ci, '__str__')
    if f is None:
        return 'the class has no __str__'
    I = Interp(prog, FormulaHooks(prog, check_sorts=False), rule='R-LTL-3')
    path = I.new_path()
    res = I.call_function(FRef(f), [New(ci, phi.args)], [], path, f.node)
    res = [(p, v) for (p, v) in res if not isinstance(v, Raise)]
    if not res:
        return 'its printer never returns'
    name = phi.args[0]
    unknown = None
    for (p, v) in res:
        v = I.snapshot_deep(v, p)
        if v == name or v == App('str', name) or (
                isinstance(v, App) and v.op == 'fmt' and
                v.args[1] == Const('{}') and
                list(v.args[2].items) in ([name], [App('str', name)])):
            continue
        # a template that adds literal text around the name
        if isinstance(v, App) and v.op == 'fmt' and \
                isinstance(v.args[1], Const) and \
                isinstance(v.args[1].v, str) and \
                v.args[1].v.replace('{}', '', 1).replace('%s', '', 1) != '' \
                and \
                list(v.args[2].items) in ([name], [App('str', name)]):
            return 'on some path it prints as %r applied to the name' % (
                v.args[1].v,)
        if unknown is None:
            unknown = v
    if unknown is not None:
        raise Inconclusive('R-LTL-3', 'printed form of an atomic proposition '
                           'not understood: %s' % repr(unknown)[:100],
                           f.where())
    return None


def _check_atom(hooks, p, atom, kname, phi, neg, kids, al, K, state):
    has = _member(hooks, p, atom, phi) is True
    hasn = _member(hooks, p, atom, neg) is True
    if kname == 'nottrue':
        if has:
            return 'not true is a member'
        return None
    if has and hasn:
        return 'both phi and its negation are members'
    if not has and not hasn:
        return 'undecided; neither phi nor its negation is a member'
    if kname == 'true':
        return None if has else 'true is not a member'
    if kname == 'false':
        return None if hasn else 'false is a member'
    if kname == 'atom':
        lab = None
        key = None
        for (c, pol) in p.pc:
            if isinstance(c, App) and c.op == 'in' and \
                    isinstance(c.args[1], App) and \
                    c.args[1].op == 'labels':
                lab = pol
                key = c.args[0]
        if lab is not None:
            # what is looked up in the label set: the atom itself (found
            # through its hash / ==) or its name -- a label is a name
            name = phi.args[0] if isinstance(phi, New) and phi.args else None
            okkey = key == name or key == App('attr', phi, Const('name'))
            if not okkey and hooks.feq(key, phi) is True:
                # the formula object is looked up among the names: == and
                # hash of a formula are those of its printed form, so the
                # atom is found exactly when it prints as its name
                bad = _atom_print_is_name(hooks.prog, phi)
                if bad:
                    return ('the atomic proposition itself is looked up in '
                            'the labels of the state (found through the == / '
                            'hash of its printed form), and %s: an atom '
                            'whose printed form is not its name is never '
                            'found' % (bad,))
                okkey = True
            if not okkey:
                printed = isinstance(key, App) and key.op in ('str', 'fmt',
                                                              'repr') and \
                    any(x == phi or x == name for x in walk(key))
                if printed:
                    bad = _atom_print_is_name(hooks.prog, phi)
                    if bad:
                        return ('the labels of the state are searched for '
                                'the *printed form* of the atomic '
                                'proposition (%s), and %s: an atom whose '
                                'printed form is not its name is never '
                                'found' % (repr(key)[:60], bad))
                else:
                    raise Inconclusive('R-LTL-3', 'the labels are searched '
                                       'for %r' % (key,), '')
        if lab is None:
            return 'membership of an atomic proposition is not decided by ' \
                   'the labels of the state'
        return None if lab == has else \
            'atomic proposition decided against the labels of the state'
    if kname in ('X', 'not'):
        return None
    if kname == 'notX':
        xpsi = phi.args[0]
        xneg = New(al['X'], (App('LNot', kids[0]),))
        hx = _member(hooks, p, atom, xpsi) is True
        hxn = _member(hooks, p, atom, xneg) is True
        if has == hx:
            return 'not X psi and X psi are %s members' % (
                'both' if has else 'neither')
        if has != hxn:
            return 'not X psi %s a member but X(not psi) %s' % (
                'is' if has else 'is not', 'is' if hxn else 'is not')
        return None
    asgs = _assignments(hooks, p, atom, kids)
    if kname in ('Or', 'Or3'):
        for asg in asgs:
            want = any(asg)
            if want != has:
                return 'disjunction %s a member while its operands are ' \
                       '%s' % ('is' if has else 'is not',
                               ['in' if x else 'out' for x in asg])
        return None
    if kname == 'U':
        Xphi = New(al['X'], (phi,))
        nXphi = New(al['Not'], (Xphi,))
        hX = _member(hooks, p, atom, Xphi) is True
        hnX = _member(hooks, p, atom, nXphi) is True
        for (c0, c1) in asgs:
            if has:
                if not (c1 or (c0 and hX)):
                    return 'phi = c0 U c1 is a member with c0 %s, c1 %s ' \
                           'and X phi %s a member' % (
                               'in' if c0 else 'out', 'in' if c1 else 'out',
                               'is' if hX else 'is not')
            else:
                if c1:
                    return 'not(c0 U c1) is a member with c1 in'
                if c0 and not hnX:
                    return 'not(c0 U c1) is a member with c0 in, c1 out ' \
                           'but not X phi is not a member'
        return None
    return None


# ---------------------------------------------------------------------------
# R-LTL-0  height invariant behind the sort key of the atom builder
# ---------------------------------------------------------------------------

def rule_ltl0(prog, P):
    r = RuleResult('R-LTL-0', 'height invariant: an operator is strictly '
                   'higher than each of its operands (the atom builder '
                   'processes closure members by height)')
    from ..formulas import signatures, new_instance
    sigs = signatures(prog)['LTL']
    # the key under which the closure is sorted: a lambda or a function of
    # the module, given to sorted(...) / .sort(...)
    keyok = False
    lam = None
    keyfn = None
    nsort = 0
    for n in ast.walk(P.atoms_fn.node):
        if isinstance(n, ast.Call) and (
                (isinstance(n.func, ast.Name) and n.func.id == 'sorted') or
                (isinstance(n.func, ast.Attribute) and
                 n.func.attr == 'sort')):
            nsort += 1
            for kw in n.keywords:
                if kw.arg != 'key':
                    continue
                if isinstance(kw.value, ast.Lambda):
                    lam = kw.value
                elif isinstance(kw.value, ast.Name) and \
                        kw.value.id in P.mod.funcs:
                    keyfn = P.mod.funcs[kw.value.id]
                else:
                    raise Inconclusive('R-LTL-0', 'sort key %s' %
                                       ast.unparse(kw.value),
                                       P.atoms_fn.where())
    if nsort == 0:
        raise Inconclusive('R-LTL-0', 'the atom builder does not sort the '
                           'closure', P.atoms_fn.where())
    # semantics of the key: height, except `not X psi` which must be ranked
    # with `X psi` (height - 1) -- for LTL *and* CTL* classes (the CTL*
    # checker feeds CTL*-class formulas to this tableau)
    if lam is not None or keyfn is not None:
        from ..program import FuncInfo
        keyok = True
        for lang in ('LTL', 'CTLS'):
            al2 = prog.alphabet(LANGS[lang])
            h0 = make_hole(prog, 0, lang)
            h1 = make_hole(prog, 1, lang)
            cases = [('notX', New(al2['Not'], (New(al2['X'], (h0,)),)), -1),
                     ('X', New(al2['X'], (h0,)), 0),
                     ('U', New(al2['U'], (h0, h1)), 0),
                     ('Or', New(al2['Or'], (h0, h1)), 0),
                     ('notU', New(al2['Not'], (New(al2['U'], (h0, h1)),)), 0),
                     ('atom', New(al2['AtomicProposition'],
                                  (Const('p'),)), 0)]
            for (cn, val, off) in cases:
                hooks = LTLHooks(prog, P.atomcls, P.atoms_fn)
                I = Interp(prog, hooks, rule='R-LTL-0')
                path = I.new_path()
                fo = path.alloc('frame')
                path.heap[fo.oid].module = P.mod
                path.heap[fo.oid].fnode = P.atoms_fn.node
                if lam is not None:
                    fi = FuncInfo(P.mod, lam, None, qual='<sortkey>')
                    fi.name = '<lambda>'
                    res = I.call_function(FRef(fi, closure=fo.oid, node=lam),
                                          [val], [], path, lam)
                else:
                    res = I.call_function(FRef(keyfn), [val], [], path,
                                          keyfn.node)
                vals = [v for (p, v) in res if not isinstance(v, Raise)]
                want = App('height', val) if off == 0 else \
                    App('binop', Const('-'), App('height', val), Const(1))
                r.inst(sort_key_of='%s.%s' % (lang, cn),
                       value=[repr(v)[:80] for v in vals])
                if vals == [want]:
                    r.ok()
                else:
                    keyok = False
                    r.fail(Finding(
                        PROP, 'R-LTL-0', P.atoms_fn.where(),
                        P.atoms_fn.short(),
                        'sort-key:%s:%s' % (lang, cn),
                        'the sort key of a %s-class `%s` formula is %s, '
                        'expected height%s: `not X psi` is no longer '
                        'processed together with `X psi` (ties broken by '
                        'hash order build inconsistent atoms; CTL* '
                        'formulas reach this tableau with CTL* classes)' % (
                            lang, cn, [repr(v)[:80] for v in vals],
                            '' if off == 0 else ' - 1')))
    r.inst(function=P.atoms_fn.short(), sort_key_is_height=keyok)
    if keyok:
        r.ok()
    elif lam is None and keyfn is None:
        r.fail(Finding(PROP, 'R-LTL-0', P.atoms_fn.where(),
                       P.atoms_fn.short(), 'sort-key',
                       'the closure is sorted without a key: it is not '
                       'processed in order of height'))
    seen = set()
    for name, s in sorted(sigs.items()):
        if s.kind != 'op' or s.wrap.qn in seen and False:
            continue
        for n in (1, 2, 3):
            if s.max_arity is not None and n > s.max_arity:
                continue
            hooks = FormulaHooks(prog, check_sorts=False)
            I = Interp(prog, hooks, rule='R-LTL-0')
            path = I.new_path()
            me = new_instance(I, s.ci, path)
            ops = [Sym('f%d' % i, ('inst', s.required)) for i in range(n)]
            res = I.call_function(FRef(s.wrap), [me, Tup(ops),
                                                 CRef(s.required)], [], path,
                                  s.wrap.node)
            res = [(p, v) for (p, v) in res if not isinstance(v, Raise)]
            if len(res) != 1:
                raise Inconclusive('R-LTL-0', '%d paths through %s' % (
                    len(res), s.wrap.short()), s.wrap.where())
            p = res[0][0]
            hv = p.heap[me.oid].fields.get(height_field(prog))
            bad = None
            for hs in itertools.product((0, 1, 2), repeat=n):
                env = {App('attr', o, Const(height_field(prog))): h
                       for o, h in zip(ops, hs)}
                try:
                    got = Evaluator(env).ev(hv) if hv is not None else None
                except NotEvaluable as e:
                    raise Inconclusive('R-LTL-0', 'height of %s: %s' % (
                        name, e), s.wrap.where())
                if got != 1 + max(hs) and bad is None:
                    bad = (list(hs), got)
            r.inst(cls='LTL.' + name, operands=n, height=repr(hv)[:120])
            if bad:
                key = 'height:%s' % s.wrap.short()
                if key in seen:
                    r.obligations += 1
                    continue
                seen.add(key)
                r.fail(Finding(
                    PROP, 'R-LTL-0', s.wrap.where(), s.wrap.short(), key,
                    'an LTL.%s formula over operands of heights %s gets '
                    'height %s, expected %d: the atom builder then decides '
                    'it before one of its operands (order-dependent wrong '
                    'answers, e.g. A G ((p and q) or r))' % (
                        name, bad[0], bad[1], 1 + max(bad[0])),
                    expected='1 + max(heights of the operands)',
                    found=repr(hv)[:160]))
            else:
                r.ok()
    return r


# ---------------------------------------------------------------------------
# R-LTL-2
# ---------------------------------------------------------------------------

def rule_ltl2(prog, P):
    r = RuleResult('R-LTL-2', 'closure: members pushed per formula kind == '
                   'CGP closure rule; unsupported kinds raise TypeError')
    fn = P.closure
    wl = [n for n in fn.node.body if isinstance(n, ast.While)]
    if len(wl) != 1:
        raise Inconclusive('R-LTL-2', 'closure function has no single '
                           'while loop', fn.where())
    loop = wl[0]
    # names: the worklist (popped) and the result set (returned)
    popv = None
    for n in ast.walk(loop):
        if isinstance(n, ast.Call) and isinstance(n.func, ast.Attribute) \
                and n.func.attr == 'pop' and \
                isinstance(n.func.value, ast.Name):
            popv = n.func.value.id
    ret = [n for n in ast.walk(fn.node) if isinstance(n, ast.Return)]
    resv = ret[-1].value.id if ret and isinstance(ret[-1].value,
                                                  ast.Name) else None
    if popv is None or resv is None:
        raise Inconclusive('R-LTL-2', 'worklist / result variable not '
                           'found', fn.where())
    KS, al = kinds(prog)
    h = [make_hole(prog, i, 'LTL') for i in range(2)]
    extra = [('And', New(al['And'], (h[0], h[1])), None),
             ('F', New(al['F'], (h[0],)), None),
             ('G', New(al['G'], (h[0],)), None),
             ('R', New(al['R'], (h[0], h[1])), None),
             ('Imply', New(al['Imply'], (h[0], h[1])), None),
             # quantified subformulas are not LTL: the closure is the only
             # place where LTL.modelcheck(K, A(.. E ..)) is rejected
             ('A', New(al['A'], (h[0],)), None),
             ('E', New(prog.alphabet('CTLS.language')['E'], (h[0],)), None)]
    hooks0 = LTLHooks(prog, P.atomcls, fn)
    for (kname, phi, kids) in KS + extra:
        hooks = LTLHooks(prog, P.atomcls, fn)
        I = Interp(prog, hooks, rule='R-LTL-2')
        path = I.new_path()
        fo = path.alloc('frame')
        fr = path.heap[fo.oid]
        fr.module = P.mod
        fr.fnode = fn.node
        fr.vars[fn.node.args.args[0].arg] = phi
        # statements before the loop (Lang = ..., closure = set(), T = [..])
        pre = [s for s in fn.node.body if s is not loop and
               not isinstance(s, ast.Return)]
        I.stack.append(fn)
        try:
            res0 = I.exec_block(pre, fo.oid, path)
            if len(res0) != 1 or res0[0][1] is not None:
                raise Inconclusive('R-LTL-2', 'closure prologue', fn.where())
            res = I.exec_block(loop.body, fo.oid, res0[0][0])
        finally:
            I.stack.pop()
        res = [(p, s) for (p, s) in res
               if not (isinstance(s, Raise) and s.implicit)]
        res = [(p, s) for (p, s) in res
               if not any(isinstance(c, App) and c.op == 'feq' and pol
                          for (c, pol) in p.pc)]
        if kname == 'not':
            res = [(p, s) for (p, s) in res if not _assumes_x(p, kids)]
        if kids is None:
            ok = bool(res) and all(isinstance(s, Raise) and
                                   (I.exc_class(s.exc) or
                                    ExtClass('x')).name == 'TypeError'
                                   for (p, s) in res)
            r.inst(kind=kname, outcome='TypeError' if ok else 'accepted')
            if ok:
                r.ok()
            else:
                r.fail(Finding(
                    PROP, 'R-LTL-2', fn.where(), fn.short(),
                    'unsupported-accepted:' + kname,
                    'the closure accepts a %s formula (outside not/or/X/U) '
                    'instead of raising TypeError: the atom builder has no '
                    'rule for it' % kname))
            continue
        if len(res) != 1 or res[0][1] is not None:
            r.fail(Finding(
                PROP, 'R-LTL-2', fn.where(), fn.short(),
                'closure-paths:%s:%d' % (kname, len(res)),
                'the closure step for a %s formula has %d outcomes (%s)' % (
                    kname, len(res), [repr(s)[:60] for (_, s) in res])))
            continue
        p = res[0][0]
        f = p.heap[fo.oid]
        pushed = [q.val for q in p.heap[f.vars[popv].oid].parts]
        inres = [q.val for q in p.heap[f.vars[resv].oid].parts]
        want = [hooks0.summ_lnot(None, phi, None)]
        if kname == 'X':
            want.append(kids[0])
        elif kname == 'notX':
            want.append(New(al['X'], (App('LNot', kids[0]),)))
        elif kname in ('Or', 'Or3'):
            want.extend(kids)
        elif kname == 'U':
            want.extend(kids)
            want.append(New(al['X'], (phi,)))
        gotk = sorted(_fshow(prog, x) for x in pushed)
        wantk = sorted(_fshow(prog, x) for x in want)
        r.inst(kind=kname, pushed=gotk, expected=wantk,
               recorded=[_fshow(prog, x) for x in inres])
        okres = any(hooks0.feq(x, phi) is True for x in inres)
        if gotk == wantk and okres:
            r.ok()
        else:
            r.fail(Finding(
                PROP, 'R-LTL-2', fn.where(), fn.short(),
                'closure:%s:%s' % (kname, gotk),
                'for a %s formula the closure adds %s instead of %s%s' % (
                    kname, gotk, wantk,
                    '' if okres else ' and does not record the formula'),
                expected=wantk, found=gotk))
    floor('R-LTL-2', 'kinds', len(r.instances) + len(r.findings), 17)
    return r


# ---------------------------------------------------------------------------
# R-LTL-1
# ---------------------------------------------------------------------------

def rule_ltl1(prog, P):
    r = RuleResult('R-LTL-1', 'A g == complement of E(not g): odd negation '
                   'parity, one complement w.r.t. the states')
    f = P.entry

    class H(TemplateHooks, GraphHooks):
        def __init__(self):
            TemplateHooks.__init__(self, prog,
                                   'get_equivalent_restricted_formula')
            self.graph_init(prog)

        def inline(self, I, fi, args):
            return fi is f or fi.module.name.endswith('language') or \
                fi.qn in prologue_helpers(f)

        def call(self, I, fv, args, kw, path, node):
            if isinstance(fv, (BoundB,)) or (isinstance(fv, App) and
                                             fv.op == 'attr'):
                recv = fv.recv if isinstance(fv, BoundB) else fv.args[0]
                name = fv.name if isinstance(fv, BoundB) else fv.args[1].v
                if isinstance(recv, App) and recv.op == 'LNot' and \
                        name == self.method:
                    inner = recv.args[0]
                    if isinstance(inner, Sym) and inner.meta and \
                            inner.meta[0] == 'hole':
                        return [(path, App('LNot', Sym(
                            'r%d' % inner.meta[1], inner.typ,
                            ('rhole', inner.meta[1]))))]
            rr = TemplateHooks.call(self, I, fv, args, kw, path, node)
            if rr is not None:
                return rr
            return self.graph_call(I, fv, args, kw, path, node)
    hooks = H()
    I = Interp(prog, hooks, rule='R-LTL-1')
    path = I.new_path()
    al = prog.alphabet('LTL.language')
    h0 = make_hole(prog, 0, 'LTL')
    K = Sym('kripke', ('inst', prog.cls('kripke.Kripke')))
    res = I.call_function(FRef(f), [K, New(al['A'], (h0,)), Const(None),
                                    Const(None)], [], path, f.node)
    n = 0
    for (p, v) in res:
        if isinstance(v, Raise):
            continue
        n += 1
        snap = I.snapshot(v, p)
        ok_shape = isinstance(snap, Coll) and len(snap.parts) == 1 and \
            snap.parts[0].kind == 'spread' and \
            isinstance(snap.parts[0].val, App) and \
            snap.parts[0].val.op == 'setop' and \
            snap.parts[0].val.args[0] == Const('-')
        arg = None
        if ok_shape:
            left, right = snap.parts[0].val.args[1:]
            ok_left = isinstance(left, Coll) and all(
                q.kind == 'spread' and q.val == App('nodes', K)
                for q in left.parts) and bool(left.parts)
            ok_right = isinstance(right, App) and right.op == 'call' and \
                isinstance(right.args[0], FRef) and \
                right.args[0].fi is P.eproc
            if ok_right:
                arg = right.args[1].items[1]
        else:
            ok_left = ok_right = False
        parity = _neg_parity(arg) if arg is not None else None
        r.inst(returns=repr(snap)[:200], complement_of_states=ok_left,
               e_procedure=ok_right,
               formula_argument=repr(arg)[:100], negations=parity)
        if ok_shape and ok_left and ok_right:
            r.ok()
        else:
            r.fail(Finding(
                PROP, 'R-LTL-1', f.where(), f.short(), 'shape',
                'LTL.modelcheck does not return states(K) minus the result '
                'of the E-procedure: %r' % (snap,)))
            continue
        if parity is None:
            raise Inconclusive('R-LTL-1', 'formula handed to the '
                               'E-procedure: %r' % (arg,), f.where())
        if parity % 2 == 1:
            r.ok()
        else:
            r.fail(Finding(
                PROP, 'R-LTL-1', f.where(), f.short(),
                'parity:%d' % parity,
                'the E-procedure is given a formula with %d negation(s) '
                'relative to g: LTL.modelcheck(A g) computes the complement '
                'of E g instead of E not g' % parity,
                expected='odd', found=parity))
    if n == 0:
        raise Inconclusive('R-LTL-1', 'no returning path', f.where())
    return r


def _neg_parity(v):
    """number of negations applied to the (rewritten) hole"""
    n = 0
    while True:
        if isinstance(v, App) and v.op == 'LNot':
            n += 1
            v = v.args[0]
        elif isinstance(v, New) and v.ci.name == 'Not' and len(v.args) == 1:
            n += 1
            v = v.args[0]
        elif isinstance(v, App) and v.op == 'mcall' and \
                v.args[1] == Const('get_equivalent_restricted_formula'):
            v = v.args[0]
        elif isinstance(v, Sym) and v.meta and v.meta[0] in ('hole',
                                                             'rhole'):
            return n
        else:
            return None


# ---------------------------------------------------------------------------
# R-LTL-4
# ---------------------------------------------------------------------------

class FVal(tuple):
    """concrete formula for the evaluator: ('X', sub) / ('U', a, b) / ('p',)"""


class AtomVal(object):
    def __init__(self, state, members):
        self.state = state
        self.members = frozenset(members)

    def __contains__(self, x):
        return x in self.members

    def __iter__(self):
        return iter(self.members)


class LEval(Evaluator):
    def __init__(self, env, classes):
        Evaluator.__init__(self, env)
        self.classes = classes

    def op_mcall(self, recv, name, args):
        n = name.v
        v = self.ev(recv)
        a = [self.ev(x) for x in args.items]
        if n == 'subformula':
            return v[1 + a[0]]
        if n == 'subformulas':
            return tuple(v[1:])
        if n == '__iter__':
            return v
        raise NotEvaluable('method ' + n)

    def op_isinstance(self, v, c):
        x = self.ev(v)
        if isinstance(x, tuple) and x and isinstance(x[0], str):
            return x[0] == c.ci.name
        return False

    def op_binop(self, op, a, b):
        if op.v == '^':
            return bool(self.ev(a)) ^ bool(self.ev(b))
        return Evaluator.op_binop(self, op, a, b)

    def op_attr(self, x, name):
        k = App('attr', x, name)
        if k in self.env:
            return self.env[k]
        v = self.ev(x)
        if isinstance(v, AtomVal) and name.v == STATE_FIELD[0]:
            return v.state
        raise NotEvaluable('attribute %s' % name.v)

    def op_in(self, item, cont):
        c = self.ev(cont)
        return self.ev(item) in c

    def op_call(self, fv, args, kw=None):
        fns = self.env.get('$funcs', {})
        if isinstance(fv, FRef) and fv.fi.qn in fns:
            return fns[fv.fi.qn](*[self.ev(a) for a in args.items])
        raise NotEvaluable('call of %r' % (fv,))

    def op_inst(self, cref, oid, fields):
        d = {kv.items[0].v: kv.items[1] for kv in fields.items}
        if '$base' in d:
            return self.op_graph(d['$base'], d['$edges'], d['$nodes'],
                                 d.get('$sedges'))
        return Evaluator.op_inst(self, cref, oid, fields)


def rule_ltl4(prog, P):
    r = RuleResult('R-LTL-4', 'tableau guards and the answer filter '
                   '(extracted summaries on small instances)')
    # (a) edges respect X formulas
    f = P.edge_pred
    I = Interp(prog, Hooks(), rule='R-LTL-4')
    path = I.new_path()
    XS, S, D = Sym('Xs'), Sym('s_atom'), Sym('d_atom')
    res = I.call_function(FRef(f), [XS, S, D], [], path, f.node)
    fs = [('X', ('p',)), ('X', ('q',))]
    univ = [('p',), ('q',)] + fs
    subs = []
    for k in range(len(univ) + 1):
        for c in itertools.combinations(univ, k):
            subs.append(frozenset(c))
    bad = None
    nm = 0
    try:
        for xs in ([], [fs[0]], [fs[0], fs[1]]):
            for s in subs:
                for d in subs:
                    nm += 1
                    env = {XS: tuple(xs), S: s, D: d}
                    want = all((x in s) == (x[1] in d) for x in xs)
                    got = _eval_paths(res, LEval(env, None), I)
                    if got != want and bad is None:
                        bad = (xs, sorted(s), sorted(d), got, want)
    except NotEvaluable as e:
        raise Inconclusive('R-LTL-4', 'edge predicate not evaluable: %s' % e,
                           f.where())
    r.inst(function=f.short(), cases=nm)
    if bad:
        r.fail(Finding(
            PROP, 'R-LTL-4', f.where(), f.short(), 'edge-predicate',
            'tableau edge predicate: with X-formulas %s, source atom %s and '
            'target atom %s it answers %s, expected %s (an edge is kept iff '
            'for every X psi: X psi in source <=> psi in target)' % bad,
            expected=bad[4], found=bad[3]))
    else:
        r.ok()
    # (b) self fulfilling non trivial SCC
    f = P.sccfilter

    class GH(GraphHooks):
        def __init__(self):
            self.graph_init(prog)
    I = Interp(prog, GH(), rule='R-LTL-4')
    path = I.new_path()
    T = Sym('T', ('inst', P.tableau))
    C, CL = Sym('C', ('b', 'list')), Sym('closure', ('b', 'set'))
    res = I.call_function(FRef(f), [T, C, CL], [], path, f.node)
    # the filter only reads the tableau: its atoms are (sub)sets shared with
    # the procedure that later filters the answer by membership in them
    atom_is_set = any(getattr(c, 'name', None) in ('set', 'list', 'dict') or
                      (hasattr(c, 'attrs') and '__ior__' in c.attrs)
                      for c in P.atomcls.mro)
    for (p, v) in res:
        for e in p.log:
            tgt = e.target
            # a variable updated in a loop: the object it named when the
            # loop was entered (an in-place operator keeps the object)
            while isinstance(tgt, Sym) and tgt.meta and \
                    tgt.meta[0] == 'widened':
                tgt = tgt.meta[1]
            if e.kind in ('mutate', 'maybe-mutate') and atom_is_set and \
                    isinstance(tgt, App) and tgt.op == 'item' and \
                    tgt.args[0] == App('attr', T, Const(P.atoms_field)):
                r.fail(Finding(
                    PROP, 'R-LTL-4', I.where(e.node, f.module), f.short(),
                    'filter-mutates-atom:%s' % e.name,
                    'the self-fulfilling test applies an in-place operator '
                    '(%s) to a tableau atom (%s): the atom is a set, so it '
                    'is modified -- it absorbs the formulas of the other '
                    'atoms of its component, and the final filter `formula '
                    'in atom` then answers for the wrong atom' % (
                        e.name, repr(tgt)[:60]),
                    expected='the tableau is only read'),
                    witness=tgt.args[0])
                break
    U1 = ('U', ('p',), ('q',))
    forms = [('p',), ('q',), U1]
    asubs = []
    for k in range(len(forms) + 1):
        for c in itertools.combinations(forms, k):
            asubs.append(frozenset(c))
    bad = None
    nm = 0
    try:
        for n in (1, 2):
            for g in all_graphs(n):
                for atoms in itertools.product(asubs, repeat=n):
                    for Cs in ([0], [0, 1][:n]):
                        nm += 1
                        env = {T: g, C: tuple(Cs), CL: frozenset(forms),
                               App('attr', T, Const(P.atoms_field)):
                                   [AtomVal(i, a)
                                    for i, a in enumerate(atoms)]}
                        Fm = set()
                        for i in Cs:
                            Fm |= atoms[i]
                        nontriv = len(Cs) > 1 or Cs[0] in g.succ[Cs[0]]
                        # reject when f in F and f2 not in F; the case
                        # f not in F and f2 in F cannot occur for consistent
                        # atoms (don't care)
                        dontcare = (U1 not in Fm) and (('q',) in Fm)
                        want = nontriv and not (U1 in Fm and
                                                ('q',) not in Fm)
                        lo = hi = None
                        got = _eval_paths(res, LEval(env, None), I,
                                          choice=True)
                        if dontcare:
                            continue
                        if got != want and bad is None:
                            bad = (repr(g), [sorted(a) for a in atoms], Cs,
                                   got, want)
    except NotEvaluable as e:
        e2 = Inconclusive('R-LTL-4', 'SCC filter not evaluable: %s' % e,
                          f.where())
        e2.partial = r
        raise e2
    r.inst(function=f.short(), cases=nm)
    if bad:
        r.fail(Finding(
            PROP, 'R-LTL-4', f.where(), f.short(), 'self-fulfilling',
            'on tableau %s with atoms %s the component %s is classified %s, '
            'expected %s (non-trivial and every p U q it contains has q in '
            'it)' % bad, expected=bad[4], found=bad[3]))
    else:
        r.ok()
    # (c) answer filter of the E-procedure
    f = P.eproc

    class EH(GraphHooks):
        def __init__(self):
            self.graph_init(prog)

        def inline(self, I, fi, args):
            return fi is f

        def construct(self, I, ci, args, kw, path, node):
            if ci is P.tableau:
                return [(path, Sym('T', ('inst', P.tableau)))]
            return None

        def call(self, I, fv, args, kw, path, node):
            if isinstance(fv, FRef) and fv.fi is P.sccfilter:
                return [(path, App('in', I.snapshot(args[1], path),
                                   Sym('GOOD')))]
            if isinstance(fv, FRef) and fv.fi is P.closure:
                return [(path, Sym('closure'))]
            return self.graph_call(I, fv, args, kw, path, node)
    I = Interp(prog, EH(), rule='R-LTL-4')
    path = I.new_path()
    KR = Sym('kripke')
    PF = Sym('p_formula')
    res = I.call_function(FRef(f), [KR, PF], [], path, f.node)
    rets = [(p, v) for (p, v) in res if not isinstance(v, Raise)]
    if len(rets) != 1:
        raise Inconclusive('R-LTL-4', '%d returning paths of the '
                           'E-procedure' % len(rets), f.where())
    p, v = rets[0]
    term = deep_snapshot(I, v, p)
    bad = None
    nm = 0
    pf = ('p',)
    try:
        for n in (1, 2, 3):
            for g in all_graphs(n):
                if n == 3 and len(g.edges()) > 4:
                    continue
                sccs = g_sccs(g)
                for goodmask in itertools.product([False, True],
                                                  repeat=len(sccs)):
                    for am in itertools.product([False, True], repeat=n):
                        nm += 1
                        good = frozenset(tuple(sorted(c)) for c, m in
                                         zip(sccs, goodmask) if m)
                        atoms = [AtomVal('s%d' % (i % 2),
                                         [pf] if am[i] else [])
                                 for i in range(n)]
                        env = {T: g, Sym('GOOD'): _Goodset(good),
                               PF: pf,
                               App('attr', T, Const(P.atoms_field)): atoms}
                        seeds = set()
                        for c, m in zip(sccs, goodmask):
                            if m:
                                seeds |= set(c)
                        back = g_reach(g_reversed(g), seeds)
                        want = frozenset(atoms[i].state for i in back
                                         if am[i])
                        ev = LEval(env, None)
                        try:
                            got = _freeze(ev.ev(term))
                        except GraphError as e:
                            got = 'raises %s' % e
                        if got != want and bad is None:
                            bad = (repr(g), [sorted(c) for c in good],
                                   list(am), got if isinstance(got, str)
                                   else sorted(got), sorted(want))
    except NotEvaluable as e:
        raise Inconclusive('R-LTL-4', 'E-procedure summary not evaluable: '
                           '%s' % e, f.where())
    r.inst(function=f.short(), summary=repr(term)[:300], cases=nm)
    if bad:
        r.fail(Finding(
            PROP, 'R-LTL-4', f.where(), f.short(), 'answer-filter',
            'on tableau %s with accepted components %s and formula '
            'membership %s the E-procedure yields %s, expected %s (states '
            'of atoms that contain the formula and reach an accepted '
            'component)' % bad, expected=bad[4], found=bad[3]))
    else:
        r.ok()
    return r


def rule_ltl5(prog, P):
    r = RuleResult('R-LTL-5', 'tableau construction: one node per atom; an '
                   'edge between two atoms iff their states are joined by a '
                   'transition and the edge predicate holds')
    from .c14 import _KHooks
    mod = P.mod
    # the state index: the other module-level helper of the constructor
    helper = None
    for n in ast.walk(P.tinit.node):
        if isinstance(n, ast.Call) and isinstance(n.func, ast.Name) and \
                n.func.id in mod.funcs and mod.funcs[n.func.id] not in (
                    P.atoms_fn, P.edge_pred, P.closure):
            helper = mod.funcs[n.func.id]
    if helper is None:
        raise Inconclusive('R-LTL-5', 'state index helper not found',
                           P.tinit.where())
    # (a) the helper on unrolled symbolic instances
    bad = None
    nm = 0
    for n in range(0, 4):
        I = Interp(prog, Hooks(), rule='R-LTL-5')
        path = I.new_path()
        sts = [Sym('st%d' % i) for i in range(n)]
        atoms = []
        for i in range(n):
            o = path.alloc('inst')
            path.heap[o.oid].ci = P.atomcls
            path.heap[o.oid].fields['$state'] = sts[i]
            path.heap[o.oid].fields[STATE_FIELD[0]] = sts[i]
            atoms.append(o)
        lst = I._mk_coll('list', atoms, path, None)
        res = I.call_function(FRef(helper), [lst], [], path, helper.node)
        res = [(p, v) for (p, v) in res if not isinstance(v, Raise)]
        for asg in itertools.product([0, 1], repeat=n):
            nm += 1
            env = dict(zip(sts, asg))
            want = {}
            for i, sv in enumerate(asg):
                want.setdefault(sv, []).append(i)
            got = None
            for (p, v) in res:
                ev = LEval(env, None)
                ok = True
                for (c, pol) in p.pc:
                    if bool(ev.ev(deep_snapshot(I, c, p))) != pol:
                        ok = False
                        break
                if ok:
                    d = ev.ev(deep_snapshot(I, v, p))
                    got = {k: list(x) for k, x in d.items()}
                    break
            if got != want and bad is None:
                bad = (list(asg), got, want)
    r.inst(function=helper.short(), unrolled_lengths=[0, 1, 2, 3],
           assignments=nm)
    if bad:
        r.fail(Finding(
            PROP, 'R-LTL-5', helper.where(), helper.short(), 'state-index',
            'for atoms with states %s the state index is %s, expected %s' %
            bad, expected=bad[2], found=bad[1]))
    else:
        r.ok()

    # (b) the constructor
    class H(_KHooks):
        def __init__(self):
            self.graph_init(prog)
            self.interpret_init = False

        def inline(self, I, fi, args):
            return fi not in (P.atoms_fn, P.edge_pred, P.closure, helper)
    I = Interp(prog, H(), rule='R-LTL-5')
    path = I.new_path()
    o = path.alloc('inst')
    path.heap[o.oid].ci = P.tableau
    K = Sym('K', ('inst', prog.cls('kripke.Kripke')))
    CL = Sym('closure', ('b', 'set'))
    res = I.call_function(FRef(P.tinit), [o, K, Const(None), CL], [], path,
                          P.tinit.node)
    res = [(p, v) for (p, v) in res if not isinstance(v, Raise)]
    if len(res) != 1:
        raise Inconclusive('R-LTL-5', '%d paths through the tableau '
                           'constructor' % len(res), P.tinit.where())
    p = res[0][0]
    snap = deep_snapshot(I, o, p)
    atoms_call = App('call', FRef(P.atoms_fn), Tup([K, CL]), Tup(()))
    index_call = App('call', FRef(helper), Tup([atoms_call]), Tup(()))
    bad = None
    nm = 0

    def respects(a, b):
        return (('m',) in a) == (('n',) in b)
    memb = [frozenset(), frozenset([('m',)]), frozenset([('n',)]),
            frozenset([('m',), ('n',)])]
    try:
        for n in (1, 2):
            for g in all_graphs(n, total=True):
                for k in (1, 2, 3):
                    for sts in itertools.product(range(n), repeat=k):
                        for ms in itertools.product(memb[:3], repeat=k):
                            nm += 1
                            atoms = [AtomVal(s_, m_) for s_, m_ in
                                     zip(sts, ms)]
                            idx = {}
                            for i, a in enumerate(atoms):
                                idx.setdefault(a.state, []).append(i)
                            for s_ in g.nodes:
                                idx.setdefault(s_, [])
                            env = {K: g, CL: frozenset(),
                                   atoms_call: atoms, index_call: idx,
                                   '$adjfield': '_next',
                                   '$funcs': {P.edge_pred.qn:
                                              lambda xs, a, b: respects(a,
                                                                        b)}}
                            succ = {i: set() for i in range(k)}
                            for i in range(k):
                                for j in range(k):
                                    if sts[j] in g.succ[sts[i]] and \
                                            respects(atoms[i], atoms[j]):
                                        succ[i].add(j)
                            want = CG(range(k), succ)
                            ev = LEval(env, None)
                            try:
                                got = ev.ev(snap)
                            except GraphError as e:
                                got = 'raises %s' % e
                            if got != want and bad is None:
                                bad = (repr(g), list(sts),
                                       [sorted(m) for m in ms], repr(got),
                                       repr(want))
    except NotEvaluable as e:
        raise Inconclusive('R-LTL-5', 'tableau summary not evaluable: %s' %
                           e, P.tinit.where())
    r.inst(function=P.tinit.short(), summary=repr(snap)[:300], cases=nm)
    if bad:
        r.fail(Finding(
            PROP, 'R-LTL-5', P.tinit.where(), P.tinit.short(),
            'tableau-edges',
            'on K=%s with atoms on states %s (members %s) the tableau is '
            '%s, expected %s' % bad, expected=bad[4], found=bad[3]))
    else:
        r.ok()
    return r


class _Goodset(object):
    def __init__(self, good):
        self.good = good

    def __contains__(self, c):
        return tuple(sorted(c)) in self.good


def _eval_paths(res, ev, I, choice=False):
    """value returned on the path whose condition holds.  A summary that
    takes an arbitrary element (`next(iter(C))`) is evaluated under both
    resolutions of the choice (every candidate contributes / only what all
    candidates agree on); if they differ the answer depends on the element
    picked"""
    ev.choice_mode = 'union'
    a = _eval_paths1(res, ev, I, choice)
    if ev.choice_points:
        ev.choice_mode = 'inter'
        b = _eval_paths1(res, ev, I, choice)
        ev.choice_mode = 'union'
        if a != b:
            return 'depends on which element of the component is taken ' \
                   '(%r / %r)' % (a, b)
    return a


def _eval_paths1(res, ev, I, choice=False):
    for (p, v) in res:
        if isinstance(v, Raise):
            continue
        ok = True
        for (c, pol) in p.pc:
            if ev.is_marker(c):
                ok = False
                break
            c = deep_snapshot(I, c, p)
            try:
                val = bool(ev.ev(c))
            except Exception as e:
                if e.__class__.__name__ == 'NeedChoice':
                    # arbitrary element: try every choice, all must agree
                    val = _choice_eval(ev, c, e.sym)
                else:
                    raise
            if val != pol:
                ok = False
                break
        if ok:
            x = ev.ev(deep_snapshot(I, v, p))
            return x
    return None


def _choice_eval(ev, c, sym):
    src = list(ev.ev(sym.meta[1]))
    vals = set()
    for e in src:
        ev.env[sym] = e
        try:
            vals.add(bool(ev.ev(c)))
        finally:
            del ev.env[sym]
    if len(vals) != 1:
        raise NotEvaluable('choice dependent condition')
    return vals.pop()


def own_rules(prog, tier, T):
    """the rules about the LTL tableau procedure itself (also run by the
    checks of the properties that rely on the LTL checker)"""
    P = T(discover, prog)
    if P is None:
        T.skipped('R-LTL-0 .. R-LTL-5')
        return []
    from . import c01
    return T.results(*[T(fn, prog, P) for fn in (
        rule_ltl0, rule_ltl1, rule_ltl2, rule_ltl3, rule_ltl4, rule_ltl5)]) \
        + T.results(T(c01._text_atoms, prog, PROP))


def run(prog, tier, seed):
    T = Attempts()
    results = own_rules(prog, tier, T)
    expl = ('The parts of the LTL tableau procedure are discovered from '
            'LTL.modelcheck and analysed separately: (1) the E-procedure '
            'receives the path formula under an odd number of negations and '
            'its result is complemented w.r.t. the states; (2) one '
            'iteration of the closure worklist is interpreted per formula '
            'kind: the members pushed are those of the CGP closure, other '
            'kinds raise TypeError; (3) one iteration of the atom builder '
            'is interpreted per formula kind on a generic atom (membership '
            'facts as path conditions, operands decided by the sort-key '
            'invariant): afterwards the atom and every atom forked from it '
            'contain exactly one of phi / not phi, justified by their '
            'operands -- an undecided or unjustified atom is inconsistent '
            'and makes the answer wrong; (4) the edge predicate, the '
            'self-fulfilling-SCC filter and the answer filter are '
            'summarised and compared with their specification on all small '
            'instances. Not decided: tableau correctness over all inputs '
            '(soundness/completeness of the construction itself).')
    assumptions = ['sort-key invariant: members of smaller key are decided '
                   'when a member is processed',
                   'graph primitives as documented (C12/C13)',
                   'formulas compare by structure (C09/C11)']
    from . import c05, c11, c12, c13
    adj = T(c13.adjacency_field, prog)
    results = results + adopt(T.results(
        T(c12.rule_scc, prog), T(c12.rule_scc6, prog),
        T(c12.rule_scc9, prog),
        T(c13.rule_g12, prog, adj, _n=2) if adj else None,
        T(c13.rule_g3, prog, adj) if adj else None,
        T(c05.rule_rw3, prog), T(c11.rule_eq2, prog),
        # the tableau is built for the *restricted* formula: the rewriting
        # must keep the meaning (all connectives, every arity)
        T(c05.rules_rw12, prog, tier, _n=2)),
        PROP, 'relied on by the LTL tableau procedure')
    return results, expl, assumptions, T.extra()
