"""C11 -- formula equality, hashing and cloning are coherent (partial).

R-EQ-1 __eq__/__hash__ protocol coherence over the whole lattice
R-EQ-2 clone is a structure-preserving fresh rebuild
R-EQ-3 the key str(f) is injective (printer grammars of both notations LR(1))
"""
import ast

from ..program import AnalysisError, Inconclusive, ClassInfo, ExtClass
from ..values import (Const, Sym, CRef, FRef, Bound, BoundB, Obj, Tup, App,
                      New, Raise)
from ..interp import Interp, Hooks
from ..formulas import signatures, LANGS, FormulaHooks
from ..templates import extract, generic_instances, show, make_hole
from ..fields import bool_value_field
from ..report import Finding, RuleResult, floor, Attempts
from . import c09

PROP = 'C11'


class _EqHooks(FormulaHooks):
    def inline(self, I, fi, args):
        n = fi.name
        # the two methods and private helpers they are written with
        return n in ('__eq__', '__hash__') or (
            n.startswith('_') and not n.startswith('__') and
            fi.owner is not None)


def _prints_field(prog, ci, field, cache={}):
    """every returning path of the MRO-resolved __str__ of `ci` gives the
    text of self.<field> and nothing else"""
    k = (id(prog), ci.qn, field)
    if k in cache:
        return cache[k]
    cache[k] = False
    f = prog.method(ci, '__str__')
    if f is None:
        return False
    from ..printers import FormulaHooks
    I = Interp(prog, FormulaHooks(prog, check_sorts=False), rule='R-EQ-1')
    path = I.new_path()
    me = Sym('self', ('inst', ci))
    try:
        res = I.call_function(FRef(f), [me], [], path, f.node)
    except Inconclusive:
        return False
    res = [(p, v) for (p, v) in res if not isinstance(v, Raise)]
    fld = App('attr', me, Const(field))
    ok = bool(res)
    for (p, v) in res:
        v = I.snapshot(v, p)
        if v in (fld, App('str', fld)):
            continue
        if isinstance(v, App) and v.op == 'fmt' and \
                v.args[1] in (Const('{}'), Const('%s')) and \
                list(v.args[2].items) in ([fld], [App('str', fld)]):
            continue
        ok = False
    cache[k] = ok
    return ok


def _field_compare_is_print_compare(prog, ci, p, v, me, other):
    """path value `self.X == other.X` under isinstance(other, C) [and not
    isinstance(other, D)..]: equivalent to str(self) == str(other) when the
    printed form of self's class and of every formula class the guard admits
    is exactly the field X"""
    if not (isinstance(v, App) and v.op == 'cmp' and v.args[0] == Const('==')
            and isinstance(v.args[1], App) and v.args[1].op == 'attr' and
            isinstance(v.args[2], App) and v.args[2].op == 'attr'):
        return False
    a, b = v.args[1], v.args[2]
    if {a.args[0], b.args[0]} != {me, other} or a.args[1] != b.args[1]:
        return False
    field = a.args[1].v
    pos, neg = [], []
    for (c, pol) in p.pc:
        if isinstance(c, App) and c.op == 'isinstance' and \
                c.args[0] == other and isinstance(c.args[1], CRef):
            (pos if pol else neg).append(c.args[1].ci)
        elif isinstance(c, App) and c.op == 'implicit_exc':
            continue
        else:
            return False
    pos = [c for c in pos if isinstance(c, ClassInfo)]
    if not pos or any(not isinstance(c, ClassInfo) for c in neg):
        return False
    base = prog.cls('language.Formula')
    admitted = [S for S in prog.classes.values()
                if S.is_subclass_of(base) and
                all(S.is_subclass_of(c) for c in pos) and
                not any(S.is_subclass_of(d) for d in neg)]
    if not admitted or not _prints_field(prog, ci, field):
        return False
    return all(_prints_field(prog, S, field) for S in admitted)


def classify_eq(prog, ci):
    """-> ('str-key',) | ('bool-value',) | ('other', repr)"""
    f = prog.method(ci, '__eq__')
    if f is None:
        return ('identity',), None
    I = Interp(prog, _EqHooks(prog), rule='R-EQ-1')
    path = I.new_path()
    me = Sym('self', ('inst', ci))
    other = Sym('other')
    res = I.call_function(FRef(f), [me, other], [], path, f.node)
    res = [(p, v) for (p, v) in res if not isinstance(v, Raise)]
    vals = [v for (p, v) in res]
    strkey = App('cmp', Const('=='), App('str', me), App('str', other))
    if len(vals) == 1 and vals[0] == strkey:
        return ('str-key',), f
    if len(vals) > 1 and all(
            v == strkey or _field_compare_is_print_compare(prog, ci, p, v,
                                                           me, other)
            for (p, v) in res):
        # a branch that compares the one field the printed form consists of
        # (for every class the branch admits) is the same comparison
        return ('str-key',), f
    # Bool: value comparison against bool and against Bool, False otherwise
    kinds = set()
    boolc = prog.cls('language.Bool')
    for (p, v) in res:
        conds = [(c, pol) for (c, pol) in p.pc if isinstance(c, App) and
                 c.op == 'isinstance' and c.args[0] == other]
        pos = [c.args[1].ci for (c, pol) in conds if pol]
        if v == Const(False) and not pos:
            kinds.add('else-false')
        elif pos and isinstance(pos[0], ExtClass) and pos[0].name == 'bool' \
                and v == App('cmp', Const('=='),
                             App('attr', me, Const(bool_value_field(prog))), other):
            kinds.add('vs-bool')
        elif pos and isinstance(pos[0], ClassInfo) and \
                pos[0].is_subclass_of(boolc) and \
                v == App('cmp', Const('=='),
                         App('attr', me, Const(bool_value_field(prog))),
                         App('attr', other, Const(bool_value_field(prog)))):
            kinds.add('vs-Bool')
        else:
            kinds.add('other:%r under %r' % (v, p.pc))
    if kinds == {'else-false', 'vs-bool', 'vs-Bool'}:
        return ('bool-value',), f
    if _bool_eq_by_cases(prog, res, me, other, boolc):
        return ('bool-value',), f
    return ('other', sorted(kinds)), f


def _bool_eq_by_cases(prog, res, me, other, boolc):
    """the result of Bool.__eq__ for `other` a Bool / a bool / neither,
    whatever the control structure: value comparison, value comparison,
    False"""
    def simp(v, case):
        # truth of isinstance(other, X) in this case
        if isinstance(v, App) and v.op == 'isinstance' and \
                v.args[0] == other and isinstance(v.args[1], CRef):
            c = v.args[1].ci
            if isinstance(c, ExtClass):
                return Const(case == 'bool' and c.name in ('bool', 'int',
                                                            'object'))
            if isinstance(c, ClassInfo):
                return Const(case == 'Bool' and boolc.is_subclass_of(c)
                             and c.is_subclass_of(boolc) or
                             (case == 'Bool' and boolc.is_subclass_of(c)))
        if isinstance(v, App) and v.op in ('and', 'or'):
            xs = [simp(a, case) for a in v.args]
            if v.op == 'and':
                if any(x == Const(False) for x in xs):
                    return Const(False)
                xs = [x for x in xs if x != Const(True)]
            else:
                if any(x == Const(True) for x in xs):
                    return Const(True)
                xs = [x for x in xs if x != Const(False)]
            if not xs:
                return Const(v.op == 'and')
            return xs[0] if len(xs) == 1 else App(v.op, *xs)
        if isinstance(v, App) and v.op == 'not':
            x = simp(v.args[0], case)
            return Const(not x.v) if isinstance(x, Const) else App('not', x)
        return v
    want = {
        'Bool': [App('cmp', Const('=='), App('attr', me, Const(bool_value_field(prog))),
                     App('attr', other, Const(bool_value_field(prog))))],
        'bool': [App('cmp', Const('=='), App('attr', me, Const(bool_value_field(prog))),
                     other),
                 App('cmp', Const('=='), other,
                     App('attr', me, Const(bool_value_field(prog))))],
        'neither': [Const(False)]}
    for case in ('Bool', 'bool', 'neither'):
        vals = set()
        for (p, v) in res:
            feasible = True
            for (c, pol) in p.pc:
                t = simp(c, case)
                if isinstance(t, Const) and bool(t.v) != pol:
                    feasible = False
                    break
            if feasible:
                vals.add(simp(v, case))
        if len(vals) != 1 or list(vals)[0] not in want[case]:
            return False
    return True


def _positively_incoherent(ek, hk):
    """an unrecognised shape that nevertheless shows == and hash keyed on
    different things, or == comparing different things on its two sides"""
    txt = ' '.join(map(str, ek[1] if len(ek) > 1 else [])) + ' ' + \
        ' '.join(map(str, hk[1] if len(hk) > 1 else []))
    # identity-based on one side, printed form on the other
    if ek[0] == 'str-key' and hk[0] == 'other' and (
            'id(' in txt or "hash(attr" in txt or
            all(str(x).startswith("attr($self") for x in hk[1])):
        # == by printed form, hash from identity or from a stored field
        # (which does not follow the printed form when a subformula changes)
        return True
    if hk[0] == 'str-key' and ek[0] == 'other' and (
            "cmp(K('is')" in txt or 'id(' in txt or '__class__' in txt or
            'attr(' in txt):
        return True
    return False


def classify_hash(prog, ci):
    f = prog.method(ci, '__hash__')
    if f is None:
        return ('identity',), None
    I = Interp(prog, _EqHooks(prog), rule='R-EQ-1')
    path = I.new_path()
    me = Sym('self', ('inst', ci))
    res = I.call_function(FRef(f), [me], [], path, f.node)
    vals = [v for (p, v) in res if not isinstance(v, Raise)]
    if len(vals) == 1:
        v = vals[0]
        if v in (App('hash', App('str', me)),
                 App('mcall', App('str', me), Const('__hash__'), Tup(()))):
            return ('str-key',), f
        val = App('attr', me, Const(bool_value_field(prog)))
        if v in (App('hash', val),
                 App('mcall', val, Const('__hash__'), Tup(()))):
            return ('value-key',), f
    return ('other', [repr(v) for v in vals]), f


def rule_eq1(prog):
    r = RuleResult('R-EQ-1', '__eq__ and __hash__ are both defined and keyed '
                   'on the same function of the formula')
    base = prog.cls('language.Formula')
    classes = [c for c in prog.classes.values() if c.is_subclass_of(base)]
    floor('R-EQ-1', 'formula classes', len(classes), 50)
    pending = []
    for ci in sorted(classes, key=lambda c: c.qn):
        # python sets __hash__ = None in a class that defines __eq__ only
        eq_i = hash_i = None
        for i, c in enumerate(ci.mro):
            if isinstance(c, ClassInfo):
                if eq_i is None and '__eq__' in c.attrs:
                    eq_i = i
                if hash_i is None and '__hash__' in c.attrs:
                    hash_i = i
        ek, ef = classify_eq(prog, ci)
        hk, hf = classify_hash(prog, ci)
        r.inst(cls=ci.short(), eq=ek[0], hash=hk[0],
               eq_defined_in=ci.mro[eq_i].short() if eq_i is not None
               else None,
               hash_defined_in=ci.mro[hash_i].short() if hash_i is not None
               else None)
        if eq_i is not None and (hash_i is None or eq_i < hash_i):
            r.fail(Finding(
                PROP, 'R-EQ-1', '%s:%d' % (ci.mro[eq_i].module.relpath,
                                           ci.mro[eq_i].node.lineno),
                ci.short(), 'unhashable:' + ci.short(),
                '%s defines __eq__ (in %s) without a __hash__ at or below '
                'it: its instances are unhashable and cannot key the memo '
                'tables' % (ci.short(), ci.mro[eq_i].short())))
            continue
        r.ok()
        if (ek[0] == 'other' or hk[0] == 'other') and \
                not _positively_incoherent(ek, hk):
            # neither of the recognised shapes, and nothing that shows the
            # two keyed on different things: outside the fragment
            which = ef if ek[0] == 'other' else hf
            e = Inconclusive('R-EQ-1', 'equality / hash of %s: eq %s, '
                             'hash %s' % (ci.short(), ek, hk), which.where())
            e.partial = r
            pending.append(e)
            continue
        if ek[0] == 'other' or hk[0] == 'other':
            which = ef if ek[0] == 'other' else hf
            r.fail(Finding(
                PROP, 'R-EQ-1', which.where(), which.short(),
                'eq-hash-shape:%s:%s/%s' % (ci.short(), ek[0], hk[0]),
                'equality / hash of %s are not keyed on the printed form '
                '(eq: %s, hash: %s): equal formulas may hash differently or '
                '== may not be an equivalence' % (ci.short(), ek, hk),
                expected='str(self) == str(other) and hash(str(self)) (Bool: '
                         'value comparison with bool and Bool)'))
            continue
        is_bool = ci.is_subclass_of(prog.cls('language.Bool'))
        ok = (ek[0] == 'str-key' and hk[0] == 'str-key' and not is_bool) or \
            (is_bool and ek[0] == 'bool-value' and
             hk[0] in ('str-key', 'value-key'))
        if ok:
            r.ok()
        else:
            which = ef or hf
            r.fail(Finding(
                PROP, 'R-EQ-1', which.where(), which.short(),
                'eq-hash-mismatch:%s:%s/%s' % (ci.short(), ek[0], hk[0]),
                '%s compares by %s but hashes by %s' % (ci.short(), ek[0],
                                                        hk[0])))
    # Bool's printed form is a function of its value (hash coherence)
    bc = prog.cls('language.Bool')
    syms = c09.symbols_of(prog, bc)
    inj = isinstance(syms, dict) and len(set(syms.values())) == len(syms) \
        and set(syms) == {True, False}
    r.inst(cls=bc.short(), symbols=repr(syms), injective=inj)
    if inj:
        r.ok()
    else:
        r.fail(Finding(PROP, 'R-EQ-1', '%s:%d' % (bc.module.relpath,
                                                  bc.node.lineno),
                       bc.short(), 'bool-symbols', 'Bool.symbols does not '
                       'map True/False to two different strings: %r' % (
                           syms,)))
    if pending:
        pending[0].partial = r
        raise pending[0]
    return r


def rule_eq2(prog):
    r = RuleResult('R-EQ-2', 'clone rebuilds the same class over clones of '
                   'all children in order, sharing nothing')
    n = 0
    for lang in ('PL', 'CTLS', 'CTL', 'LTL'):
        for (name, ci, kids, lhs) in generic_instances(prog, lang):
            if lang == 'CTL' and name[0] in 'AE' and len(name) == 2 and \
                    name[1] in 'XFGUR':
                # one level is enough: clone of A(c0) with c0 a hole
                if name[1] != 'X':
                    continue
                kids = [make_hole(prog, 0, lang)]
                lhs = (name[0], lang, ('raw', 0))
                name = name[0]
            n += 1
            try:
                f, outs = extract(prog, ci, 'clone', kids, rule='R-EQ-2')
            except Inconclusive as e:
                # a clone made by the copy module: a positive case
                if 'copy.copy' in str(e) or 'copy.deepcopy' in str(e):
                    fm = prog.method(ci, 'clone')
                    deep = 'copy.deepcopy' in str(e)
                    r.fail(Finding(
                        PROP, 'R-EQ-2', fm.where(), fm.short(),
                        'copy-module:%s' % ('deep' if deep else 'shallow'),
                        'clone of a %s.%s formula starts from copy.%s(self)'
                        ': %s' % (lang, name, 'deepcopy' if deep else 'copy',
                                  'copies made by the copy module bypass the '
                                  'constructors (sort checks, height)' if deep
                                  else 'the shallow copy shares the list of '
                                  'operands with the original, so filling it '
                                  'with cloned operands rewires the original '
                                  'and the clone shares every node below '
                                  'the root')))
                    continue
                raise
            want = lhs[:2] + tuple(('hole', x[1]) for x in lhs[2:])
            got = [t for (t, p) in outs]
            r.inst(lang=lang, cls=name, method=f.short(),
                   result=[show(t) if t[0] != 'raise' else 'raise %s' % t[1]
                           for t in got])
            if got == [want]:
                r.ok()
            else:
                r.fail(Finding(
                    PROP, 'R-EQ-2', f.where(), f.short(),
                    'clone:%s:%s:%s' % (lang, name, [
                        show(t) if t[0] != 'raise' else t[1] for t in got]),
                    'clone of a %s.%s formula yields %s instead of %s '
                    '(children must be cloned, in order, into the same '
                    'class)' % (lang, name, [show(t) if t[0] != 'raise'
                                             else 'raise ' + t[1]
                                             for t in got], show(want)),
                    expected=show(want)))
        # leaves
        al = prog.alphabet(LANGS[lang])
        for leaf, arg in (('AtomicProposition', Sym('nm', ('b', 'str'))),
                          ('Bool', Sym('bv', ('b', 'bool')))):
            ci = al[leaf]
            f = prog.method(ci, 'clone')
            I = Interp(prog, FormulaHooks(prog, check_sorts=False),
                       rule='R-EQ-2')
            path = I.new_path()
            me = New(ci, (arg,))
            res = I.call_function(FRef(f), [me], [], path, f.node)
            vals = [v for (p, v) in res if not isinstance(v, Raise)]
            n += 1
            ok = len(vals) == 1 and isinstance(vals[0], New) and \
                vals[0].ci is ci and vals[0] is not me and \
                len(vals[0].args) == 1 and arg in _syms(vals[0].args[0])
            r.inst(lang=lang, cls=leaf, method=f.short(),
                   result=[repr(v) for v in vals])
            if ok:
                r.ok()
            else:
                r.fail(Finding(
                    PROP, 'R-EQ-2', f.where(), f.short(),
                    'clone-leaf:%s:%s' % (lang, leaf),
                    'clone of %s.%s yields %r' % (lang, leaf, vals)))
    floor('R-EQ-2', 'clone instances', n, 50)
    return r


def _syms(v):
    from ..values import walk
    return [x for x in walk(v) if isinstance(x, Sym)]


# -- R-EQ-5: attributes read by the comparison exist ----------------------------

def _init_fields(prog, ci):
    """names assigned on self by the constructor chain of `ci` (over-
    approximation: any `self.X = ..` in a constructor that can run);
    None when the chain leaves the package or sets attributes dynamically"""
    import ast
    out = set()
    seen = set()

    def visit(cls_from, start):
        # first __init__ at or after position `start` of ci.mro
        for c in ci.mro[start:]:
            if not isinstance(c, ClassInfo):
                return c.short() == 'object'
            if '__init__' in c.attrs:
                break
        else:
            return True
        f = c.attrs['__init__']
        return body(f, c)

    def body(f, c):
        if not isinstance(f, ast.FunctionDef) or not f.args.args:
            return False
        if id(f) in seen:
            return True
        seen.add(id(f))
        me = f.args.args[0].arg
        ok = True
        for n in ast.walk(f):
            if isinstance(n, ast.Call) and \
                    isinstance(n.func, ast.Attribute) and \
                    isinstance(n.func.value, ast.Name) and \
                    n.func.value.id == me and n.func.attr != '__init__':
                # self.helper(..): a method of the object under construction
                r = ci.lookup(n.func.attr)
                if r is not None and isinstance(r[1], ast.FunctionDef):
                    ok = body(r[1], r[0]) and ok
                continue
            if isinstance(n, ast.Attribute) and isinstance(n.ctx, ast.Store) \
                    and isinstance(n.value, ast.Name) and n.value.id == me:
                out.add(n.attr)
            elif isinstance(n, ast.Call):
                fn = n.func
                if isinstance(fn, ast.Name) and fn.id in ('setattr', 'vars'):
                    ok = False
                if isinstance(fn, ast.Attribute) and fn.attr == '__dict__':
                    ok = False
                if isinstance(fn, ast.Attribute) and fn.attr == '__init__':
                    b = fn.value
                    if isinstance(b, ast.Call) and \
                            isinstance(b.func, ast.Name) and \
                            b.func.id == 'super':
                        # super(X, self).__init__ / super().__init__
                        frm = c
                        if b.args:
                            x = prog.eval_static(c.module, b.args[0])
                            if isinstance(x, ClassInfo) and x in ci.mro:
                                frm = x
                            else:
                                ok = False
                                continue
                        ok = visit(frm, ci.mro.index(frm) + 1) and ok
                    else:
                        x = prog.eval_static(c.module, b)
                        if isinstance(x, ClassInfo) and x in ci.mro:
                            ok = visit(x, ci.mro.index(x)) and ok
                        else:
                            ok = False
            elif isinstance(n, ast.Attribute) and n.attr == '__dict__':
                ok = False
        return ok
    if not visit(None, 0):
        return None
    return out


def _has_attr(prog, ci, name, cache={}):
    """True / False / None (unknown): an instance of ci has attribute name"""
    for c in ci.mro:
        if not isinstance(c, ClassInfo):
            if c.short() != 'object':
                return None
            continue
        if name in c.attrs:
            return True
        if '__getattr__' in c.attrs or '__getattribute__' in c.attrs or \
                '__slots__' in c.attrs:
            return None
        import ast
        for st in c.node.body:
            if not isinstance(st, (ast.FunctionDef, ast.Assign, ast.Expr,
                                   ast.Pass)):
                return None       # class body with control flow / decorators
    k = (id(prog), ci.qn)
    if k not in cache:
        cache[k] = _init_fields(prog, ci)
    flds = cache[k]
    if flds is None:
        return None
    # attributes set on self by other methods count as present (lazily
    # created state is not this rule's business)
    import ast
    for c in ci.mro:
        if isinstance(c, ClassInfo):
            for n in ast.walk(c.node):
                if isinstance(n, ast.Attribute) and n.attr == name and \
                        isinstance(n.ctx, ast.Store) and \
                        not (isinstance(n.value, ast.Name) and
                             n.value.id == 'self' and False):
                    if name not in flds:
                        # stored somewhere else than the constructor chain
                        # of this class: only the constructors of its own
                        # MRO decide; a store outside them -> unknown
                        owner_init = any(
                            isinstance(cc, ClassInfo) and
                            isinstance(cc.attrs.get('__init__'),
                                       ast.FunctionDef) and
                            any(m is n for m in ast.walk(
                                cc.attrs['__init__']))
                            for cc in ci.mro)
                        if not owner_init:
                            return None
    return name in flds


def _guarded_other_reads(fnode):
    """[(attr, guard expr | None, node)] for loads `other.attr` in a
    comparison method; guard = the class expression C of the enclosing
    `isinstance(other, C)` test (if / conditional expression / `and` chain /
    early exit `if not isinstance(other, C): return ..`); reads inside a try
    block or under any other condition on `other` are left out"""
    import ast
    if len(fnode.args.args) < 2:
        return []
    other = fnode.args.args[1].arg
    out = []

    def isinst(test):
        """class expr when `test` (or a conjunct of it) is
        isinstance(other, C); a conjunction that also excludes classes
        (`and not isinstance(other, D)`) or tests anything else about
        `other` is not a guard this rule reads (None)"""
        if isinstance(test, ast.Call) and isinstance(test.func, ast.Name) \
                and test.func.id == 'isinstance' and len(test.args) == 2 and \
                isinstance(test.args[0], ast.Name) and \
                test.args[0].id == other and not test.keywords:
            return test.args[1]
        if isinstance(test, ast.BoolOp) and isinstance(test.op, ast.And):
            found = None
            for v in test.values:
                c = isinst(v)
                if c is not None and found is None:
                    found = c
                elif any(isinstance(n, ast.Name) and n.id == other
                         for n in ast.walk(v)):
                    return None     # a further condition on `other`
            return found
        return None

    def neg_isinst(test):
        if isinstance(test, ast.UnaryOp) and isinstance(test.op, ast.Not):
            t = test.operand
            if isinstance(t, ast.Call):
                return isinst(t)
        return None

    def leaves(block):
        return bool(block) and isinstance(block[-1], (ast.Return, ast.Raise))

    def expr(e, guard):
        if e is None:
            return
        if isinstance(e, ast.IfExp):
            expr(e.test, guard)
            c = isinst(e.test)
            expr(e.body, c if c is not None else guard)
            expr(e.orelse, guard if c is None else None)
            return
        if isinstance(e, ast.BoolOp) and isinstance(e.op, ast.And):
            g = guard
            for v in e.values:
                expr(v, g)
                c = isinst(v)
                if c is not None:
                    g = c
                elif neg_isinst(v) is not None:
                    g = None        # classes excluded: not a guard we read
            return
        if isinstance(e, ast.Attribute) and isinstance(e.ctx, ast.Load) and \
                isinstance(e.value, ast.Name) and e.value.id == other:
            out.append((e.attr, guard, e))
            return
        if isinstance(e, (ast.Lambda, ast.ListComp, ast.SetComp,
                          ast.DictComp, ast.GeneratorExp)):
            return
        for ch in ast.iter_child_nodes(e):
            if isinstance(ch, ast.expr):
                expr(ch, guard)

    def block(stmts, guard):
        g = guard
        for st in stmts:
            if isinstance(st, ast.If):
                expr(st.test, g)
                c = isinst(st.test)
                nc = neg_isinst(st.test)
                block(st.body, c if c is not None else
                      (g if nc is None else None))
                block(st.orelse, nc if nc is not None else
                      (g if c is None else None))
                if nc is not None and leaves(st.body) and not st.orelse:
                    g = nc
                continue
            if isinstance(st, (ast.Return, ast.Expr, ast.Assign,
                               ast.AugAssign)):
                for ch in ast.iter_child_nodes(st):
                    if isinstance(ch, ast.expr):
                        expr(ch, g)
                if isinstance(st, ast.Assign) and any(
                        isinstance(t, ast.Name) and t.id == other
                        for t in st.targets):
                    g = None
                    return          # other is rebound: stop
                continue
            if isinstance(st, ast.Raise):
                continue
            # loops, try, with, ...: not followed (no claim about reads there)
            return
    block(fnode.body, None)
    return [(a, g, n) for (a, g, n) in out if g is not None]


def rule_eq5(prog):
    r = RuleResult('R-EQ-5', 'every attribute that __eq__ / __ne__ reads on '
                   'the other operand under isinstance(other, C) exists on '
                   'the instances of every formula class that C admits and '
                   'that can reach this method as the right operand')
    import ast
    base = prog.cls('language.Formula')
    classes = sorted([c for c in prog.classes.values()
                      if c.is_subclass_of(base)], key=lambda c: c.qn)
    for mname in ('__eq__', '__ne__'):
        by_f = {}
        for L in classes:
            f = prog.method(L, mname)
            if f is not None:
                by_f.setdefault(f, []).append(L)
        for f, Ls in sorted(by_f.items(), key=lambda kv: kv[0].qn):
            reads = _guarded_other_reads(f.node)
            r.inst(method=f.short(), receivers=len(Ls),
                   guarded_reads=sorted(set(
                       '%s under isinstance(other, %s)' % (a, ast.unparse(g))
                       for (a, g, n) in reads)))
            if not reads:
                r.ok()
                continue
            bad = None
            for (a, g, n) in reads:
                gs = g.elts if isinstance(g, ast.Tuple) else [g]
                admitted = []
                for ge in gs:
                    C = prog.eval_static(f.module, ge)
                    if isinstance(C, ClassInfo):
                        admitted += [S for S in classes
                                     if S.is_subclass_of(C)]
                for S in admitted:
                    if _has_attr(prog, S, a) is not False:
                        continue
                    # the left operand whose method this is: python asks the
                    # right operand first only when its class is a proper
                    # subclass of the left one's and overrides the method
                    for L in Ls:
                        refl = S is not L and S.is_subclass_of(L) and \
                            prog.method(S, mname) is not f
                        if not refl:
                            bad = (a, S, L, n)
                            break
                    if bad:
                        break
                if bad:
                    break
            if bad is None:
                r.ok()
            else:
                a, S, L, n = bad
                r.fail(Finding(
                    PROP, 'R-EQ-5', '%s:%d' % (f.module.relpath, n.lineno),
                    f.short(), 'missing-attr:%s:%s' % (f.short(), a),
                    '%s reads other.%s under an isinstance test that admits '
                    '%s, whose instances have no attribute %s (its '
                    'constructor chain never sets it): %s(..) == %s(..) '
                    'raises AttributeError instead of answering False' % (
                        f.short(), a, S.short(), a, L.short(), S.short()),
                    expected='== answers for every pair of formulas',
                    found='AttributeError'), witness=(S.short(), L.short()))
    floor('R-EQ-5', 'comparison methods', len(r.instances), 2)
    # matcher self-test (the expected number of findings is zero)
    pos = ast.parse(
        'def __eq__(self, o):\n'
        '    if isinstance(o, A):\n'
        '        return self.n == o.n\n'
        '    if not isinstance(o, B):\n'
        '        return False\n'
        '    return (o.m if isinstance(o, C) else 0) == o.k\n').body[0]
    neg = ast.parse(
        'def __eq__(self, o):\n'
        '    try:\n'
        '        return self.n == o.n\n'
        '    except AttributeError:\n'
        '        return str(self) == str(o)\n').body[0]
    neg2 = ast.parse(
        'def __eq__(self, o):\n'
        '    if isinstance(o, A) and not isinstance(o, B):\n'
        '        return self.n == o.n\n'
        '    return isinstance(o, A) and not isinstance(o, B) and \\\n'
        '        self.n == o.n\n').body[0]
    got = sorted((a, ast.unparse(g)) for (a, g, n) in
                 _guarded_other_reads(pos))
    if got != [('k', 'B'), ('m', 'C'), ('n', 'A')] or \
            _guarded_other_reads(neg) or _guarded_other_reads(neg2):
        raise Inconclusive('R-EQ-5', 'matcher self-test failed: %r' % (got,),
                           '')
    r.notes.append('matcher self-test: guarded reads of the positive '
                   'example found, reads under try left out')
    return r


# -- R-EQ-6: the comparison key is not memoised in a mutable node ---------------

def _self_closure(prog, classes, roots):
    """functions run on the same object by the given methods: self.m(..)
    calls and str(self) / repr(self) / format(self), resolved on every
    formula class (the receiver may be any of them)"""
    import ast
    seen = {}
    work = list(roots)
    while work:
        f = work.pop()
        if id(f.node) in seen or not f.node.args.args:
            continue
        seen[id(f.node)] = f
        me = f.node.args.args[0].arg
        names = set()
        for n in ast.walk(f.node):
            if not isinstance(n, ast.Call):
                continue
            fn = n.func
            if isinstance(fn, ast.Attribute) and \
                    isinstance(fn.value, ast.Name) and fn.value.id == me:
                names.add(fn.attr)
            elif isinstance(fn, ast.Name) and fn.id in ('str', 'repr',
                                                        'format') and \
                    n.args and isinstance(n.args[0], ast.Name) and \
                    n.args[0].id == me:
                names.add('__%s__' % fn.id)
            elif isinstance(fn, ast.Attribute) and fn.attr == 'format' and \
                    any(isinstance(a, ast.Name) and a.id == me
                        for a in n.args):
                names.add('__str__')
        for nm in names:
            for c in classes:
                g = prog.method(c, nm)
                if g is not None and id(g.node) not in seen:
                    work.append(g)
    return list(seen.values())


def _memo_returns(funcs):
    """(attributes stored on self by the functions, first (function, load
    node, (storing function, store node)) where one of them returns such an
    attribute | None)"""
    import ast
    stored = {}
    for f in funcs:
        me = f.node.args.args[0].arg
        for n in ast.walk(f.node):
            if isinstance(n, ast.Attribute) and \
                    isinstance(n.ctx, ast.Store) and \
                    isinstance(n.value, ast.Name) and n.value.id == me:
                stored.setdefault(n.attr, (f, n))
    bad = None
    for f in funcs:
        me = f.node.args.args[0].arg
        for n in ast.walk(f.node):
            if isinstance(n, ast.Return) and n.value is not None:
                for a in ast.walk(n.value):
                    if isinstance(a, ast.Attribute) and a.attr in stored and \
                            isinstance(a.ctx, ast.Load) and \
                            isinstance(a.value, ast.Name) and \
                            a.value.id == me and bad is None:
                        bad = (f, a, stored[a.attr])
    return stored, bad


def rule_eq6(prog):
    r = RuleResult('R-EQ-6', 'the key of == / hash is computed from the '
                   'current tree: the comparison methods (and what they run '
                   'on self) return nothing they stored in the node, nodes '
                   'being mutable after construction')
    import ast
    from .. import fields
    base = prog.cls('language.Formula')
    classes = sorted([c for c in prog.classes.values()
                      if c.is_subclass_of(base)], key=lambda c: c.qn)
    roots = []
    for c in classes:
        for nm in ('__eq__', '__ne__', '__hash__'):
            f = prog.method(c, nm)
            if f is not None and f not in roots:
                roots.append(f)
    clo = _self_closure(prog, classes, roots)
    # nodes can change after construction: a public method assigns the
    # children field of an existing object
    sub = fields.subformula_field(prog)
    mutators = []
    for c in classes:
        for nm, fn in c.attrs.items():
            if isinstance(fn, ast.FunctionDef) and not nm.startswith('_') \
                    and fn.args.args:
                me = fn.args.args[0].arg
                for n in ast.walk(fn):
                    if isinstance(n, ast.Attribute) and n.attr == sub and \
                            isinstance(n.ctx, ast.Store) and \
                            isinstance(n.value, ast.Name) and \
                            n.value.id == me:
                        mutators.append('%s.%s' % (c.short(), nm))
                        break
    stored, bad = _memo_returns(clo)
    r.inst(comparison_methods=sorted(f.short() for f in roots),
           run_on_self=len(clo), attributes_stored=sorted(stored),
           public_mutators=sorted(set(mutators))[:6])
    floor('R-EQ-6', 'functions run by the comparison methods', len(clo), 10)
    # matcher self-test (the expected number of findings is zero)

    class _F(object):
        def __init__(self, src):
            self.node = ast.parse(src).body[0]
    pos = [_F('def k(self):\n'
              '    try:\n'
              '        return self._c\n'
              '    except AttributeError:\n'
              '        self._c = str(self)\n'
              '    return self._c\n')]
    neg = [_F('def k(self):\n'
              '    t = str(self)\n'
              '    return t + self.name\n'),
           _F('def s(self, v):\n'
              '    self.seen = v\n')]
    if _memo_returns(pos)[1] is None or _memo_returns(neg)[1] is not None:
        raise Inconclusive('R-EQ-6', 'matcher self-test failed', '')
    r.notes.append('matcher self-test: positive example reported, negative '
                   'example silent')
    if bad is None:
        r.ok()
        return r
    if not mutators:
        raise Inconclusive('R-EQ-6', 'a comparison key is stored in the node '
                           'and no public method that re-assigns the '
                           'children was found', bad[0].where())
    f, a, (g, st) = bad
    r.fail(Finding(
        PROP, 'R-EQ-6', '%s:%d' % (g.module.relpath, st.lineno), g.short(),
        'memoised-key:%s' % a.attr,
        '%s stores self.%s while == / hash are being computed and %s returns '
        'it: the key of a node is remembered, but nodes change after '
        'construction (%s) and a node cannot tell its ancestors, so a formula '
        'keeps comparing / hashing as the tree it had when first compared' % (
            g.short(), a.attr, f.short(), mutators[0]),
        expected='== / hash computed from the current tree',
        found='value stored in the node'), witness=a.attr)
    return r


def run(prog, tier, seed):
    T = Attempts()
    r3 = T(c09.rule_rt4, prog, PROP, 'R-EQ-3')
    results = T.results(T(rule_eq1, prog), T(rule_eq2, prog), r3,
                        T(rule_eq5, prog), T(rule_eq6, prog))
    expl = ('For every class of the formula lattice the MRO-resolved __eq__ '
            'and __hash__ are interpreted abstractly: both exist (no class '
            'defines __eq__ without __hash__ at or below it), equality is '
            'string equality of the printed forms and the hash is the hash '
            'of the printed form (Bool: value comparison against bool and '
            'Bool; its printed form is an injective function of the value). '
            'clone of a generic instance of every class is the same class '
            'over the clones of all children in order (leaves: a new object '
            'from copied scalars). The printed form is an injective key: '
            'the printers of the CTL*/LTL/PL notation and of CTL\'s own '
            'notation, read as grammars over canonical tokens, are LR(1). '
            'Hence f == g iff same tree, equal formulas hash equally, == is '
            'an equivalence. Not decided: the laws as run-time facts for '
            'atoms named like reserved words.')
    assumptions = ['atom names are identifier-style, not reserved words',
                   'str() of a formula is deterministic (no ambient state: '
                   'C07 R-PURE-4)']
    return results, expl, assumptions, T.extra()
