"""C01 -- CTL model checking is exact (partial).

R-CTL-1 dispatch closure of the labeller
R-CTL-2 validity of the CTL rewrite rules (shared with C05)
R-CTL-3 set-algebra summaries of the direct handlers vs the documented
        semantics (Not, Or, atom, Bool, EX, EU, EG)
R-CTL-5 memo discipline
"""
from ..program import AnalysisError, Inconclusive, ClassInfo
from ..values import (Const, Sym, CRef, FRef, Bound, Obj, Tup, App, New,
                      Raise, Coll, walk)
from ..interp import Interp
from ..templates import (TemplateHooks, generic_instances, make_hole, to_term,
                         show)
from ..galg import (GraphHooks, evaluate_set, all_graphs, all_subsets,
                    NotEvaluable, GraphError, CG)
from ..report import Finding, RuleResult, floor, Attempts, adopt
from . import c05

PROP = 'C01'
METHOD = 'get_equivalent_restricted_formula'


def discover_labeller(prog):
    """the function CTL.modelcheck returns through, and how the memo is
    passed"""
    f = prog.func('CTL.model_checking.modelcheck')

    class H(TemplateHooks):
        def inline(self, I, fi, args):
            return fi is f

    I = Interp(prog, H(prog, METHOD), rule='R-CTL-1')
    path = I.new_path()
    res = I.call_function(FRef(f), [Sym('kripke'), Sym('formula'),
                                    Sym('parser'), Sym('F')], [], path,
                          f.node)
    targets = set()
    memo_ok = True
    why = ''
    n = 0
    for (p, v) in res:
        if isinstance(v, Raise):
            continue
        n += 1
        if not (isinstance(v, App) and v.op == 'call' and
                isinstance(v.args[0], FRef)):
            raise Inconclusive('R-CTL-1', 'CTL.modelcheck returns %r' % (v,),
                               f.where())
        targets.add(v.args[0].fi)
        allargs = list(v.args[1].items) + [kv.items[1] for kv in
                                           (v.args[2].items if len(v.args) > 2
                                            else ())]
        dicts = [a for a in allargs if isinstance(a, Obj) and
                 p.heap[a.oid].kind == 'dict']
        if len(dicts) != 1 or p.heap[dicts[0].oid].parts:
            memo_ok = False
            why = 'memo argument is %r' % ([a for a in allargs][2:],)
    if len(targets) != 1 or n == 0:
        raise Inconclusive('R-CTL-1', 'labeller not unique: %r' % targets,
                           f.where())
    lab = targets.pop()
    if lab.owner is not None or len(lab.node.args.args) != 3:
        # the rules below drive a labelling *function* (structure, formula,
        # memo); another organisation (a labeller object, a visitor) is
        # outside the fragment
        raise Inconclusive('R-CTL-1', 'CTL.modelcheck returns through %s, '
                           'which is not a function of (structure, formula, '
                           'memo)' % lab.short(), f.where())
    return f, lab, memo_ok, why


class DispatchHooks(TemplateHooks, GraphHooks):
    def __init__(self, prog, labeller):
        TemplateHooks.__init__(self, prog, METHOD)
        self.graph_init(prog)
        self.labeller = labeller

    def call(self, I, fv, args, kw, path, node):
        r = TemplateHooks.call(self, I, fv, args, kw, path, node)
        if r is not None:
            return r
        return self.graph_call(I, fv, args, kw, path, node)

    def inline(self, I, fi, args):
        if fi is self.labeller:
            return not any(s is self.labeller for s in I.stack)
        # other functions of the model checking module are handlers
        if fi.module is self.labeller.module:
            return False
        return True


def shapes(prog):
    """generic CTL state formulas: (key, value, lhs-term)"""
    out = []
    al = prog.alphabet('CTL.language')
    for (name, ci, kids, lhs) in generic_instances(prog, 'CTL'):
        if name in ('X', 'F', 'G', 'U', 'R'):
            continue
        out.append((name, New(ci, kids), lhs))
    out.append(('Bool:true', New(al['Bool'], (Const(True),)), ('bool', True)))
    out.append(('Bool:false', New(al['Bool'], (Const(False),)),
                ('bool', False)))
    out.append(('Atom', New(al['AtomicProposition'],
                            (Sym('apname', ('b', 'str'), ('apname',)),)),
                ('atom', 'p')))
    return out


RESTRICTED_SHAPES = ('Not', 'Or/2', 'Or/3', 'Bool:true', 'Bool:false',
                     'Atom', 'EX', 'EU', 'EG')


def shape_key_of_term(t):
    k = t[0]
    if k == 'bool':
        return 'Bool:true' if t[1] else 'Bool:false'
    if k == 'atom':
        return 'Atom'
    if k in ('hole', 'raw', 'LNot'):
        return None
    if k in ('A', 'E'):
        return k + t[2][0]
    if k in ('Or', 'And'):
        return '%s/%d' % (k, len(t) - 2)
    return k


MEMO_BY_LABELLER = set()     # (shape, handler): stored by the dispatcher


def rule_ctl1(prog, labeller):
    MEMO_BY_LABELLER.clear()
    r = RuleResult('R-CTL-1', 'dispatch closure of the CTL labeller '
                   '(every shape handled directly or rewritten once)')
    table = {}
    others = []
    K = Sym('K', ('inst', prog.cls('kripke.Kripke')))
    for (key, val, lhs) in shapes(prog):
        hooks = DispatchHooks(prog, labeller)
        I = Interp(prog, hooks, rule='R-CTL-1')
        path = I.new_path()
        L = path.alloc('dict')
        res = I.call_function(FRef(labeller), [K, val, L], [], path,
                              labeller.node)
        res = [(p, v) for (p, v) in res
               if not (isinstance(v, Raise) and v.implicit)]
        kinds = []
        for (p, v) in res:
            if isinstance(v, Raise):
                kinds.append(('raise', repr(v.exc)))
            elif isinstance(v, App) and v.op == 'call' and \
                    isinstance(v.args[0], FRef):
                callee = v.args[0].fi
                a = v.args[1].items
                if callee is labeller:
                    t = to_term(a[1], prog, p)
                    stored = [pp for pp in p.heap[L.oid].parts
                              if pp.key == val and pp.val == v]
                    kinds.append(('rewrite', t, bool(stored)))
                elif len(a) >= 2 and a[1] == val:
                    # the labeller itself may keep the memo: the handler's
                    # result is stored under the labeller's own formula
                    stored = [pp for pp in p.heap[L.oid].parts
                              if pp.simple() and _same_formula(pp.key, val)
                              and pp.val == v]
                    if stored:
                        MEMO_BY_LABELLER.add((key, callee.qn))
                    kinds.append(('direct', callee))
                else:
                    kinds.append(('other', repr(v)))
            elif isinstance(v, Obj) and p.heap[v.oid].kind == 'set':
                kinds.append(('inline', I.snapshot(v, p), p, L))
            else:
                kinds.append(('other', repr(v)))
        table[key] = kinds
        desc = dict(shape=show(lhs) if isinstance(lhs, tuple) else key,
                    outcome=[k[0] + (':' + k[1].short() if k[0] == 'direct'
                                     else (':' + show(k[1])
                                           if k[0] == 'rewrite' else ''))
                             for k in kinds])
        r.inst(**desc)
        if any(k[0] == 'other' for k in kinds):
            # the labeller hands this shape to something that is not
            # recognised (a computed handler, a decorated function ...):
            # outside the fragment, no verdict for this shape
            others.append('%s -> %s' % (key, [k[1][:80] for k in kinds
                                               if k[0] == 'other']))
            continue
        if len(kinds) != 1 or kinds[0][0] in ('raise', 'other'):
            r.fail(Finding(
                PROP, 'R-CTL-1', labeller.where(), labeller.short(),
                'dispatch:%s:%s' % (key, desc['outcome']),
                'the labeller does not handle the CTL shape %s in exactly '
                'one way: %s' % (desc['shape'], desc['outcome'])))
            continue
        r.ok()
    # closure
    for key, kinds in table.items():
        if len(kinds) != 1 or any(k[0] == 'other' for k in kinds):
            continue
        k = kinds[0]
        if key in RESTRICTED_SHAPES and k[0] not in ('direct', 'inline'):
            r.fail(Finding(
                PROP, 'R-CTL-1', labeller.where(), labeller.short(),
                'restricted-not-direct:' + key,
                'the restricted shape %s is not handled directly (it is '
                'rewritten: the recursion cannot terminate)' % key))
        elif key in RESTRICTED_SHAPES:
            r.ok()
        if k[0] == 'rewrite':
            tk = shape_key_of_term(k[1])
            tgt = table.get(tk)
            ok = tgt is not None and len(tgt) == 1 and \
                tgt[0][0] in ('direct', 'inline')
            if tk is None and k[1][0] in ('hole', 'raw', 'LNot'):
                # the formula handed on is a (rewritten) operand: a smaller
                # formula, restricted by R-CTL-2's closure -- the recursion
                # is structural
                ok = True
            if tgt is not None and any(x[0] == 'other' for x in tgt):
                pass
            elif not ok:
                r.fail(Finding(
                    PROP, 'R-CTL-1', labeller.where(), labeller.short(),
                    'rewrite-not-closed:%s->%s' % (key, tk),
                    'shape %s is rewritten to %s whose top shape %s is not '
                    'handled directly: unbounded recursion (RecursionError)'
                    % (key, show(k[1]), tk)))
            else:
                r.ok()
            if not k[2]:
                r.fail(Finding(
                    PROP, 'R-CTL-1', labeller.where(), labeller.short(),
                    'rewrite-not-stored:' + key,
                    'the set computed for the rewritten %s is not stored '
                    'under / returned for the original formula' % key))
            else:
                r.ok()
    floor('R-CTL-1', 'shapes', len(table), 19)
    if others:
        e = Inconclusive('R-CTL-1', 'shapes dispatched to something that is '
                         'not recognised: %s' % '; '.join(others[:3]),
                         labeller.where())
        e.partial = (r, table)
        raise e
    return r, table


# ---------------------------------------------------------------------------
# specifications of the direct handlers (documented CTL semantics)
# ---------------------------------------------------------------------------

def spec_value(key, g, P, labels):
    S = g.nodes

    def pre(X):
        return frozenset(s for s in S if g.succ[s] & X)
    if key == 'Not':
        return S - P[0]
    if key.startswith('Or/'):
        r = frozenset()
        for x in P:
            r |= x
        return r
    if key == 'Bool:true':
        return S
    if key == 'Bool:false':
        return frozenset()
    if key == 'Atom':
        return frozenset(s for s in S if 'p' in labels[s])
    if key == 'EX':
        return pre(P[0])
    if key == 'EU':
        Z = frozenset()
        while True:
            Z2 = P[1] | (P[0] & pre(Z))
            if Z2 == Z:
                return Z
            Z = Z2
    if key == 'EG':
        Z = S
        while True:
            Z2 = P[0] & pre(Z)
            if Z2 == Z:
                return Z
            Z = Z2
    raise AnalysisError('no specification for shape ' + key)


NHOLES = {'Not': 1, 'Or/2': 2, 'Or/3': 3, 'EX': 1, 'EU': 2, 'EG': 1,
          'Bool:true': 0, 'Bool:false': 0, 'Atom': 0}


class HandlerHooks(DispatchHooks):
    """interpretation of one handler: recursive labelling of a child is the
    symbolic set P_i"""

    def __init__(self, prog, labeller, handler):
        DispatchHooks.__init__(self, prog, labeller)
        self.handler = handler
        self.bad_rec = []

    def call(self, I, fv, args, kw, path, node):
        if isinstance(fv, FRef) and fv.fi is self.labeller and \
                I.stack and I.stack[-1] is not self.labeller:
            sub = args[1]
            if isinstance(sub, Sym) and sub.meta and sub.meta[0] == 'hole':
                i = sub.meta[1]
                return [(path, Sym('P%d' % i, ('b', 'set'), ('sat', i)))]
            self.bad_rec.append(sub)
            return [(path, Sym('Punknown', ('b', 'set')))]
        return DispatchHooks.call(self, I, fv, args, kw, path, node)

    def inline(self, I, fi, args):
        if fi is self.handler:
            return True
        if fi is self.labeller:
            return False
        if fi.module is self.labeller.module:
            return True       # helpers of the handler
        return True


def summarise_handler(prog, labeller, handler, key, val, K):
    hooks = HandlerHooks(prog, labeller, handler)
    I = Interp(prog, hooks, rule='R-CTL-3')
    path = I.new_path()
    L = path.alloc('dict')
    res = I.call_function(FRef(handler), [K, val, L], [], path, handler.node)
    res = [(p, v) for (p, v) in res
           if not (isinstance(v, Raise) and v.implicit)]
    if hooks.bad_rec:
        raise Inconclusive('R-CTL-3', 'handler %s labels %r, not a child of '
                           'its formula' % (handler.short(),
                                            hooks.bad_rec[0]),
                           handler.where())
    return I, res, L, hooks


def models(key, nmax):
    nh = NHOLES[key]
    for n in range(1, nmax + 1):
        subs = list(all_subsets(n))
        for g in all_graphs(n, total=True):
            if key == 'Atom':
                for lab in subs:
                    labels = {s: frozenset(['p'] if s in lab else []) |
                              frozenset(['q'] if s == 0 else [])
                              for s in range(n)}
                    yield g, [], labels
            else:
                import itertools
                for P in itertools.product(subs, repeat=nh):
                    yield g, list(P), {s: frozenset() for s in range(n)}


def rule_ctl3(prog, labeller, table, tier):
    r = RuleResult('R-CTL-3', 'summary of each direct handler == documented '
                   'semantics on every small model (extracted term)')
    K = Sym('K', ('inst', prog.cls('kripke.Kripke')))
    shp = {k: (v, lhs) for (k, v, lhs) in shapes(prog)}
    nmax = 3
    for key in RESTRICTED_SHAPES:
        kinds = table.get(key)
        if not kinds or len(kinds) != 1:
            continue
        kind = kinds[0]
        val, lhs = shp[key]
        if kind[0] == 'direct':
            handler = kind[1]
            I, res, L, hooks = summarise_handler(prog, labeller, handler,
                                                 key, val, K)
            outs = []
            # a path that enters a handler through an implicit exception of
            # the try body: the exception that can actually occur (add_edge /
            # add_node on an existing member, per the documented API) is part
            # of the evaluation model of the normal path (strict primitives)
            normal = [(p, v) for (p, v) in res
                      if not any(isinstance(c, App) and c.op == 'implicit_exc'
                                 for (c, pol) in p.pc)]
            if normal:
                res = normal
            for (p, v) in res:
                if isinstance(v, Raise):
                    r.fail(Finding(
                        PROP, 'R-CTL-3', I.where(v.node, handler.module),
                        handler.short(), 'raise:' + key,
                        'handler of %s raises %r' % (key, v.exc)), witness=v)
                    continue
                # the sets returned for subformulas are their memo entries:
                # a handler must not modify them
                for e in p.log:
                    if e.kind == 'mutate' and isinstance(e.target, Sym) and \
                            e.target.meta and e.target.meta[0] == 'sat':
                        r.fail(Finding(
                            PROP, 'R-CTL-5', I.where(e.node, handler.module),
                            handler.short(),
                            'child-set-mutated:%s:%s' % (key, e.name),
                            'the handler of %s calls .%s() on the set '
                            'returned for subformula %d: that set is the '
                            'memo entry of the subformula, so its cached '
                            'answer changes (e.g. (p or q) and not p is '
                            'answered wrongly)' % (key, e.name,
                                                   e.target.meta[1])))
                outs.append((I.snapshot(v, p), p, L))
        elif kind[0] == 'inline':
            handler = labeller
            outs = [(kind[1], kind[2], kind[3])]
        else:
            continue
        if not outs:
            raise Inconclusive('R-CTL-3', 'no returning path in handler of '
                               '%s' % (key,), handler.where())
        if len(outs) > 4:
            raise Inconclusive('R-CTL-3', '%d returning paths in handler of '
                               '%s' % (len(outs), key), handler.where())
        # memo: the set is stored under the handler's own formula (on every
        # returning path)
        keyok = True
        entries = []
        for (term, p, L) in outs:
            entries = [pp for pp in p.heap[L.oid].parts]
            ok1 = len(entries) == 1 and entries[0].simple() and \
                _same_formula(entries[0].key, val) and \
                isinstance(entries[0].val, Obj) and \
                isinstance(term, Coll) and entries[0].val.oid == term.oid
            if not ok1 and not entries and kind[0] == 'direct' and \
                    (key, handler.qn) in MEMO_BY_LABELLER:
                # the handler only computes; the dispatcher stores what it
                # returns under the formula it was asked about
                ok1 = True
            if not ok1:
                keyok = False
                break
        if len(outs) > 1:
            # several returning paths (e.g. an early exit): on each model
            # the path whose conditions hold there is the one evaluated
            from ..galg import Evaluator, deep_snapshot
            pcs = [[(deep_snapshot(I, c, p), pol) for (c, pol) in p.pc]
                   for (term, p, L) in outs]

            def select(env):
                hit = []
                for k, pc in enumerate(pcs):
                    e = Evaluator(env)
                    if all(bool(e.ev(c)) == pol for (c, pol) in pc):
                        if e.choice_points:
                            raise NotEvaluable('path condition depends on '
                                               'an arbitrary choice')
                        hit.append(k)
                if len(hit) != 1:
                    raise NotEvaluable('%d of %d returning paths apply' % (
                        len(hit), len(outs)))
                return outs[hit[0]]
        else:
            def select(env):
                return outs[0]
        term, p, L = outs[0]
        # evaluate
        nm = 0
        counter = None
        dep = False
        try:
            for (g, P, labels) in models(key, nmax if (tier == 'thorough' or
                                                       NHOLES[key] < 2)
                                         else 3):
                nm += 1
                env = {K: g, '$labels': labels,
                       Sym('apname'): 'p'}
                if key == 'Atom':
                    ld = dict(labels)
                    ld['not-a-state'] = frozenset(['p'])
                    env['$labeldict'] = ld
                for i, x in enumerate(P):
                    env[Sym('P%d' % i)] = x
                want = spec_value(key, g, P, labels)
                term, p, L = select(env)
                try:
                    lo, hi = evaluate_set(term, env)
                    if not isinstance(lo, frozenset):
                        lo = hi = 'not a set: %r' % (lo,)
                except GraphError as e:
                    aborts = [ev for ev in p.log if ev.kind == 'loop-abort']
                    counter = (g, P, labels, 'raises: %s%s' % (e, (
                        ' -- caught by a handler placed around the loop '
                        '(line %s): the remaining iterations are skipped, the '
                        'result depends on the iteration order' %
                        getattr(aborts[0].node, 'lineno', '?'))
                        if aborts else ''), want)
                    break
                if lo != want or hi != want:
                    got = hi if hi != want else lo
                    counter = (g, P, labels, sorted(got, key=repr)
                               if isinstance(got, frozenset) else got, want)
                    break
        except NotEvaluable as e:
            raise Inconclusive('R-CTL-3', 'summary of %s not evaluable: %s'
                               % (handler.short(), e), handler.where())
        r.inst(shape=key, handler=handler.short(), summary=repr(term)[:400],
               models=nm, memo_key_ok=keyok)
        if counter is None:
            r.ok()
        else:
            g, P, labels, got, want = counter
            r.fail(Finding(
                PROP, 'R-CTL-3', handler.where(), handler.short(),
                'summary:' + key,
                'the set computed for %s differs from the documented '
                'semantics on a %d-state structure' % (key, len(g.nodes)),
                expected=sorted(want), found=got,
                extra={'structure': repr(g),
                       'sat_of_children': [sorted(x) for x in P],
                       'labels': {s: sorted(l) for s, l in labels.items()},
                       'summary': repr(term)[:600]}))
        if keyok:
            r.ok()
        else:
            r.fail(Finding(
                PROP, 'R-CTL-5', handler.where(), handler.short(),
                'memo-key:' + key,
                'handler of %s does not store exactly its result under its '
                'own formula in the memo (entries: %r)' % (key, entries)))
    floor('R-CTL-3', 'shapes in the dispatch table', len(table), 19)
    return r


def _same_formula(a, b):
    if a == b:
        return True
    # Bool: Lang.Bool(True) built anew equals the formula by value
    return isinstance(a, New) and isinstance(b, New) and \
        a.ci.name == 'Bool' and b.ci.name == 'Bool' and a.args == b.args


def rule_ctl2(prog, tier):
    r1, r2 = c05.rules_rw12(prog, tier)
    r = RuleResult('R-CTL-2', 'validity of the CTL rewrite rules used by the '
                   'fallback (engine of C05)')
    for i in r2.instances:
        if i.get('lang') == 'CTL':
            r.instances.append(i)
    for res in (r1, r2):
        for f in res.findings:
            if 'CTL' in f.message.split(' ')[0:3] or \
                    f.message.startswith('CTL '):
                r.findings.append(Finding(PROP, 'R-CTL-2', f.where,
                                          f.qualname, f.key_text, f.message,
                                          f.expected, f.found, f.extra))
    r.obligations = len(r.instances)
    r.discharged = r.obligations - len(r.findings)
    return r


def rule_ctl5(prog, entry, labeller, memo_ok, why):
    r = RuleResult('R-CTL-5', 'memo is allocated per call; no default '
                   'argument or module attribute holds it')
    r.inst(entry=entry.short(), labeller=labeller.short(),
           memo_fresh_per_call=memo_ok)
    if memo_ok:
        r.ok()
    else:
        r.fail(Finding(PROP, 'R-CTL-5', entry.where(), entry.short(),
                       'memo-not-fresh', 'CTL.modelcheck does not hand a '
                       'fresh empty dict to the labeller: ' + why))
    # mutable default arguments in the model checking module
    import ast
    for fi in prog.all_functions():
        if fi.module is not labeller.module:
            continue
        for d in fi.node.args.defaults + [k for k in fi.node.args.kw_defaults
                                          if k is not None]:
            mutable = isinstance(d, (ast.Dict, ast.List, ast.Set)) or (
                isinstance(d, ast.Call) and isinstance(d.func, ast.Name) and
                d.func.id in ('dict', 'list', 'set'))
            r.inst(function=fi.short(), default=ast.unparse(d),
                   mutable=mutable)
            if mutable:
                r.fail(Finding(PROP, 'R-CTL-5', fi.where(), fi.short(),
                               'mutable-default:' + ast.unparse(d),
                               'mutable default argument %s outlives the '
                               'call (shared memo across calls)' %
                               ast.unparse(d)))
            else:
                r.ok()
    return r


def own_rules(prog, tier, T):
    """the rules about the CTL labeller itself (also run by the checks of
    the properties that rely on the CTL checker)"""
    d = T(discover_labeller, prog, _n=4)
    entry, labeller, memo_ok, why = d
    if labeller is None:
        T.skipped('R-CTL-1, R-CTL-3, R-CTL-5')
        return T.results(T(rule_ctl2, prog, tier))
    r1, table = T(rule_ctl1, prog, labeller, _n=2)
    r2 = T(rule_ctl2, prog, tier)
    if table is not None:
        r3 = T(rule_ctl3, prog, labeller, table, tier)
    else:
        r3 = None
        T.skipped('R-CTL-3')
    r5 = T(rule_ctl5, prog, entry, labeller, memo_ok, why)
    from . import c09
    r5b = T(c09.rule_rt4, prog, PROP, 'R-CTL-5b', langs=('CTL',))
    if r5b is not None:
        r5b.title = ('memo key (printed form in CTL notation) is injective: '
                     'two CTL trees never share a memo entry')
    return T.results(r1, r2, r3, r5, r5b, T(_text_atoms, prog))


def _text_atoms(prog, prop=PROP):
    """formulas may be given as text: an atom written in the text must name
    the label it names in the structure (identifier as it is, quoted name
    without its quotes)"""
    from . import c09, c10
    return c10.rule_gr8(prog, c09.grammars(prog), prop)


def run(prog, tier, seed):
    T = Attempts()
    own = own_rules(prog, tier, T)
    expl = ('The CTL labeller is discovered from CTL.modelcheck and '
            'interpreted abstractly per formula shape: (1) every restricted '
            'shape is handled directly and every other shape is rewritten '
            'exactly once into a directly handled shape (termination, no '
            'fallback loop); (2) the rewrite rules are valid (C05 engine); '
            '(3) each direct handler is summarised as a closed set/graph '
            'algebra term over the sets of its children and the graph '
            'primitives, and that extracted term equals the documented '
            'semantics (complement, union, pre-image, EU/EG fixpoints) on '
            'every total structure with <= 3 states and all child sets; '
            '(4) memo discipline. Not decided: that graph.py implements the '
            'primitives (C12 n/a, C13).')
    assumptions = ['graph primitives (subgraph, reversed, reachability, '
                   'SCCs, next) behave as documented (C12/C13)',
                   'handler summaries are compared on all total structures '
                   'with <= 3 states: bounded',
                   'memo key injectivity: printer grammar of the CTL notation '
                   'is LR(1) over canonical tokens (atoms identifier-style, '
                   'not reserved words)']
    # components the exactness of the CTL answers relies on (each rule is a
    # necessary condition here too: EG uses compute_SCCs, EU/EG the
    # subgraph / reversed graph / reachability of DiGraph, the rewriting of
    # leaves uses clone)
    from . import c11, c12, c13
    adj = T(c13.adjacency_field, prog)
    dep = adopt(T.results(
        T(c12.rule_scc, prog), T(c12.rule_scc6, prog),
        T(c12.rule_scc9, prog),
        T(c13.rule_g12, prog, adj, _n=2) if adj else None,
        T(c13.rule_g3, prog, adj) if adj else None,
        T(c11.rule_eq2, prog)), PROP, 'relied on by the CTL labeller')
    return own + dep, expl, assumptions, T.extra()
