"""C04 -- the three checkers agree and obey the semantic laws (partial, by
composition).

The property relates values computed at run time by three procedures; no
static argument in reach decides it as stated.  What is decided are the
clauses whose truth is in the shape of the code, each a necessary condition
of a *named* clause of the property (breaking it breaks that law on some
input), all of them rules that belong to the checkers themselves:

 law                                       decided by
 ----------------------------------------  -----------------------------------
 not f = complement, or = union            R-CTL-3 (handlers of Not / Or equal
                                           complement / union on every small
                                           structure), R-CTL-5 (a handler does
                                           not modify a child's memo set)
 and, implies, A g = not E not g,          R-CTL-2 (every CTL rewrite rule is
 AX/AF/AG/AU/AR, EF, ER                    valid), R-RW-3 (LNot parity),
                                           R-LTL-1 (A g = complement of E not g)
 fixpoint laws EX / EU / EG                R-CTL-3 (handlers equal the fixpoint
                                           semantics), R-SCC-* (EG relies on the
                                           SCCs)
 CTL = CTL* on CTL formulas,               R-CTLS-4/5 (CTL* delegates to
 LTL = CTL* on A-rooted LTL formulas       CTL.modelcheck / LTL.modelcheck on
                                           the processed formula)
 CTL = LTL on the common fragment          R-LTL-0..5 (necessary conditions of
                                           the tableau procedure) + R-CTL-*
 text = object                             R-GR-4 (each modelcheck parses text
                                           with the parser of its own logic),
                                           R-PURE-3 (no checker modifies the
                                           formula object it is given, so the
                                           object stays what the text says)
 CTL* = CTL / LTL below the quantifiers    R-CTLS-1/2 (the CTL* eliminator
                                           rebuilds the same operator over
                                           the processed operands)

Not decided: the agreement itself (that needs exactness of both sides, see
C01-C03: partial).
"""
from ..report import Attempts, adopt

PROP = 'C04'


def run(prog, tier, seed):
    from . import c01, c02, c03, c05, c09, c10, c12
    T = Attempts()
    res = c01.own_rules(prog, tier, T) + c02.own_rules(prog, tier, T)
    D = T(c03.discover, prog)
    if D is not None:
        res = res + T.results(T(c03.rule_ctls45, prog, D, _n=2),
                              T(c03.rule_ctls12, prog, D, _n=2))
    else:
        T.skipped('R-CTLS-1, R-CTLS-2, R-CTLS-4, R-CTLS-5')
    # text vs object: an object formula must still be the formula the caller
    # wrote after it has been checked once (formulas are never modified)
    from . import c07
    E = T(c07.effects, prog)
    if E is not None:
        res = res + T.results(T(c07.rule_pure3, prog, E))
    # CTL* and the fair variants label a clone of the structure: a clone
    # that shares label sets (with K or between its own states) makes CTL*
    # disagree with CTL
    from . import c13, c14
    adj = T(c13.adjacency_field, prog)
    if adj:
        res = res + T.results(T(c14.rule_k1, prog, adj),
                              T(c14.rule_k4, prog, adj),
                              # the graph operations the CTL handlers compose
                              # (a reachability that edits the set it is
                              # given edits a memoised child set)
                              T(c13.rule_g12, prog, adj, _n=2),
                              T(c13.rule_g3, prog, adj),
                              T(c13.rule_g0, prog, adj))
    G = T(c09.grammars, prog)
    res = res + T.results(
        T(c12.rule_scc, prog), T(c12.rule_scc6, prog),
        T(c12.rule_scc9, prog), T(c05.rule_rw3, prog),
        T(c10.rule_gr4, prog, G) if G is not None else None)
    results = adopt(res, PROP, 'law of C04 it is necessary for: see '
                    'pmcv/rules/c04.py')
    expl = ('PARTIAL, by composition. C04 relates run-time results of three '
            'procedures; decided are the code-shape clauses that are '
            'necessary conditions of its named laws: the CTL handlers of '
            'Not/Or/EX/EU/EG equal complement/union/pre-image/fixpoints on '
            'every small structure and do not modify memoised child sets '
            '(Boolean and fixpoint laws); every CTL rewrite rule (And, '
            'Imply, AX, AF, AG, AU, AR, EF, ER) is valid and LNot has odd '
            'parity (A g = not E not g); LTL computes A g as the complement '
            'of E not g and its tableau parts satisfy their necessary '
            'conditions; CTL* delegates to CTL/LTL on the processed formula '
            '(agreement of CTL* with both); compute_SCCs satisfies the '
            'necessary conditions EG and the tableau rely on; each '
            'modelcheck parses text with the parser of its own logic (text '
            'vs object). The agreement itself is NOT decided.')
    assumptions = ['same as C01, C02, C03 for the borrowed rules',
                   'agreement of the three checkers follows from their '
                   'exactness, which is only partially decided']
    return results, expl, assumptions, T.extra()
