"""C12 -- strongly connected components (partial: necessary conditions only).

The correctness of the iterative lowlink algorithm for every digraph is a
loop-invariant proof and is NOT decided.  Decided are structural clauses of
the post-order step of compute_SCCs, each a necessary condition (breaking it
gives a wrong partition on some graph / insertion order):

R-SCC-1 every lowlink update in the successor scan lowers lowlink[v]
        (min with its current value) towards lowlink[w] or disc[w] and is
        dominated by `w not in <closed set>`
R-SCC-2 a component is emitted exactly when lowlink[v] == disc[v]
R-SCC-3 on emission v and every node popped from the component stack are
        yielded and marked closed; the pop loop is guarded by
        disc[top] > disc[v]
R-SCC-4 otherwise v is pushed on the component stack and nothing is closed
R-SCC-5 compute_SCCs does not modify its argument
"""
import ast

from ..program import AnalysisError, Inconclusive, ClassInfo
from ..values import (Const, Sym, CRef, FRef, Bound, Obj, Tup, App, New,
                      Raise, Coll, walk)
from ..interp import Interp, Hooks
from ..galg import GraphHooks
from ..report import Finding, RuleResult, floor, Attempts
from .c13 import syntactic_param_writes

PROP = 'C12'


def _sentinel_split(f):
    """the other spelling of "successors exhausted": inside a loop,
           w = next(<iterator>, SENTINEL)
           if w is not SENTINEL: <DFS step> ; continue
           <post-order step>
    (or `if w is SENTINEL: <post-order step> else: <DFS step>`)
    -> (DFS step as statements starting with `w = next(<iterator>)`,
        post-order step) or None"""
    for loop in ast.walk(f.node):
        if not isinstance(loop, (ast.While, ast.For)):
            continue
        body = loop.body
        for i, st in enumerate(body[:-1]):
            if not (isinstance(st, ast.Assign) and len(st.targets) == 1 and
                    isinstance(st.targets[0], ast.Name) and
                    isinstance(st.value, ast.Call) and
                    isinstance(st.value.func, ast.Name) and
                    st.value.func.id == 'next' and
                    len(st.value.args) == 2 and not st.value.keywords and
                    isinstance(st.value.args[1], ast.Name)):
                continue
            w, sent = st.targets[0].id, st.value.args[1].id
            nx = body[i + 1]
            if not (isinstance(nx, ast.If) and
                    isinstance(nx.test, ast.Compare) and
                    len(nx.test.ops) == 1 and
                    isinstance(nx.test.left, ast.Name) and
                    nx.test.left.id == w and
                    isinstance(nx.test.comparators[0], ast.Name) and
                    nx.test.comparators[0].id == sent):
                continue
            first = ast.Assign(
                targets=[ast.Name(id=w, ctx=ast.Store())],
                value=ast.Call(func=ast.Name(id='next', ctx=ast.Load()),
                               args=[st.value.args[0]], keywords=[]))
            ast.copy_location(first, st)
            ast.fix_missing_locations(first)
            rest = body[i + 2:]
            if isinstance(nx.test.ops[0], ast.IsNot) and nx.body and \
                    isinstance(nx.body[-1], ast.Continue) and not nx.orelse:
                return [first] + nx.body[:-1], rest
            if isinstance(nx.test.ops[0], ast.IsNot) and nx.orelse and \
                    not rest:
                return [first] + nx.body, nx.orelse
            if isinstance(nx.test.ops[0], ast.Is) and nx.orelse and not rest:
                return [first] + nx.orelse, nx.body
            if isinstance(nx.test.ops[0], ast.Is) and nx.body and \
                    isinstance(nx.body[-1], ast.Continue) and not nx.orelse:
                return [first] + rest, nx.body[:-1]
    return None


def post_order_block(f):
    """the block that runs when the successors of the top of the DFS stack
    are exhausted"""
    for n in ast.walk(f.node):
        if isinstance(n, ast.Try):
            for h in n.handlers:
                if h.type is not None and \
                        'StopIteration' in ast.unparse(h.type):
                    return h.body
    sp = _sentinel_split(f)
    if sp is not None:
        return sp[1]
    raise Inconclusive('R-SCC-1', 'post-order block (except StopIteration, '
                       'or the branch taken when next(it, SENTINEL) gives '
                       'the sentinel) not found', f.where())


class _H(GraphHooks):
    def __init__(self, prog):
        self.graph_init(prog)


def free_names(block):
    assigned = set()
    used = []
    for st in block:
        for n in ast.walk(st):
            if isinstance(n, ast.Name):
                if isinstance(n.ctx, ast.Load) and n.id not in used:
                    used.append(n.id)
    return used


def interpret_block(prog, f, block):
    I = Interp(prog, _H(prog), rule='R-SCC-1')
    path = I.new_path()
    fo = path.alloc('frame')
    fr = path.heap[fo.oid]
    fr.module = f.module
    fr.fnode = f.node
    params = [a.arg for a in f.node.args.args]
    # local helper functions (closures over the bookkeeping state) are
    # defined first, so that the block's calls to them are seen through
    local_defs = [st for st in f.node.body if isinstance(st, ast.FunctionDef)]
    names = free_names(block)
    for d in local_defs:
        own = set(a.arg for a in d.args.args)
        for nme in free_names(d.body):
            if nme not in own and nme not in names:
                names.append(nme)
    defined = set(d.name for d in local_defs)
    for nme in names:
        if nme in defined:
            continue
        if nme in params:
            fr.vars[nme] = Sym(nme, ('inst', prog.cls('graph.DiGraph')))
        elif nme in ('min', 'max', 'len', 'iter', 'next', 'set', 'list',
                     'dict', 'isinstance'):
            continue
        else:
            fr.vars[nme] = Sym(nme)
    fr.vars['$yield'] = path.alloc('list')
    for d in local_defs:
        I.exec_stmt(d, fo.oid, path)
    I.stack.append(f)
    try:
        res = I.exec_block(block, fo.oid, path)
    finally:
        I.stack.pop()
    return I, res, fo.oid


def _item(d, k):
    return App('item', d, k)


def rule_scc(prog):
    r1 = RuleResult('R-SCC-1', 'lowlink updates: monotone (min with the '
                    'current value), towards lowlink[w] / disc[w], guarded '
                    'by `w not in closed`')
    r2 = RuleResult('R-SCC-2', 'a component is emitted iff lowlink[v] == '
                    'disc[v]')
    r3 = RuleResult('R-SCC-3', 'emission: v and every popped node are '
                    'yielded and closed; pop guard disc[top] > disc[v]')
    r4 = RuleResult('R-SCC-4', 'non-root: v is pushed on the component '
                    'stack, nothing is closed or yielded')
    f = prog.func('graph.compute_SCCs')
    block = post_order_block(f)
    I, res, fo = interpret_block(prog, f, block)
    res = [(p, s) for (p, s) in res if not isinstance(s, Raise)]
    if not res:
        raise Inconclusive('R-SCC-1', 'no path through the post-order block',
                           f.where())
    # roles: v = the node popped from the DFS stack (first unpacked value);
    # lowlink = the dict written in the scan; closed = the set tested there
    updates = []
    for (p, s) in res:
        for e in p.log:
            if e.kind == 'setitem' and e.loops:
                updates.append((p, e))
    if not updates:
        # no `lowlink[v] = ...` inside a successor scan was recognised:
        # another organisation of the bookkeeping (records, helper objects)
        raise Inconclusive('R-SCC-1', 'no lowlink update recognised in the '
                           'post-order step', f.where())
    L = updates[0][1].target
    v = updates[0][1].args[0]
    loopvar = updates[0][1].loops[-1].var
    seen = set()
    closed = None
    for (p, e) in updates:
        key = (repr(e.args), tuple(repr(c) for c in e.pc))
        if key in seen:
            continue
        seen.add(key)
        k, val = e.args
        okk = (e.target == L and k == v)
        terms = None
        if isinstance(val, App) and val.op == 'min':
            a = val.args
            if len(a) == 1 and isinstance(a[0], Coll):
                terms = [q.val for q in a[0].parts]
            else:
                terms = list(a)
        mono = terms is not None and _item(L, v) in terms
        others = [t for t in (terms or []) if t != _item(L, v)]
        if terms is None:
            # `if cand < lowlink[v]: lowlink[v] = cand`
            for (c, pol) in e.pc:
                if isinstance(c, App) and c.op == 'cmp':
                    o, a, b = c.args[0].v, c.args[1], c.args[2]
                    if not pol:
                        o = {'>': '<=', '<': '>=', '>=': '<',
                             '<=': '>'}.get(o, o)
                    if (o in ('<', '<=') and a == val and
                            b == _item(L, v)) or \
                            (o in ('>', '>=') and b == val and
                             a == _item(L, v)):
                        mono = True
                        others = [val]
        w = e.loops[-1].var

        def leaves(t):
            if isinstance(t, App) and t.op == 'ite':
                return leaves(t.args[1]) + leaves(t.args[2])
            return [t]
        lv = [x for t in others for x in leaves(t)]
        toward = len(others) == 1 and bool(lv) and all(
            isinstance(x, App) and x.op == 'item' and x.args[1] == w
            for x in lv)
        # which table each case reads: for a DFS descendant of v (discovered
        # after v: disc[w] > disc[v]) the value to take is lowlink[w] -- its
        # discovery number is larger than everything v can reach through it
        def cases(t, conds):
            if isinstance(t, App) and t.op == 'ite':
                return cases(t.args[1], conds + [(t.args[0], True)]) + \
                    cases(t.args[2], conds + [(t.args[0], False)])
            return [(t, conds)]

        def later(conds):
            """True / False / None: is w known to be discovered after v"""
            for (c, pol) in conds:
                if isinstance(c, App) and c.op == 'cmp' and \
                        c.args[0].v in ('>', '<', '>=', '<='):
                    o, a, b = c.args[0].v, c.args[1], c.args[2]
                    if not (isinstance(a, App) and a.op == 'item' and
                            isinstance(b, App) and b.op == 'item' and
                            a.args[0] == b.args[0] and a.args[0] != L):
                        continue
                    if a.args[1] == v and b.args[1] == w:
                        a, b = b, a
                        o = {'>': '<', '<': '>', '>=': '<=', '<=': '>='}[o]
                    if not (a.args[1] == w and b.args[1] == v):
                        continue
                    if not pol:
                        o = {'>': '<=', '<': '>=', '>=': '<', '<=': '>'}[o]
                    return o in ('>', '>=')
            return None
        wrong_table = None
        for t in others:
            for (leaf, conds) in cases(t, list(e.pc)):
                if isinstance(leaf, App) and leaf.op == 'item' and \
                        leaf.args[1] == w and later(conds) is True and \
                        leaf.args[0] != L:
                    wrong_table = leaf
        if wrong_table is not None:
            r1.fail(Finding(
                PROP, 'R-SCC-1', I.where(e.node, f.module), f.short(),
                'descendant-disc:%s' % ast.unparse(e.node)[:80],
                'for a successor w discovered after v (a DFS descendant) '
                'the update `%s` takes %r, the discovery number, instead of '
                'lowlink[w]: what w reaches above v is not passed on through '
                'more than one tree edge, so a cycle of three or more nodes '
                'is cut into pieces' % (ast.unparse(e.node)[:80],
                                        wrong_table)))
        else:
            r1.ok()
        guard = [c for (c, pol) in e.pc if not pol and isinstance(c, App) and
                 c.op == 'in' and c.args[0] == w]
        if guard and closed is None:
            closed = guard[0].args[1]
        r1.inst(update='%r[%r] = %r' % (L, k, val),
                condition=[('' if pol else 'not ') + repr(c)[:60]
                           for (c, pol) in e.pc],
                monotone=mono, towards_successor=toward,
                guarded_by_closed_set=bool(guard))
        where = I.where(e.node, f.module)
        if not okk:
            r1.fail(Finding(PROP, 'R-SCC-1', where, f.short(),
                            'update-target:%r' % (k,),
                            'the scan updates %r[%r], not the lowlink of '
                            'the node being finished' % (e.target, k)))
        if mono:
            r1.ok()
        else:
            r1.fail(Finding(
                PROP, 'R-SCC-1', where, f.short(),
                'not-monotone:%s' % ast.unparse(e.node)[:80],
                'the update `%s` does not take the minimum with the current '
                'lowlink of v: a value lowered by an earlier successor is '
                'overwritten, v is taken for a component root and its '
                'component is split (depends on successor order)' %
                ast.unparse(e.node)[:80],
                expected='lowlink[v] = min(lowlink[v], ...)'))
        if toward:
            r1.ok()
        else:
            r1.fail(Finding(PROP, 'R-SCC-1', where, f.short(),
                            'not-successor:%s' % ast.unparse(e.node)[:80],
                            'the update `%s` does not use lowlink/disc of '
                            'the successor being scanned' %
                            ast.unparse(e.node)[:80]))
        if guard:
            r1.ok()
        else:
            r1.fail(Finding(
                PROP, 'R-SCC-1', where, f.short(),
                'unguarded:%s' % ast.unparse(e.node)[:80],
                'the update `%s` is not dominated by `w not in <closed '
                'set>`: a successor that belongs to an already emitted '
                'component lowers lowlink[v]; v is then never recognised as '
                'a root and nodes are missing from the output' %
                ast.unparse(e.node)[:80],
                expected='w not in the set of closed nodes'))
    floor('R-SCC-1', 'lowlink updates', len(r1.instances), 1)
    # emission vs push
    nem = npush = 0
    D_role = []
    for (p, s) in res:
        ys = p.heap[p.heap[fo].vars['$yield'].oid].parts
        # `a != b` (false) is `a == b` (true)
        eqs = [(App('cmp', Const('=='), c.args[1], c.args[2]),
                pol if c.args[0].v == '==' else not pol)
               for (c, pol) in p.pc if isinstance(c, App) and
               c.op == 'cmp' and c.args[0].v in ('==', '!=')]
        root = [pol for (c, pol) in eqs if _item(L, v) in c.args[1:]]
        roottest = [c for (c, pol) in eqs if _item(L, v) in c.args[1:]]
        closes = [e for e in p.log if e.kind == 'mutate' and
                  closed is not None and e.target == closed]
        pushes = [e for e in p.log if e.kind == 'mutate' and
                  e.name == 'append' and e.target != closed and
                  isinstance(e.target, Sym)]
        if ys:
            nem += 1
            c0 = roottest[0] if roottest else None
            other = [a for a in (c0.args[1:] if c0 is not None else [])
                     if a != _item(L, v)]
            okroot = bool(root) and root[0] and len(other) == 1 and \
                isinstance(other[0], App) and other[0].op == 'item' and \
                other[0].args[1] == v and other[0].args[0] != L
            D = other[0].args[0] if okroot else None
            if D is not None and not D_role:
                D_role.append(D)
            r2.inst(path='emit', condition=[('' if pol else 'not ') +
                                            repr(c)[:70]
                                            for (c, pol) in p.pc][:4],
                    root_test_ok=okroot)
            if okroot:
                r2.ok()
            else:
                r2.fail(Finding(
                    PROP, 'R-SCC-2', f.where(), f.short(), 'root-test',
                    'a component is emitted under %s, not under lowlink[v] '
                    '== disc[v]' % ([repr(c) for c in roottest],)))
            # yielded list: v and popped nodes, each closed
            lst = ys[0].val
            parts = p.heap[lst.oid].parts if isinstance(lst, Obj) else []
            vals = [(q.val, q.kind) for q in parts]
            has_v = any(val == v for (val, k) in vals)
            popped = [val for (val, k) in vals if val != v]
            closed_vals = []
            for e in closes:
                if e.name == 'add':
                    closed_vals.append(e.args[0])
                elif e.name == 'update':
                    x = e.args[0]
                    closed_vals.append(('all-of', x))
            ok_v = has_v and (v in closed_vals)
            ok_pop = bool(popped) and all(
                (k in closed_vals) for k in popped)
            # `update(scc)` closes whatever is in scc *at that time*
            for cv in closed_vals:
                if isinstance(cv, tuple) and cv[0] == 'all-of':
                    snap = cv[1]
                    inside = [q.val for q in snap.parts] if isinstance(
                        snap, Coll) else []
                    if v in inside:
                        ok_v = has_v
                    ok_pop = bool(popped) and all(k in inside
                                                  for k in popped)
            popguard = False
            for q in parts:
                if q.val == v:
                    continue
                for (c, pol) in q.conds:
                    for x in walk(c):
                        if not (isinstance(x, App) and x.op == 'cmp' and
                                D is not None):
                            continue
                        o, a, b = x.args[0].v, x.args[1], x.args[2]
                        if not pol:
                            o = {'>': '<=', '<': '>=', '>=': '<',
                                 '<=': '>'}.get(o, o)
                        # disc[top] > disc[v]  (>= is the same: the root is
                        # not on the component stack and disc is injective)
                        if (o in ('>', '>=') and b == _item(D, v)) or \
                                (o in ('<', '<=') and a == _item(D, v)):
                            popguard = True
            r3.inst(yields=[repr(x)[:40] for (x, k) in vals],
                    closes=[repr(x)[:40] for x in closed_vals],
                    v_yielded_and_closed=ok_v, popped_closed=ok_pop,
                    pop_guard=popguard)
            for ok, key, msg in (
                    (ok_v, 'root-closed', 'the root v is not both yielded '
                     'and added to the closed set'),
                    (ok_pop, 'popped-closed', 'a node popped from the '
                     'component stack is yielded without being added to the '
                     'closed set: a later DFS tree with an edge into it '
                     'lowers its lowlink and loses nodes'),
                    (popguard, 'pop-guard', 'the pop loop is not guarded by '
                     'disc[top] > disc[v]')):
                if ok:
                    r3.ok()
                else:
                    r3.fail(Finding(PROP, 'R-SCC-3', f.where(), f.short(),
                                    key, 'on emission of a component: ' +
                                    msg))
        else:
            npush += 1
            okp = any(e.args and e.args[0] == v for e in pushes) and \
                not closes and bool(root) and not root[0]
            r4.inst(path='not a root', pushes=[repr(e.args)[:40]
                                               for e in pushes],
                    closes=len(closes), ok=okp)
            if okp:
                r4.ok()
            else:
                r4.fail(Finding(
                    PROP, 'R-SCC-4', f.where(), f.short(), 'non-root',
                    'when lowlink[v] != disc[v] the node is not (only) '
                    'pushed on the component stack'))
    if nem == 0 or npush == 0:
        raise Inconclusive('R-SCC-2', 'emission / push paths: %d / %d' % (
            nem, npush), f.where())
    ROLES['L'], ROLES['D'] = L, D_role[0] if D_role else None
    return [r1, r2, r3, r4]


ROLES = {}


def discovery_block(f):
    """the body of the `try` whose handler is the post-order block: one step
    of the DFS driver (take the next successor, open it if it is new)"""
    for n in ast.walk(f.node):
        if isinstance(n, ast.Try):
            for h in n.handlers:
                if h.type is not None and \
                        'StopIteration' in ast.unparse(h.type):
                    return n.body
    sp = _sentinel_split(f)
    if sp is not None:
        return sp[0]
    raise Inconclusive('R-SCC-6', 'DFS step not found', f.where())


def _popped_names(f):
    out = set()
    for n in ast.walk(f.node):
        if isinstance(n, ast.Call) and isinstance(n.func, ast.Attribute) \
                and n.func.attr in ('pop', 'popleft', 'remove', 'clear') and \
                isinstance(n.func.value, ast.Name):
            out.add(n.func.value.id)
        if isinstance(n, ast.Delete):
            for t in n.targets:
                for m in ast.walk(t):
                    if isinstance(m, ast.Name):
                        out.add(m.id)
    return out


def rule_scc6(prog):
    """discovery numbering: a node opened by the DFS driver gets a number
    strictly greater than every number given before in this tree, and its
    lowlink starts at that number"""
    r = RuleResult('R-SCC-6', 'discovery: a newly opened node gets a '
                   'strictly increasing number, lowlink starts equal to it')
    f = prog.func('graph.compute_SCCs')
    L, D = ROLES.get('L'), ROLES.get('D')
    if L is None or D is None:
        raise Inconclusive('R-SCC-6', 'roles lowlink / disc not established',
                           f.where())
    block = discovery_block(f)
    I, res, fo = interpret_block(prog, f, block)
    popped = _popped_names(f)
    n = 0
    for (p, s) in res:
        if isinstance(s, Raise):
            continue
        sets = [e for e in p.log if e.kind == 'setitem']
        dsets = [e for e in sets if e.target == D]
        lsets = [e for e in sets if e.target == L]
        if not dsets:
            continue
        n += 1
        for e in dsets:
            k, val = e.args
            new = any(isinstance(c, App) and c.op == 'in' and
                      c.args[0] == k and c.args[1] == D and not pol
                      for (c, pol) in e.pc)
            form = 'unknown'
            if isinstance(val, App) and val.op == 'binop' and \
                    val.args[0].v == '+' and \
                    isinstance(val.args[1], Sym) and \
                    isinstance(val.args[2], Const) and \
                    isinstance(val.args[2].v, int) and val.args[2].v > 0:
                # counter + c ; the counter variable keeps the new value
                cname = val.args[1].name
                kept = p.heap[fo].vars.get(cname) == val
                form = 'counter' if kept else 'counter-not-updated'
            elif isinstance(val, App) and val.op == 'len' and \
                    len(val.args) == 1:
                x = val.args[0]
                base = x.name if isinstance(x, Sym) else None
                if x == D and getattr(D, 'name', None) not in popped:
                    form = 'size-of-disc'
                elif base in popped:
                    form = 'size-of-shrinking:' + base
            linit = [e2 for e2 in lsets if e2.args[0] == k]
            lok = bool(linit) and all(e2.args[1] == val for e2 in linit)
            r.inst(opens=repr(k), number=repr(val)[:80], form=form,
                   guarded_by_not_discovered=new, lowlink_starts_equal=lok)
            where = I.where(e.node, f.module)
            if form in ('counter', 'size-of-disc'):
                r.ok()
            elif form == 'unknown':
                raise Inconclusive('R-SCC-6', 'discovery number %r' % (val,),
                                   where)
            else:
                r.fail(Finding(
                    PROP, 'R-SCC-6', where, f.short(),
                    'numbering:%s' % form,
                    'the discovery number `%s` given to a newly opened node '
                    'is not strictly increasing (%s): two nodes of one DFS '
                    'tree can get the same or a smaller number, so the '
                    'tree/back-edge test and the root test compare wrong '
                    'values and components are split or merged' % (
                        ast.unparse(e.node)[:80], form)))
            if new:
                r.ok()
            else:
                r.fail(Finding(
                    PROP, 'R-SCC-6', where, f.short(), 'renumbering',
                    'a discovery number is assigned to a node without the '
                    'test that it has not been discovered yet'))
            if lok:
                r.ok()
            else:
                r.fail(Finding(
                    PROP, 'R-SCC-6', where, f.short(), 'lowlink-init',
                    'the lowlink of a newly opened node does not start at '
                    'its discovery number'))
    if n == 0:
        raise Inconclusive('R-SCC-6', 'no path of the DFS step opens a node',
                           f.where())
    return r


def _fresh_expr(e):
    """an expression whose value is a new object nobody else holds"""
    if isinstance(e, (ast.List, ast.Tuple, ast.Set, ast.ListComp, ast.SetComp,
                      ast.Constant)):
        return True
    if isinstance(e, ast.Call) and isinstance(e.func, ast.Name) and \
            e.func.id in ('list', 'tuple', 'set', 'frozenset', 'sorted'):
        return True
    return False


def rule_scc7(prog):
    """ownership of a yielded component: compute_SCCs is a generator; the
    list it hands out belongs to the caller from the `yield` on.  If the
    generator reads it after being resumed, what the caller did to it in
    between (clear / pop / sort / extend) changes the rest of the
    enumeration."""
    r = RuleResult('R-SCC-7', 'a yielded component is not used by the '
                   'generator after the yield')
    f = prog.func('graph.compute_SCCs')
    from ..flow import use_after, simple_aliases, _blocks_of
    ys = []

    def stmts(block):
        for s in block:
            yield s
            if isinstance(s, (ast.FunctionDef, ast.ClassDef)):
                continue
            for fld in ('body', 'orelse', 'finalbody'):
                b = getattr(s, fld, None)
                if isinstance(b, list) and b and isinstance(b[0], ast.stmt):
                    for x in stmts(b):
                        yield x
            for h in getattr(s, 'handlers', []) or []:
                for x in stmts(h.body):
                    yield x
    for s in stmts(f.node.body):
        if any(True for _ in _blocks_of(s)):
            continue            # compound: its simple statements follow
        own = [n for n in ast.walk(s) if isinstance(n, (ast.Yield,
                                                        ast.YieldFrom))]
        for y in own:
            ys.append((s, y))
    if not ys:
        raise Inconclusive('R-SCC-7', 'compute_SCCs yields nothing: not a '
                           'generator any more', f.where())
    for (s, y) in ys:
        where = '%s:%d' % (f.module.relpath, y.lineno)
        v = y.value
        if isinstance(y, ast.YieldFrom) or v is None:
            raise Inconclusive('R-SCC-7', 'yield form `%s`' % ast.unparse(y),
                               where)
        if _fresh_expr(v):
            r.inst(yield_=ast.unparse(y), yielded='fresh object')
            r.ok()
            continue
        if not isinstance(v, ast.Name):
            raise Inconclusive('R-SCC-7', 'yielded expression `%s` is '
                               'neither a local name nor a fresh object' %
                               ast.unparse(v), where)
        names = sorted(simple_aliases(f.node, v.id))
        use = None
        for nm in names:
            u = use_after(f.node, s, nm)
            if u is not None:
                use = (nm, u)
                break
        r.inst(yield_=ast.unparse(y), names=names,
               used_after=('%s at line %d' % (use[0], use[1].lineno))
               if use else None)
        if use:
            r.fail(Finding(
                PROP, 'R-SCC-7', '%s:%d' % (f.module.relpath, use[1].lineno),
                f.short(), 'use-after-yield:%s' % v.id,
                'the component yielded at line %d (`%s`) is used again by '
                'the generator at line %d after it has been handed to the '
                'caller: a caller that edits the list between two steps of '
                'the generator changes the bookkeeping (closed set / stack) '
                'and later components come out merged or are lost' % (
                    y.lineno, ast.unparse(y), use[1].lineno)))
        else:
            r.ok()
    return r


def rule_scc8(prog):
    """a component emitted outside the post-order step (a shortcut for
    "obviously trivial" nodes): the node must still be marked discovered,
    otherwise a later DFS tree that has an edge into it takes it for a new
    node and emits it again"""
    r = RuleResult('R-SCC-8', 'a component is emitted only for discovered '
                   'nodes (no emission shortcut bypasses the bookkeeping)')
    f = prog.func('graph.compute_SCCs')
    D = ROLES.get('D')
    post = post_order_block(f)
    inside = set(id(n) for st in post for n in ast.walk(st))
    extra = []
    from ..flow import _chain
    for n in ast.walk(f.node):
        if isinstance(n, ast.Yield) and id(n) not in inside:
            extra.append(n)
    r.inst(emissions_outside_post_order_step=len(extra))
    if not extra:
        r.ok()
        return r
    if D is None or not isinstance(D, Sym):
        raise Inconclusive('R-SCC-8', 'role disc not established',
                           f.where())
    dname = D.name
    for y in extra:
        # the simple statement holding the yield, and what precedes it in
        # the blocks that lead to it
        holder = None
        for st in ast.walk(f.node):
            if isinstance(st, (ast.Expr, ast.Assign)) and \
                    any(m is y for m in ast.walk(st)):
                holder = st
        ch = _chain(f.node, holder) if holder is not None else None
        if ch is None or y.value is None:
            raise Inconclusive('R-SCC-8', 'emission `%s` not located' %
                               ast.unparse(y), f.where())
        names = [m.id for m in ast.walk(y.value) if isinstance(m, ast.Name)]
        before = []
        for (container, fld, block, idx) in ch:
            before.extend(block[:idx])
        marked = set()
        for st in before:
            for m in ast.walk(st):
                if isinstance(m, ast.Assign):
                    for t in m.targets:
                        for tt in ([t] + list(getattr(t, 'elts', []))):
                            if isinstance(tt, ast.Subscript) and \
                                    isinstance(tt.value, ast.Name) and \
                                    tt.value.id == dname and \
                                    isinstance(tt.slice, ast.Name):
                                marked.add(tt.slice.id)
        missing = [n for n in names if n not in marked]
        r.inst(emission=ast.unparse(y), line=y.lineno,
               discovered_before=sorted(marked), not_discovered=missing)
        if missing:
            r.fail(Finding(
                PROP, 'R-SCC-8', '%s:%d' % (f.module.relpath, y.lineno),
                f.short(), 'emission-shortcut:%s' % ast.unparse(y),
                'the component `%s` is emitted at line %d outside the '
                'post-order step without `%s[%s]` having been set: the node '
                'stays undiscovered, a later DFS tree with an edge into it '
                'opens it again and it is emitted twice' % (
                    ast.unparse(y.value), y.lineno, dname, missing[0])))
        else:
            r.ok()
    return r


def rule_scc9(prog):
    """the successor scan of the post-order step looks at *every* successor
    and the closed set only grows.

    witness for an early exit under `lowlink[v] < disc[v]` ("v is not a
    root anyway"): V presented as [1, 0, 2], edges 1->0, 0->2, 2->0, 2->1 --
    node 2 scans 0 first, leaves with lowlink = disc[0] and never sees the
    edge to 1; 0 is then taken for a root and {0, 2} is split from {1}."""
    r = RuleResult('R-SCC-9', 'the successor scan of the post-order step '
                   'visits every successor (no early exit) and the closed '
                   'set is never shrunk')
    f = prog.func('graph.compute_SCCs')
    block = post_order_block(f)
    scans = []
    for st in block:
        for n in ast.walk(st):
            if isinstance(n, ast.For) and any(
                    isinstance(m, ast.Subscript) and
                    isinstance(m.ctx, ast.Store) for m in ast.walk(n)):
                scans.append(n)
    if not scans:
        raise Inconclusive('R-SCC-9', 'no successor scan with a table '
                           'update in the post-order step', f.where())
    pending = None
    closed = set()
    for loop in scans:
        lv = set(m.id for m in ast.walk(loop.target)
                 if isinstance(m, ast.Name))
        for m in ast.walk(loop):
            if isinstance(m, ast.Compare) and len(m.ops) == 1 and \
                    isinstance(m.ops[0], (ast.In, ast.NotIn)) and \
                    isinstance(m.left, ast.Name) and m.left.id in lv and \
                    isinstance(m.comparators[0], ast.Name):
                closed.add(m.comparators[0].id)
        # exits of this loop (not of a loop nested in it)
        exits = []

        def visit(node, guards):
            for ch in ast.iter_child_nodes(node):
                if isinstance(ch, (ast.For, ast.While, ast.FunctionDef,
                                   ast.Lambda)):
                    continue
                if isinstance(ch, ast.Break):
                    exits.append((ch, list(guards)))
                elif isinstance(ch, ast.If):
                    for b in ch.body:
                        if isinstance(b, ast.Break):
                            exits.append((b, guards + [ch.test]))
                        else:
                            visit(b, guards + [ch.test])
                    for b in ch.orelse:
                        if isinstance(b, ast.Break):
                            exits.append((b, guards + [ch.test]))
                        else:
                            visit(b, guards + [ch.test])
                else:
                    visit(ch, guards)
        for b in loop.body:
            if isinstance(b, ast.Break):
                exits.append((b, []))
            else:
                visit(b, [])
        r.inst(scan='for %s in %s' % (ast.unparse(loop.target),
                                      ast.unparse(loop.iter)),
               line=loop.lineno, early_exits=len(exits))
        if not exits:
            r.ok()
        for (b, guards) in exits:
            g = guards[-1] if guards else None

            def about_v_only(t):
                if not (isinstance(t, ast.Compare) and len(t.ops) == 1):
                    return False
                sides = [t.left, t.comparators[0]]
                return all(isinstance(x, ast.Subscript) and
                           isinstance(x.value, ast.Name) and
                           isinstance(x.slice, ast.Name) and
                           x.slice.id not in lv for x in sides)
            if g is None or about_v_only(g):
                r.fail(Finding(
                    PROP, 'R-SCC-9', '%s:%d' % (f.module.relpath, b.lineno),
                    f.short(), 'scan-exit:%s' % (
                        ast.unparse(g) if g is not None else 'always'),
                    'the successor scan of the post-order step is left '
                    'early (%s): the remaining successors are never '
                    'examined, but the low-link of the node is the minimum '
                    'over all of them and is handed on to its ancestors '
                    '(V = [1, 0, 2], 1->0, 0->2, 2->0, 2->1: the component '
                    '{0, 1, 2} is split)' % (
                        'if ' + ast.unparse(g) if g is not None
                        else 'unconditionally')),
                    witness=('V=[1,0,2]', 'E=1->0,0->2,2->0,2->1'))
            else:
                pending = Inconclusive(
                    'R-SCC-9', 'early exit of the successor scan under `%s`'
                    % ast.unparse(g), '%s:%d' % (f.module.relpath, b.lineno))
    # the closed set
    shr = ('clear', 'discard', 'remove', 'pop', 'difference_update',
           'intersection_update', 'symmetric_difference_update')
    for c in sorted(closed):
        nassign = 0
        for n in ast.walk(f.node):
            hit = None
            if isinstance(n, ast.Call) and \
                    isinstance(n.func, ast.Attribute) and \
                    n.func.attr in shr and \
                    isinstance(n.func.value, ast.Name) and \
                    n.func.value.id == c:
                hit = ast.unparse(n)
            if isinstance(n, ast.AugAssign) and \
                    isinstance(n.target, ast.Name) and n.target.id == c and \
                    isinstance(n.op, (ast.Sub, ast.BitAnd, ast.BitXor)):
                hit = ast.unparse(n)
            if isinstance(n, ast.Assign) and any(
                    isinstance(t, ast.Name) and t.id == c
                    for t in n.targets):
                nassign += 1
                if nassign > 1:
                    hit = ast.unparse(n)
            if hit:
                pending = Inconclusive(
                    'R-SCC-9', 'the closed set `%s` is shrunk (`%s`): the '
                    'guard `w not in %s` of R-SCC-1 presumes that a closed '
                    'node stays closed' % (c, hit, c),
                    '%s:%d' % (f.module.relpath, n.lineno))
        r.inst(closed_set=c, shrunk=False if pending is None else None)
    if pending is not None:
        pending.partial = [r]
        raise pending
    if closed:
        r.ok()
    return r


def rule_scc5(prog):
    r = RuleResult('R-SCC-5', 'compute_SCCs does not modify its argument')
    f = prog.func('graph.compute_SCCs')
    params = [a.arg for a in f.node.args.args]
    w = syntactic_param_writes(f.node, params)
    r.inst(function=f.short(), writes_to_argument=[x[1] for x in w])
    if w:
        r.fail(Finding(PROP, 'R-SCC-5', '%s:%d' % (f.module.relpath,
                                                   w[0][0]), f.short(),
                       'write:' + w[0][1],
                       'compute_SCCs modifies its argument: ' + w[0][1]))
    else:
        r.ok()
    return r


def run(prog, tier, seed):
    T = Attempts()
    results = T.results(T(rule_scc, prog), T(rule_scc6, prog),
                        T(rule_scc5, prog), T(rule_scc7, prog),
                        T(rule_scc8, prog), T(rule_scc9, prog))
    # "for every directed graph G": compute_SCCs reads G through nodes() /
    # next(); a DiGraph whose mutators leave an edge to an unregistered node
    # has nodes that are in no component
    from . import c13
    from ..report import adopt
    adj = T(c13.adjacency_field, prog)
    if adj:
        results = results + adopt(T.results(T(c13.rule_g0, prog, adj)), PROP,
                                  'the graphs compute_SCCs is given')

    def _independent_graphs(prog):
        # a graph derived from G (clone / reversed / subgraph) shares no
        # successor set with it: otherwise editing one of them changes the
        # edges compute_SCCs reads from the other
        r1, r2 = c13.rule_g12(prog, adj)
        return r1
    if adj:
        results = results + adopt(T.results(T(_independent_graphs, prog)),
                                  PROP, 'graphs derived from G are '
                                  'independent of it')

    def _kripke_clone(prog):
        from . import c14
        r = c14.rule_k4(prog, adj)
        r.findings = [f for f in r.findings if 'clone' in f.key]
        return r
    if adj:
        results = results + adopt(T.results(T(_kripke_clone, prog)), PROP,
                                  'clone() of the Kripke subclass (a graph '
                                  'compute_SCCs is given)')

    def _opaque_nodes(prog):
        from . import c06
        r = c06.rule_opq1(prog)
        r.findings = [f for f in r.findings
                      if f.where.startswith(prog.module('graph').relpath)]
        return r
    results = results + adopt(T.results(T(_opaque_nodes, prog)), PROP,
                              'nodes are arbitrary hashable objects')

    def _kripke_next(prog):
        # compute_SCCs(K) of a Kripke structure walks it through Kripke.next
        from . import c14
        r = c14.rule_k3(prog, adj)
        r.findings = [f for f in r.findings if ':next' in f.key]
        return r
    if adj:
        results = results + adopt(T.results(T(_kripke_next, prog)), PROP,
                                  'the successor function compute_SCCs '
                                  'reads a Kripke structure through')
    expl = ('PARTIAL. The post-order step of compute_SCCs (the block run '
            'when the successors of the top of the DFS stack are exhausted) '
            'is interpreted abstractly on symbolic bookkeeping state; the '
            'rules decide necessary conditions of the lowlink algorithm: '
            'lowlink updates are monotone, use the successor being scanned '
            'and are dominated by the closed-set test; a component is '
            'emitted exactly under lowlink[v] == disc[v]; on emission the '
            'root and every popped node are yielded and closed and the pop '
            'loop compares discovery times; a non-root is pushed. The roles '
            '(lowlink, disc, closed set, component stack) are discovered '
            'from the code, not named. NOT decided: that these conditions '
            'suffice, i.e. partition and mutual reachability for every '
            'digraph (discovery numbering, DFS driver, `>` vs `>=` in the '
            'tree/back-edge test).')
    assumptions = ['the algorithm keeps the shape "DFS stack + post-order '
                   'lowlink step"; another algorithm is INCONCLUSIVE',
                   'exactness of the components is not decided']
    return results, expl, assumptions, T.extra()
