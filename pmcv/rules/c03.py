"""C03 -- CTL* model checking is exact for arbitrary nesting (partial).

R-CTLS-1 the eliminator of quantified subformulas preserves structure
R-CTLS-2 labelling provenance of the fresh atom
R-CTLS-3 freshness guard of the generated name (shared with C19 R-RES-5)
R-CTLS-4 E g is checked as not A not g (parity) when CTL does not apply
R-CTLS-5 who may decide: results come from CTL / LTL modelcheck on the clone;
         the LTL route is taken for A-rooted formulas only
"""
import ast

from ..program import AnalysisError, Inconclusive, ClassInfo, ExtClass
from ..values import (Const, Sym, CRef, FRef, MRef, Bound, BoundB, Obj, Tup,
                      App, New, Raise, Coll, walk)
from ..interp import Interp, Hooks
from ..templates import TemplateHooks, make_hole, to_term, show
from ..galg import GraphHooks
from .. import oracle
from ..report import Finding, RuleResult, floor, Attempts, adopt
from . import c19

PROP = 'C03'


def discover(prog):
    """the eliminator = the self-recursive function of the module that the
    entry calls; the quantified-formula checker = the other function of the
    module that delegates to a `modelcheck` of another logic (both found
    through the call graph, not by name)"""
    mod = prog.module('CTLS.model_checking')
    entry = prog.func('CTLS.model_checking.modelcheck')

    def callees(f):
        return [mod.funcs[n.func.id] for n in ast.walk(f.node)
                if isinstance(n, ast.Call) and isinstance(n.func, ast.Name)
                and n.func.id in mod.funcs]

    def delegates(f):
        return any(isinstance(n, ast.Call) and
                   isinstance(n.func, ast.Attribute) and
                   n.func.attr == 'modelcheck' for n in ast.walk(f.node))
    def reaches(f):
        out, todo = [], list(callees(f))
        while todo:
            g = todo.pop()
            if g in out:
                continue
            out.append(g)
            todo.extend(callees(g))
        return out

    def recursive(f):           # directly or through helpers
        return f in reaches(f)
    elims = []
    seen, todo = [], [entry]
    while todo:
        g = todo.pop()
        if g in seen:
            continue
        seen.append(g)
        for f in callees(g):
            if recursive(f):
                if f not in elims:
                    elims.append(f)
            else:
                todo.append(f)      # a helper between entry and eliminator
    if len(elims) != 1:
        raise Inconclusive('R-CTLS-1', 'eliminator not found (self-recursive '
                           'callees of the entry: %s)' % [
                               f.short() for f in elims], entry.where())
    elim = elims[0]
    reach, todo = [], [elim]
    while todo:
        f = todo.pop()
        if f in reach:
            continue
        reach.append(f)
        todo.extend(callees(f))
    quants = [f for f in reach if f is not elim and f is not entry and
              delegates(f)]
    if len(quants) > 1:
        # the checker may have moved part of its work into helpers of its
        # own: it is the one the eliminator calls
        direct = [f for f in quants if f in callees(elim)]
        if len(direct) == 1 and all(f is direct[0] or f in reaches(direct[0])
                                    for f in quants):
            quants = direct
    if len(quants) != 1:
        raise Inconclusive('R-CTLS-1', 'quantified-formula checker not '
                           'found (%s)' % [f.short() for f in quants],
                           elim.where())
    return mod, entry, elim, quants[0]


class _ElimHooks(TemplateHooks, GraphHooks):
    def __init__(self, prog, keep):
        TemplateHooks.__init__(self, prog, 'get_equivalent_restricted_formula')
        self.graph_init(prog)
        self.keep = keep            # functions kept as recorded calls
        self.check_sorts = False

    def inline(self, I, fi, args):
        if fi in self.keep and I.stack:
            return False
        if fi.name == 'modelcheck':
            return not I.stack
        return True

    def call(self, I, fv, args, kw, path, node):
        r = TemplateHooks.call(self, I, fv, args, kw, path, node)
        if r is not None:
            return r
        return self.graph_call(I, fv, args, kw, path, node)


def _is_call(v, f):
    return isinstance(v, App) and v.op == 'call' and \
        isinstance(v.args[0], FRef) and v.args[0].fi is f


def _fair_forwarded(r2, calls, FL, elim, name, what):
    """the fairness label the eliminator was given is the third argument of
    the calls it makes (recursion, quantifier checker): a call without it
    falls back to the default (no fairness) for that subformula"""
    for (pos, kw) in calls:
        if len(pos) >= 3 and pos[2] == FL:
            r2.ok()
        elif len(pos) == 2 and not kw:
            r2.fail(Finding(
                PROP, 'R-CTLS-2', elim.where(), elim.short(),
                'fair-label-dropped:%s' % name,
                'eliminating the state subformulas of a %s formula: %s is '
                'called without the fairness label the eliminator was given '
                '(default: no fairness), so a nested subformula is checked '
                'over all paths while the enclosing one is checked over fair '
                'paths' % (name, what),
                expected='the same fair_label passed on'),
                witness=repr(pos))
        elif len(pos) >= 3:
            r2.fail(Finding(
                PROP, 'R-CTLS-2', elim.where(), elim.short(),
                'fair-label-changed:%s' % name,
                'eliminating the state subformulas of a %s formula: %s gets '
                '%r as fairness label instead of the one the eliminator was '
                'given' % (name, what, pos[2]),
                expected='the same fair_label passed on'),
                witness=repr(pos))
        else:
            raise Inconclusive('R-CTLS-2', 'fairness label of %s: arguments '
                               '%r %r' % (what, pos, kw), elim.where())



def rule_ctls12(prog, D, fair=False):
    """fair=True (C15): also the clause 'the fairness label is passed on'"""
    mod, entry, elim, quant = D
    r1 = RuleResult('R-CTLS-1', 'eliminator: atoms unchanged, quantified '
                    'subformulas replaced by a fresh atom, any other formula '
                    'rebuilt with the same class over its processed '
                    'children in order')
    r2 = RuleResult('R-CTLS-2', 'the fresh atom labels exactly the states '
                    'returned for that quantified formula on the same '
                    'structure; the replacement atom has the same name')
    al = prog.alphabet('CTLS.language')
    K = Sym('kripke', ('inst', prog.cls('kripke.Kripke')))
    FL = Sym('fair_label')
    gens = c19.discover_name_generators(prog)
    r1.transparent = r2.transparent = tuple({elim, quant} | set(gens))
    shapes = []
    for name, ci in sorted(al.items()):
        if name == 'AtomicProposition':
            shapes.append((name, New(ci, (Sym('apname', ('b', 'str'),
                                              ('apname',)),)), 'leaf'))
        elif name == 'Bool':
            shapes.append((name, New(ci, (Const(True),)), 'leaf'))
        elif name in ('A', 'E'):
            shapes.append((name, New(ci, (make_hole(prog, 0, 'CTLS'),)),
                           'quant'))
        else:
            n = 1 if name in ('Not', 'X', 'F', 'G') else 2
            shapes.append((name, New(ci, tuple(make_hole(prog, i, 'CTLS')
                                               for i in range(n))), 'op'))
            if name in ('Or', 'And'):
                shapes.append((name + '/3', New(ci, tuple(
                    make_hole(prog, i, 'CTLS') for i in range(3))), 'op'))
    shapes.append(('non-formula', Sym('x', ('b', 'int')), 'bad'))
    for (name, val, kind) in shapes:
        hooks = _ElimHooks(prog, {elim, quant} | set(gens))
        I = Interp(prog, hooks, rule='R-CTLS-1')
        path = I.new_path()
        res = I.call_function(FRef(elim), [K, val, FL], [], path, elim.node)
        res = [(p, v) for (p, v) in res
               if not (isinstance(v, Raise) and v.implicit)]
        outs = [v for (p, v) in res]
        r1.inst(shape=name, outcome=[repr(v)[:120] for v in outs])
        if len(res) != 1:
            r1.fail(Finding(PROP, 'R-CTLS-1', elim.where(), elim.short(),
                            'paths:%s:%d' % (name, len(res)),
                            'the eliminator has %d outcomes for a %s '
                            'formula' % (len(res), name)),
                    witness=outs)
            continue
        p, v = res[0]
        if kind == 'bad':
            ok = isinstance(v, Raise) and (I.exc_class(v.exc) or
                                           ExtClass('x')).name == 'TypeError'
            if ok:
                r1.ok()
            else:
                r1.fail(Finding(PROP, 'R-CTLS-1', elim.where(),
                                elim.short(), 'non-formula',
                                'a non-formula is not rejected with '
                                'TypeError: %r' % (v,)),
                        witness=v if not isinstance(v, Raise) else None)
            continue
        if isinstance(v, Raise):
            r1.fail(Finding(PROP, 'R-CTLS-1', I.where(v.node, mod),
                            elim.short(), 'raise:' + name,
                            'the eliminator raises %r on a %s formula' % (
                                v.exc, name)), witness=v)
            continue
        if kind == 'leaf':
            if v == val:
                r1.ok()
            else:
                r1.fail(Finding(PROP, 'R-CTLS-1', elim.where(),
                                elim.short(), 'leaf:' + name,
                                'an atom is replaced by %r' % (v,)),
                        witness=v)
            continue
        if kind == 'op':
            want_kids = [App('call', FRef(elim), Tup([K, h, FL]), Tup(()))
                         for h in val.args]
            got_kids = list(v.args) if isinstance(v, New) else None
            same_cls = isinstance(v, New) and v.ci is val.ci
            ok = same_cls and got_kids is not None and \
                len(got_kids) == len(want_kids) and all(
                    _is_call(g, elim) and g.args[1].items[:2] ==
                    (K, h) for g, h in zip(got_kids, val.args))
            if ok:
                r1.ok()
                if fair:
                    _fair_forwarded(r2, [(g.args[1].items, g.args[2].items)
                                         for g in got_kids], FL, elim,
                                    name, 'the recursive elimination of an '
                                    'operand')
            else:
                r1.fail(Finding(
                    PROP, 'R-CTLS-1', elim.where(), elim.short(),
                    'rebuild:%s:%s' % (name, repr(v)[:120]),
                    'a %s formula is rebuilt as %r: not the same operator '
                    'over its processed children in order (operands of U, '
                    'R, --> would be swapped, dropped or duplicated)' % (
                        name, v),
                    expected='%s(processed children in order)' % name), witness=v)
            continue
        # quantified formula
        adds = [e for e in p.log if e.kind == 'mutate' and e.name == 'add']
        qcalls = [e for e in p.log if e.kind == 'call' and
                  isinstance(e.target, FRef) and e.target.fi is quant]
        gcalls = [e for e in p.log if e.kind == 'call' and
                  isinstance(e.target, FRef) and e.target.fi in gens]
        okret = isinstance(v, New) and v.ci.name == 'AtomicProposition' and \
            len(v.args) == 1
        name_v = v.args[0] if okret else None
        ok_gen = bool(gcalls) and name_v is not None and \
            _is_call(name_v, gcalls[0].target.fi) and \
            list(gcalls[0].args[0][:2]) == [K, val]
        r1.inst(shape=name, returns=repr(v)[:100])
        if okret:
            r1.ok()
        else:
            r1.fail(Finding(PROP, 'R-CTLS-1', elim.where(), elim.short(),
                            'quant-return:' + name,
                            'a quantified subformula is replaced by %r, not '
                            'by an atomic proposition' % (v,)), witness=v)
        # provenance
        ok_q = len(qcalls) == 1 and list(qcalls[0].args[0][:2]) == [K, val]
        if ok_q and fair:
            _fair_forwarded(r2, [(tuple(qcalls[0].args[0]),
                                  tuple(qcalls[0].args[1]))], FL, elim, name,
                            'the check of the quantified subformula')
        ok_add = len(adds) == 1 and adds[0].args[0] == name_v and \
            isinstance(adds[0].target, App) and \
            adds[0].target.op == 'labels' and adds[0].target.args[0] == K
        ok_loop = False
        if ok_add:
            s = adds[0].target.args[1]
            ok_loop = isinstance(s, Sym) and s.meta and \
                s.meta[0] == 'elem' and _is_call(s.meta[1], quant) and \
                not [c for c in adds[0].pc[len(path.pc):]]
            # no filter condition between the loop and the add
            conds = [c for c in adds[0].pc if not (
                isinstance(c[0], App) and c[0].op == 'implicit_exc')]
            ok_loop = ok_loop and len(conds) == 0
        r2.inst(shape=name, generator_call=ok_gen, checker_call=ok_q,
                label_added_on_same_structure=ok_add,
                for_every_returned_state=ok_loop)
        for ok, key, msg in (
                (ok_gen, 'name', 'the replacement atom is not named by the '
                 'fresh-name generator applied to (this structure, this '
                 'formula)'),
                (ok_q, 'checker', 'the set of states is not computed for '
                 'this quantified formula on this structure'),
                (ok_add, 'label', 'the fresh atom is not added to '
                 'labels(s) of the same structure under the same name'),
                (ok_loop, 'states', 'the fresh atom is not added for '
                 'exactly the states returned by the checker')):
            if ok:
                r2.ok()
            else:
                r2.fail(Finding(PROP, 'R-CTLS-2', elim.where(),
                                elim.short(), '%s:%s' % (key, name),
                                'eliminating a %s-quantified subformula: %s'
                                % (name, msg)))
    floor('R-CTLS-1', 'formula shapes', len(r1.instances), 16)
    return r1, r2


def rule_ctls45(prog, D):
    mod, entry, elim, quant = D
    r4 = RuleResult('R-CTLS-4', 'per quantifier: CTL first; on TypeError '
                    'E g is checked as not A not g (valid rewrite), A g by '
                    'the LTL checker')
    r5 = RuleResult('R-CTLS-5', 'results originate from CTL/LTL modelcheck '
                    'on the same structure; LTL only for A-rooted formulas')
    al = prog.alphabet('CTLS.language')
    K = Sym('kripke', ('inst', prog.cls('kripke.Kripke')))
    ctl_mc = prog.func('CTL.model_checking.modelcheck')
    ltl_mc = prog.func('LTL.model_checking.modelcheck')
    r4.transparent = r5.transparent = (elim, quant, ctl_mc, ltl_mc)
    for q in ('A', 'E'):
        hooks = _ElimHooks(prog, {elim, quant})
        I = Interp(prog, hooks, rule='R-CTLS-4')
        path = I.new_path()
        h0 = make_hole(prog, 0, 'CTLS')
        val = New(al[q], (h0,))
        res = I.call_function(FRef(quant), [K, val, Const(None)], [], path,
                              quant.node)
        sub = App('call', FRef(elim), Tup([K, h0, Const(None)]), Tup(()))
        rebuilt = New(al[q], (sub,))
        seen_try = seen_fb = False
        for (p, v) in res:
            if isinstance(v, Raise):
                continue
            fallback = any(isinstance(c, App) and c.op == 'implicit_exc'
                           for (c, pol) in p.pc)
            if not (_is_call(v, ctl_mc) or _is_call(v, ltl_mc)):
                r5.fail(Finding(
                    PROP, 'R-CTLS-5', quant.where(), quant.short(),
                    'origin:%s:%s' % (q, repr(v)[:80]),
                    'checking a %s-quantified formula returns %r, which is '
                    'not the result of CTL/LTL modelcheck' % (q, v)), witness=v)
                continue
            a = v.args[1].items
            target = v.args[0].fi
            r5.inst(quantifier=q, path='fallback' if fallback else 'try',
                    decided_by=target.short(), formula=repr(a[1])[:120])
            if a[0] != K:
                r5.fail(Finding(PROP, 'R-CTLS-5', quant.where(),
                                quant.short(), 'structure:' + q,
                                'the sub-check runs on %r, not on the '
                                'structure being labelled' % (a[0],)))
            else:
                r5.ok()
            if not fallback:
                seen_try = True
                ok = target is ctl_mc and _strip_sub(a[1], elim) == \
                    ('q', q, ('sub',))
                if ok:
                    r4.ok()
                else:
                    r4.fail(Finding(
                        PROP, 'R-CTLS-4', quant.where(), quant.short(),
                        'try:%s:%s' % (q, repr(a[1])[:80]),
                        'the first attempt for %s g is %s on %r instead of '
                        'CTL on %s(processed g)' % (q, target.short(), a[1],
                                                    q)))
                continue
            seen_fb = True
            if q == 'A':
                ok = target is ltl_mc and _strip_sub(a[1], elim) == \
                    ('q', 'A', ('sub',))
                r4.inst(quantifier=q, fallback=target.short(),
                        formula=repr(a[1])[:100])
                if ok:
                    r4.ok()
                else:
                    r4.fail(Finding(
                        PROP, 'R-CTLS-4', quant.where(), quant.short(),
                        'fallback:A:%s' % target.short(),
                        'the fallback for A g is %s on %r instead of the '
                        'LTL checker on A(processed g)' % (target.short(),
                                                           a[1])))
            else:
                # E: CTL.modelcheck(K, elim(K, <rewrite>))
                inner = a[1]
                if _is_call(inner, elim):
                    inner = inner.args[1].items[1]
                shape = _strip_sub(inner, elim)
                r4.inst(quantifier=q, fallback=target.short(),
                        rewritten=repr(shape))
                lhs = ('E', 'CTLS', ('hole', 0))
                rhs = _shape_term(shape)
                d = oracle.decide(lhs, rhs, 'state', 'quick', False) \
                    if rhs is not None else {'verdict': 'unknown'}
                if target is ltl_mc:
                    r5.fail(Finding(
                        PROP, 'R-CTLS-5', quant.where(), quant.short(),
                        'ltl-for-E', 'an E-rooted formula is handed to the '
                        'LTL checker'))
                if d['verdict'] in ('proved', 'bounded') and \
                        target is ctl_mc:
                    r4.ok()
                elif d['verdict'] == 'counter':
                    r4.fail(Finding(
                        PROP, 'R-CTLS-4', quant.where(), quant.short(),
                        'rewrite:E:%s' % (repr(shape),),
                        'the fallback rewrites E g into %s, which is not '
                        'equivalent to E g' % (repr(shape),), extra=d))
                else:
                    raise Inconclusive('R-CTLS-4', 'fallback for E: %r' % (
                        inner,), quant.where())
        if not seen_try or not seen_fb:
            r4.fail(Finding(
                PROP, 'R-CTLS-4', quant.where(), quant.short(),
                'routes:%s:%s%s' % (q, seen_try, seen_fb),
                'checking %s g has %s CTL attempt and %s fallback' % (
                    q, 'a' if seen_try else 'no', 'a' if seen_fb else 'no')))
    # entry: result from CTL.modelcheck on the clone
    hooks = _ElimHooks(prog, {elim, quant})
    I = Interp(prog, hooks, rule='R-CTLS-5')
    path = I.new_path()
    K0 = Sym('kripke', ('inst', prog.cls('kripke.Kripke')))
    fm = Sym('formula', ('inst', prog.cls('CTLS.language.Formula')))
    res = I.call_function(FRef(entry), [K0, fm, Const(None), Const(None)],
                          [], path, entry.node)
    n = 0
    for (p, v) in res:
        if isinstance(v, Raise):
            continue
        n += 1
        ok = _is_call(v, ctl_mc)
        onclone = ok and isinstance(v.args[1].items[0], Obj) or (
            ok and 'gcopy' in repr(v.args[1].items[0]))
        frm = v.args[1].items[1] if ok else None
        okf = ok and _is_call(frm, elim) and \
            any(x == fm for x in walk(frm.args[1].items[1])) and \
            frm.args[1].items[0] == v.args[1].items[0]
        r5.inst(entry=entry.short(), returns=repr(v)[:160],
                on_clone=bool(onclone), formula_processed_on_same_clone=okf)
        if ok and onclone and okf:
            r5.ok()
        else:
            r5.fail(Finding(
                PROP, 'R-CTLS-5', entry.where(), entry.short(),
                'entry:%s' % repr(v)[:80],
                'CTLS.modelcheck returns %r: not CTL.modelcheck(clone, '
                'eliminator(clone, formula))' % (v,)), witness=v)
    if n == 0:
        raise Inconclusive('R-CTLS-5', 'no returning path', entry.where())
    return r4, r5


def _strip_sub(v, elim):
    """shape of a formula value over the processed subformula"""
    if _is_call(v, elim):
        return ('sub',)
    if isinstance(v, App) and v.op == 'LNot':
        return ('lnot', _strip_sub(v.args[0], elim))
    if isinstance(v, New) and isinstance(v.ci, ClassInfo):
        if v.ci.name in ('A', 'E'):
            return ('q', v.ci.name, _strip_sub(v.args[0], elim))
        return (v.ci.name,) + tuple(_strip_sub(a, elim) for a in v.args)
    if isinstance(v, App) and v.op in ('call', 'mcall'):
        # formula.subformula(0) of the rebuilt formula == processed child
        s = repr(v)
        if 'subformula' in s:
            return ('sub',)
    return ('?', repr(v)[:60])


def _shape_term(s):
    if s == ('sub',):
        return ('hole', 0)
    if s[0] == 'lnot':
        t = _shape_term(s[1])
        return None if t is None else ('LNot', t)
    if s[0] == 'q':
        t = _shape_term(s[2])
        return None if t is None else (s[1], 'CTLS', t)
    if s[0] == 'Not':
        t = _shape_term(s[1])
        return None if t is None else ('Not', 'CTLS', t)
    return None


def run(prog, tier, seed):
    T = Attempts()
    D = discover(prog)
    r1, r2 = T(rule_ctls12, prog, D, _n=2)
    r3 = T(c19.rule_res5, prog)
    if r3 is not None:
        r3.rule = 'R-CTLS-3'
        for f in r3.findings:
            f.prop = PROP
            f.rule = 'R-CTLS-3'
    r4, r5 = T(rule_ctls45, prog, D, _n=2)
    expl = ('The CTL* checker is analysed as a composition: the eliminator '
            'of quantified subformulas (discovered from CTLS.modelcheck) is '
            'interpreted per formula shape: atoms are returned unchanged, a '
            'quantified subformula is replaced by an atomic proposition '
            'named by the guarded fresh-name generator and added to '
            'labels(s) of the same structure for exactly the states the '
            'quantified checker returns for that formula, any other formula '
            'is rebuilt with the same class over its processed children in '
            'order. Per quantifier, CTL is tried first; on TypeError E g is '
            'rewritten to not A not g (valid by definitional normal form) '
            'and A g goes to the LTL checker; every returned set originates '
            'from CTL/LTL modelcheck on the same (cloned) structure. Not '
            'decided: exactness of the answers (they inherit C01/C02).')
    assumptions = ['C01 / C02 for the delegated checkers',
                   'fresh names do not collide (R-CTLS-3)']
    # the checkers the CTL* procedure delegates to, and what they rely on:
    # necessary conditions of the exactness of CTL* answers too
    from . import c01, c02, c05, c07, c12
    dep = adopt(
        c01.own_rules(prog, tier, T) + c02.own_rules(prog, tier, T) +
        T.results(T(c12.rule_scc, prog), T(c12.rule_scc6, prog),
                  T(c12.rule_scc9, prog),
                  T(c05.rule_rw3, prog),
                  T(c07.rule_pure4, prog, T(c07.effects, prog)),
                  # a formula object must still be the caller's formula
                  # when it is checked a second time
                  T(c07.rule_pure3, prog, T(c07.effects, prog))),
        PROP, 'relied on by the CTL* procedure')
    # the CTL classes must reject what is not CTL: that TypeError is what
    # sends a quantified formula to the LTL tableau instead of the CTL
    # labeller (which would not terminate / answer on it)

    from . import c08
    from ..formulas import signatures
    from ..report import load_known
    sigs = T(signatures, prog)
    known8 = set(k['construct_key'] for k in load_known()
                 if k.get('property') == 'C08')

    def _one(fn):
        rr = fn(prog, sigs)
        rr.findings = [f for f in rr.findings if f.key not in known8]
        return rr
    if sigs is not None:
        dep = dep + adopt(T.results(*[T(_one, fn) for fn in (
            c08.rule_sort1, c08.rule_sort2, c08.rule_sort3)]), PROP,
            'the sort discipline the CTL / LTL dispatch relies on')
    return T.results(r1, r2, r3, r4, r5) + dep, expl, assumptions, \
        T.extra()
