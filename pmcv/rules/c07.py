"""C07 -- model checking is a pure function of its arguments.

R-PURE-1 no modelcheck modifies (transitively) anything reachable from its
         arguments: mutators act on clones only
R-PURE-3 formula fields are written only by their constructors; the list
         returned by subformulas() is never modified
R-PURE-4 no cross-call state: no module/class attribute write, mutable
         default argument, global statement or ambient read is reachable
"""
import ast

from ..program import AnalysisError, Inconclusive, ClassInfo
from ..values import App, Const, Sym, walk
from ..effects import Effects
from ..fields import subformula_field, bool_value_field
from ..report import Finding, RuleResult, floor, Attempts, adopt

PROP = 'C07'
MODULES = ['kripke', 'graph', 'language', 'PL', 'CTL', 'CTLS', 'LTL',
           'parser']
ENTRIES = ['CTL.model_checking.modelcheck', 'LTL.model_checking.modelcheck',
           'CTLS.model_checking.modelcheck']

_cache = {}


def effects(prog):
    k = id(prog)
    if k not in _cache:
        _cache.clear()
        _cache[k] = Effects(prog, MODULES)
    return _cache[k]


def rule_pure1(prog, E):
    r = RuleResult('R-PURE-1', 'no modelcheck modifies, directly or through '
                   'a callee, anything reachable from its arguments')
    failed = [s for s in E.summ.values() if s.failed]
    for lang_entry in ENTRIES:
        f = prog.func(lang_entry)
        s = E.summ[f.qn]
        if s.failed:
            raise Inconclusive('R-PURE-1', 'no summary for %s: %s' % (
                f.short(), s.failed), f.where())
        for i, n in enumerate(s.pnames):
            why = s.mutates.get(i)
            r.inst(entry=f.short(), parameter=n,
                   modified=bool(why), chain=(why or [None])[0])
            if why:
                chain = _chain(E, s, i)
                r.fail(Finding(
                    PROP, 'R-PURE-1', f.where(), f.short(),
                    'mutates:%s:%s' % (n, chain[-1].split(' at ')[0]),
                    '%s modifies its argument `%s`: %s' % (
                        f.short(), n, ' -> '.join(chain)),
                    expected='mutators act only on a clone',
                    found=' -> '.join(chain)))
            else:
                r.ok()
        # the mutators this entry does reach, and on what
        for (key, rs, node, fi) in s.callsites:
            for cs in E.callees(key):
                for j in cs.mutates:
                    if j < len(rs):
                        r.inst(entry=f.short(), call=cs.fi.short(),
                               mutated_parameter=cs.pnames[j] if j < len(
                                   cs.pnames) else j,
                               argument_roots=sorted(
                                   s.pnames[i] for i in rs[j]),
                               line=getattr(node, 'lineno', None),
                               nontrivial=True)
    # non-vacuity: the analysis does see the package's mutators of Kripke
    kc = prog.cls('kripke.Kripke')
    muts = sorted(s.fi.short() for s in E.summ.values()
                  if 0 in s.mutates and s.fi.owner is not None and
                  s.fi.owner.is_subclass_of(prog.cls('graph.DiGraph')) and
                  s.fi.name != '__init__')
    r.notes.append('mutating methods of DiGraph/Kripke found: %s' % muts)
    floor('R-PURE-1', 'mutating graph methods recognised', len(muts), 4)
    reach = E.reachable([prog.func(e).qn for e in ENTRIES])
    # module-level routines of the checkers that modify one of their
    # parameters (whatever it is called): they must be handed a clone
    ext = [q for q in reach if E.summ[q].fi.owner is None and
           E.summ[q].fi.module.name.endswith('model_checking') and
           any(p < len(E.summ[q].pnames) for p in E.summ[q].mutates)]
    r.notes.append('functions that modify a Kripke parameter (must receive '
                   'a clone): %s' % sorted(E.summ[q].fi.short() for q in ext))
    undecided = None
    if failed:
        bad = [s for s in failed if s.fi.qn in reach]
        for s in bad:
            undecided = Inconclusive(
                'R-PURE-1', 'function %s reachable from modelcheck has no '
                'summary: %s' % (s.fi.short(), s.failed), s.fi.where())
            break
    if undecided is None:
        for q in sorted(reach):
            if E.summ[q].opaque:
                undecided = Inconclusive(
                    'R-PURE-1', 'function %s reachable from modelcheck '
                    'hands its arguments to a computed function value '
                    'whose effects are unknown: %s' % (
                        E.summ[q].fi.short(), E.summ[q].opaque[0]),
                    E.summ[q].fi.where())
                break
    if undecided is not None:
        undecided.partial = r
        raise undecided
    floor('R-PURE-1', 'functions requiring an owned structure', len(ext), 2)
    return r


def _chain(E, s, i, depth=0):
    why = s.mutates[i][0]
    out = ['%s(%s): %s' % (s.fi.name, s.pnames[i], why)]
    if why.startswith('passes it to ') and depth < 8:
        callee = why.split('passes it to ')[1].split(' ')[0]
        pn = why.split('(parameter ')[1].split(')')[0]
        for t in E.summ.values():
            if t.fi.short() == callee and pn in t.pnames:
                j = t.pnames.index(pn)
                if j in t.mutates:
                    out.extend(_chain(E, t, j, depth + 1))
                break
    return out


def formula_fields(prog):
    base = prog.cls('language.Formula')
    fields = set()
    ctors = set()
    for c in prog.classes.values():
        if not c.is_subclass_of(base):
            continue
        for mn in ('__init__', 'wrap_subformulas'):
            fn = c.attrs.get(mn)
            if isinstance(fn, ast.FunctionDef):
                ctors.add('%s.%s.%s' % (c.module.name, c.name, mn))
                for n in ast.walk(fn):
                    if isinstance(n, ast.Attribute) and \
                            isinstance(n.ctx, ast.Store) and \
                            isinstance(n.value, ast.Name) and \
                            n.value.id == fn.args.args[0].arg:
                        fields.add(n.attr)
    return fields, ctors


def rule_pure3(prog, E):
    r = RuleResult('R-PURE-3', 'formula fields are written only by their '
                   'constructors; subformulas() is never modified')
    fields, ctors = formula_fields(prog)
    floor('R-PURE-3', 'formula fields', len(fields), 4)
    n = 0
    for s in E.summ.values():
        for (kind, name, tgt, where, rts) in s.raw_writes:
            touches = None
            if kind == 'setattr' and name in fields:
                touches = 'field %s' % name
            else:
                for x in walk(tgt):
                    if isinstance(x, App) and x.op == 'attr' and \
                            isinstance(x.args[1], Const) and \
                            x.args[1].v in fields and kind != 'setattr':
                        touches = 'object stored in field %s' % x.args[1].v
                    if isinstance(x, App) and x.op == 'mcall' and \
                            x.args[1] == Const('subformulas'):
                        touches = 'list returned by subformulas()'
            if touches is None:
                continue
            n += 1
            in_ctor = s.fi.qn in ctors
            # `name`/`height` are also fields of non-formula classes: only
            # formula classes and functions outside the BDD package matter
            owner_ok = s.fi.owner is None or s.fi.owner.is_subclass_of(
                prog.cls('language.Formula')) or name in (
                    subformula_field(prog), bool_value_field(prog))
            r.inst(function=s.fi.short(), write='%s %s' % (kind, name),
                   touches=touches, in_constructor=in_ctor, where=where)
            if in_ctor or (kind == 'setattr' and not owner_ok):
                r.ok()
            elif kind == 'setattr' and s.fi.owner is not None and \
                    not s.fi.owner.is_subclass_of(
                        prog.cls('language.Formula')):
                r.ok()
            else:
                r.fail(Finding(
                    PROP, 'R-PURE-3', where, s.fi.short(),
                    'formula-write:%s:%s' % (kind, name),
                    '%s modifies a formula after construction (%s %s on '
                    '%s)' % (s.fi.short(), kind, name, touches),
                    expected='formulas are immutable once built'))
    floor('R-PURE-3', 'writes to formula fields seen', n, 5)
    return r


def rule_pure4(prog, E):
    r = RuleResult('R-PURE-4', 'no state survives a call: no module/class '
                   'attribute write, mutable default, global statement or '
                   'ambient read is reachable from a modelcheck')
    reach = E.reachable([prog.func(e).qn for e in ENTRIES])
    floor('R-PURE-4', 'functions reachable from the modelchecks', len(reach),
          40)
    for q in sorted(reach):
        s = E.summ[q]
        node = s.fi.node
        problems = []
        for g in s.gwrites:
            problems.append(('global-write', g))
        for a in s.ambient:
            problems.append(('ambient-read', a))
        for d in list(node.args.defaults) + [k for k in node.args.kw_defaults
                                             if k is not None]:
            if isinstance(d, (ast.Dict, ast.List, ast.Set, ast.ListComp,
                              ast.DictComp, ast.SetComp)) or (
                    isinstance(d, ast.Call) and isinstance(d.func, ast.Name)
                    and d.func.id in ('dict', 'list', 'set')):
                problems.append(('mutable-default', ast.unparse(d)))
        for n in ast.walk(node):
            if isinstance(n, (ast.Global, ast.Nonlocal)):
                problems.append(('global-statement', ast.unparse(n)))
        r.inst(function=s.fi.short(), problems=[p[0] for p in problems],
               nontrivial=bool(s.callsites or s.raw_writes))
        if problems:
            for kind, what in problems:
                r.fail(Finding(
                    PROP, 'R-PURE-4', s.fi.where(), s.fi.short(),
                    '%s:%s' % (kind, what.split(' at ')[0]),
                    '%s, reachable from a modelcheck, keeps or reads state '
                    'outside its arguments: %s %s' % (s.fi.short(), kind,
                                                      what)))
        else:
            r.ok()
    return r


def run(prog, tier, seed):
    E = effects(prog)
    T = Attempts()
    results = T.results(T(rule_pure1, prog, E), T(rule_pure3, prog, E),
                        T(rule_pure4, prog, E))
    # mutators act on clones: the clone and the constructor must copy
    from . import c13, c14
    adj = T(c13.adjacency_field, prog)
    if adj:
        results = results + adopt(T.results(
            T(c14.rule_k1, prog, adj), T(c14.rule_k4, prog, adj),
            T(c13.rule_g0, prog, adj)), PROP,
            'the copy the mutators act on')
    expl = ('Interprocedural effect/alias summaries (mutated parameters, '
            'aliased results, stored values, global writes) are computed for '
            'every function by abstract interpretation and closed over the '
            'call graph (class-hierarchy analysis for unknown receivers, '
            'least fixpoint). R-PURE-1: the summaries of the three '
            'modelcheck functions modify none of their parameters, i.e. on '
            'no path and through no callee is a caller-owned structure or '
            'formula written: every mutator (label_fair_states, '
            'labels(s).add, add_node/add_edge, ...) receives a clone or a '
            'graph built in the call. R-PURE-3: formula fields are written '
            'only in constructors. R-PURE-4: nothing reachable keeps state '
            'across calls. Deep copying by clone/constructors is decided '
            'under C13/C14 (R-G-1, R-K-1, R-K-4).')
    assumptions = ['no reflection / monkey patching; lark parsing is pure',
                   'constructors of DiGraph/Kripke copy their arguments '
                   '(C13 R-G-0, C14 R-K-1)',
                   'set members and dict keys are hashable values, not '
                   'aliases',
                   'in-process iteration order is outside this property '
                   '(C06)']
    return results, expl, assumptions, T.extra({'summaries': len(E.summ),
                                                'fixpoint_passes': E.passes})
