"""C19 -- every well-formed query returns a fresh set of K's own states
(partial).

R-RES-1 the value returned by each modelcheck is a set allocated during the
        call that aliases nothing reachable from the arguments or from
        module/class state
R-RES-2 its elements are states of the argument structure (provenance)
R-RES-4 explicit RuntimeError preconditions of the graph primitives used by
        the CTL handlers are discharged (evaluated under C01's model:
        add_node / add_edge / reachability from non-nodes)
R-RES-5 fresh atom / fair label names are guarded by a membership loop over
        the labels of the structure they are added to
"""
from ..program import AnalysisError, Inconclusive, ClassInfo
from ..values import (Const, Sym, CRef, FRef, Bound, Obj, Tup, App, New,
                      Raise, Coll, walk)
from ..interp import Interp, Hooks, is_private_helper, prologue_helpers
from ..galg import GraphHooks
from ..report import Finding, RuleResult, floor, Attempts, adopt
from . import c01, c07

PROP = 'C19'


def rule_res1(prog, E):
    r = RuleResult('R-RES-1', 'modelcheck returns a set allocated in the '
                   'call, aliasing no argument and no shared state')
    pending = []
    for q in c07.ENTRIES:
        f = prog.func(q)
        s = E.summ[f.qn]
        if s.failed:
            raise Inconclusive('R-RES-1', 'no summary for %s' % f.short(),
                               f.where())
        al = sorted(s.pnames[i] if i >= 0 and i < len(s.pnames)
                    else 'module/class state' for i in s.ralias)
        r.inst(entry=f.short(), result_aliases=al,
               result_kinds=sorted(s.rkinds))
        if not al and any(k.startswith('opaque-call') for k in s.rkinds):
            pending.append(Inconclusive(
                'R-RES-1', '%s returns the result of a computed function '
                'value (%s)' % (f.short(), sorted(s.rkinds)), f.where()))
            continue
        if al:
            r.fail(Finding(
                PROP, 'R-RES-1', f.where(), f.short(),
                'result-alias:' + ','.join(al),
                'the object returned by %s may be (part of) %s: mutating '
                'the result changes the caller\'s data or a later result' % (
                    f.short(), al), expected='a set owned by the caller'))
        else:
            r.ok()
    # kinds: follow delegations down to allocations
    entry, labeller, memo_ok, why = c01.discover_labeller(prog)
    try:
        r1, table = c01.rule_ctl1(prog, labeller)
    except Inconclusive as e:
        if getattr(e, 'partial', None) is None:
            raise
        r1, table = e.partial
        pending.append(e)
    K = Sym('K', ('inst', prog.cls('kripke.Kripke')))
    shp = {k: (v, lhs) for (k, v, lhs) in c01.shapes(prog)}
    for key in c01.RESTRICTED_SHAPES:
        kinds = table.get(key)
        if not kinds:
            continue
        kind = kinds[0]
        if kind[0] == 'direct':
            I, res, L, hooks = c01.summarise_handler(
                prog, labeller, kind[1], key, shp[key][0], K)
            vals = [(p, v) for (p, v) in res if not isinstance(v, Raise)]
            name = kind[1].short()
        elif kind[0] == 'inline':
            vals = [(kind[2], Obj(kind[1].oid))]
            name = labeller.short()
        elif kind[0] == 'other':
            pending.append(Inconclusive(
                'R-RES-1', 'the CTL labeller returns %s for %s' % (
                    kind[1][:120], key), labeller.where()))
            continue
        else:
            continue
        for (p, v) in vals:
            ok = isinstance(v, Obj) and p.heap[v.oid].kind == 'set'
            r.inst(handler=name, shape=key,
                   returns='set allocated in the handler' if ok
                   else repr(v)[:120])
            if ok:
                r.ok()
            elif isinstance(v, App) and v.op in ('call', 'mcall'):
                # the result of something that is not interpreted
                pending.append(Inconclusive(
                    'R-RES-1', 'the CTL handler of %s returns %r' % (key, v),
                    labeller.where()))
            else:
                r.fail(Finding(
                    PROP, 'R-RES-1', prog.func(
                        'CTL.model_checking.modelcheck').where(), name,
                    'kind:%s' % key,
                    'the CTL handler of %s returns %r, not a set built in '
                    'the call' % (key, v),
                    expected='a set allocated during the call'), witness=v)
    # LTL: the returned value is a set expression
    f = prog.func('LTL.model_checking.modelcheck')

    class H(GraphHooks):
        def __init__(self):
            self.graph_init(prog)

        def inline(self, I, fi, args):
            return fi is f or fi.qn in prologue_helpers(f)
    I = Interp(prog, H(), rule='R-RES-1')
    path = I.new_path()
    k = Sym('kripke', ('inst', prog.cls('kripke.Kripke')))
    al = prog.alphabet('LTL.language')
    fm = Sym('formula', ('inst', al['A']))
    res = I.call_function(FRef(f), [k, fm, Const(None), Const(None)], [],
                          path, f.node)
    nret = 0
    for (p, v) in res:
        if isinstance(v, Raise):
            continue
        nret += 1
        ok = isinstance(v, Obj) and p.heap[v.oid].kind == 'set'
        prov = False
        if ok:
            parts = p.heap[v.oid].parts
            # S - X with S a copy of kripke.states(): subset of the states
            if len(parts) == 1 and parts[0].kind == 'spread' and \
                    isinstance(parts[0].val, App) and \
                    parts[0].val.op == 'setop' and \
                    parts[0].val.args[0].v in ('-', '&'):
                left = parts[0].val.args[1]
                prov = isinstance(left, Coll) and all(
                    pp.kind == 'spread' and pp.val == App('nodes', k)
                    for pp in left.parts) and bool(left.parts)
        r.inst(entry=f.short(), returns=repr(I.snapshot(v, p))[:200],
               is_fresh_set=ok, subset_of_states=prov)
        if not ok and isinstance(v, App) and v.op in ('call', 'mcall'):
            # the result of a routine that is not interpreted here
            pending.append(Inconclusive(
                'R-RES-1', 'LTL.modelcheck returns %r' % (v,), f.where()))
            continue
        if ok:
            r.ok()
        else:
            r.fail(Finding(PROP, 'R-RES-1', f.where(), f.short(), 'kind:LTL',
                           'LTL.modelcheck returns %r, not a set built in '
                           'the call' % (v,)), witness=v)
        if prov:
            r.ok()
        else:
            r.fail(Finding(
                PROP, 'R-RES-2', f.where(), f.short(), 'provenance:LTL',
                'the set returned by LTL.modelcheck is not derived from '
                'kripke.states() by difference/intersection: it may contain '
                'objects that are not states of K (%r)' % (
                    I.snapshot(v, p),)), witness=v)
    if nret == 0:
        raise Inconclusive('R-RES-1', 'no returning path of LTL.modelcheck',
                           f.where())
    # CTLS delegates
    f = prog.func('CTLS.model_checking.modelcheck')
    s = E.summ[f.qn]
    dele = sorted(k2 for k2 in s.rkinds)
    ok = dele and all(k2.startswith('call:') and k2.endswith('modelcheck')
                      for k2 in dele)
    r.inst(entry=f.short(), delegates_to=dele)
    if ok:
        r.ok()
    else:
        r.fail(Finding(PROP, 'R-RES-1', f.where(), f.short(), 'kind:CTLS',
                       'CTLS.modelcheck returns %s, not the result of a '
                       'CTL/LTL modelcheck' % dele))
    if pending:
        pending[0].partial = r
        raise pending[0]
    return r


class _NameHooks(GraphHooks):
    def __init__(self, prog, entry):
        self.graph_init(prog)
        self.entry = entry

    def inline(self, I, fi, args):
        return fi is self.entry or is_private_helper(fi, self.entry)


def rule_res5(prog):
    r = RuleResult('R-RES-5', 'fresh atom / fair label: the returned name is '
                   'not a label of the structure it is added to (guarded by '
                   'a membership loop)')
    kc = prog.cls('kripke.Kripke')
    gens = discover_name_generators(prog)
    targets = [(g, 0) for g in gens] + \
        [(prog.method(kc, 'label_fair_states'), 0)]
    if len(targets) < 2:
        raise AnalysisError('R-RES-5: name generators not found')
    for (f, ki) in targets:
        I = Interp(prog, _NameHooks(prog, f), rule='R-RES-5')
        path = I.new_path()
        K = Sym('K', ('inst', kc))
        args = [K] + [Sym('a%d' % i) for i in
                      range(len(f.node.args.args) - 1)]
        res = I.call_function(FRef(f), args, [], path, f.node)
        n = 0
        for (p, v) in res:
            if isinstance(v, Raise):
                continue
            n += 1
            guard = [c for (c, pol) in p.pc if not pol and
                     isinstance(c, App) and c.op == 'in' and c.args[0] == v]
            # a name returned from inside a search loop: the conditions of
            # the returning iteration are kept in a note of the path
            for nt in p.notes:
                if nt and nt[0] == 'exit-conds':
                    for (c, pol) in nt[1]:
                        c = I.snapshot(c, p) if not isinstance(c, App) else c
                        if not pol and isinstance(c, App) and \
                                c.op == 'in' and c.args[0] == v:
                            guard.append(c)
            good = [c for c in guard if _is_labels_of(c.args[1], K)]
            r.inst(function=f.short(), returns=repr(v)[:80],
                   guards=[repr(c)[:120] for c in guard])
            opaque = (isinstance(v, Sym) and v.meta and
                      v.meta[0] in ('elem', 'next')) or (
                          isinstance(v, App) and v.op in ('call', 'mcall'))
            if good:
                r.ok()
            elif opaque and not guard:
                # the name is taken from an iterator / call whose filtering
                # is outside the interpreted fragment: no verdict
                raise Inconclusive('R-RES-5', 'the name returned by %s is '
                                   '%r' % (f.short(), v), f.where())
            else:
                r.fail(Finding(
                    PROP, 'R-RES-5', f.where(), f.short(), 'unguarded-name',
                    '%s returns the name %r without having established that '
                    'it is not already a label of the structure: an '
                    'existing atom can be captured' % (f.short(), v),
                    expected='name not in kripke.labels()',
                    found=[repr(c) for c in guard]))
        if n == 0:
            raise Inconclusive('R-RES-5', 'no returning path of %s' %
                               f.short(), f.where())
    return r


def discover_name_generators(prog):
    """package functions whose result is added to kripke.labels(s) by a
    function of the CTL* checker (discovered, not named)"""
    mod = prog.module('CTLS.model_checking')
    out = []
    for fi in mod.funcs.values():
        class H(Hooks):
            def inline(self, I, f2, args):
                return f2 is fi
        I = Interp(prog, H(), rule='R-RES-5')
        path = I.new_path()
        args = [Sym('p%d' % i) for i in range(len(fi.node.args.args))]
        try:
            res = I.call_function(FRef(fi), args, [], path, fi.node)
        except Inconclusive:
            continue
        for (p, v) in res:
            for e in p.log:
                if e.kind == 'mutate' and e.name == 'add' and \
                        isinstance(e.target, App) and \
                        e.target.op == 'mcall' and \
                        e.target.args[1] == Const('labels'):
                    for x in walk(e.args[0]):
                        if isinstance(x, App) and x.op == 'call' and \
                                isinstance(x.args[0], FRef) and \
                                x.args[0].fi not in out:
                            out.append(x.args[0].fi)
    return out


def _has(prog, mod, name):
    return name in prog.module(mod).funcs


def _is_labels_of(v, K):
    if v == App('alllabels', K):
        return True
    if isinstance(v, Coll):
        return any(p.kind == 'spread' and _is_labels_of(p.val, K)
                   for p in v.parts)
    return False


def rule_res4(prog):
    """the RuntimeError preconditions of the graph primitives composed by
    the CTL handlers are part of C01's evaluation model: report them here as
    discharged obligations"""
    r = RuleResult('R-RES-4', 'RuntimeError preconditions of graph '
                   'primitives used by the CTL handlers are discharged on '
                   'every small model (C01 R-CTL-3 evaluation)')
    entry, labeller, memo_ok, why = c01.discover_labeller(prog)
    r1, table = c01.rule_ctl1(prog, labeller)
    r3 = c01.rule_ctl3(prog, labeller, table, 'quick')
    for i in r3.instances:
        r.inst(**i)
    for f in r3.findings:
        if 'raises' in str(f.found) or 'raise' in f.message:
            r.fail(Finding(PROP, 'R-RES-4', f.where, f.qualname,
                           f.key_text, f.message, f.expected, f.found,
                           f.extra))
    r.obligations = len(r3.instances)
    r.discharged = r.obligations - len(r.findings)
    return r


def run(prog, tier, seed):
    E = c07.effects(prog)
    T = Attempts()
    results = T.results(T(rule_res1, prog, E), T(rule_res4, prog),
                        T(rule_res5, prog))
    # shared-state rule of C07 also backs "owned by the caller"
    r4 = T(c07.rule_pure4, prog, E)
    if r4 is not None:
        r4.rule = 'R-RES-1b'
        for f in r4.findings:
            f.prop = PROP
            f.rule = 'R-RES-1b'
        results = results + T.results(r4)
    # the CTL handlers compute the documented sets (hence sets of states of
    # K) and the memo handed to the labeller is created in the call (a memo
    # that outlives the call hands out sets the caller of an earlier call
    # owns); what is computed on a clone consists of states of K only if the
    # clone keeps the state objects
    from . import c13, c14

    adj = T(c13.adjacency_field, prog)
    results = results + adopt(
        c01.own_rules(prog, tier, T) +
        T.results(T(c14.rule_k4, prog, adj) if adj else None),
        PROP, 'ownership / provenance of the returned states')
    # the accessors every checker reads the structure through (labels of a
    # state, labels of the whole structure, successors): an internal error
    # there is an internal error of the query

    def _accessors(prog):
        r = c14.rule_k3(prog, adj)
        # (the state None is a known finding of C14, recorded there)
        r.findings = [f for f in r.findings
                      if not f.key.endswith(':state-None')]
        return r
    if adj:
        results = results + adopt(T.results(T(_accessors, prog)), PROP,
                                  'the accessors the checkers read K through')
    # "states are strings, tuples or mixed types": a sort / ordering
    # comparison of states raises TypeError on such structures
    from . import c06
    results = results + adopt(T.results(T(c06.rule_opq1, prog)), PROP,
                              'no internal error on states of mixed types')
    expl = ('Alias summaries (least fixpoint over the call graph) show that '
            'the object returned by each modelcheck aliases no argument and '
            'no module/class state; every CTL handler and LTL.modelcheck '
            'return a set allocated in the call, CTL*.modelcheck delegates; '
            'LTL\'s result is states(K) minus a set, CTL handler results '
            'equal the documented semantics (C01) and hence are subsets of '
            'the states; graph-primitive preconditions (RuntimeError on '
            'add_node/add_edge of existing members, reachability from a '
            'non-node) are discharged on all small models; fresh names are '
            'guarded. Not decided: absence of implicit exceptions '
            '(KeyError/AttributeError/RecursionError) in general, '
            'heterogeneous state types (see C06 R-OPQ-1).')
    assumptions = ['set members are hashable values',
                   'C01 assumptions for the handler summaries',
                   'no reflection']
    return results, expl, assumptions, T.extra()
