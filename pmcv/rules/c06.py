"""C06 -- answers independent of presentation, naming and hash seed (partial).

R-OPQ-1 states and atom names are opaque on every function reachable from a
        modelcheck: they are stored, hashed, compared with ==/in, returned
        or formatted for messages -- never ordered, used in arithmetic,
        subscripted, dereferenced or type-tested.  (By parametricity this
        gives invariance under renaming up to iteration order; the
        iteration-order / hash-seed clauses are NOT decided.)
"""
import ast
import os
import shutil
import tempfile

from ..program import (Program, AnalysisError, Inconclusive, ClassInfo,
                       ExtClass)
from ..values import (Const, Sym, CRef, FRef, MRef, ERef, Bound, BoundB, Obj,
                      Tup, App, New, Raise, Coll, walk)
from ..interp import Interp, Hooks
from ..effects import Effects, _SummaryHooks, _is_gen, _is_static
from ..fields import labels_field
from ..report import Finding, RuleResult, floor, Attempts, adopt
from . import c07

PROP = 'C06'

STATE = ('state',)
ATOM = ('atomname',)
SET_S = ('b', 'set', STATE)
# seeds: what the graph / Kripke API hands out (method name -> type), fields
# that hold states / atom names.  Derived from the documented API of
# DiGraph / Kripke; the adjacency field is discovered.
METHOD_TYPES = {
    'states': SET_S, 'nodes': SET_S, 'sources': SET_S, 'next': SET_S,
    'get_reachable_set_from': SET_S, 'get_fair_states': SET_S,
    'edges': ('b', 'list', ('pair', STATE, STATE)),
    'edges_iter': ('b', 'list', ('pair', STATE, STATE)),
    'transitions': ('b', 'list', ('pair', STATE, STATE)),
    'transitions_iter': ('b', 'list', ('pair', STATE, STATE)),
    'labels': ('b', 'set', ATOM),
}
# documented parameter types of the graph / Kripke API (docstrings)
PARAM_TYPES = {
    ('get_reachable_set_from', 'nodes'): SET_S,
    ('get_subgraph', 'nodes'): SET_S,
    ('get_substructure', 'V'): SET_S,
    ('next', 'src'): STATE, ('add_node', 'v'): STATE,
    ('add_edge', 'src'): STATE, ('add_edge', 'dst'): STATE,
    ('labels', 'state'): STATE,
}
FIELD_TYPES = {
    'state': STATE, 'name': ATOM, 'S0': SET_S,
}


class OpaqueHooks(_SummaryHooks):
    def __init__(self, fi, analysis):
        _SummaryHooks.__init__(self, fi)
        self.A = analysis

    def call_type(self, I, v, path):
        if v.op == 'mcall':
            name = v.args[1].v
            if name in METHOD_TYPES:
                return METHOD_TYPES[name]
            if name == 'compute_SCCs':
                return ('b', 'list', ('b', 'list', STATE))
            return self.A.rtype_by_name(name)
        if v.op == 'call':
            fv = v.args[0]
            f = fv.fi if isinstance(fv, FRef) else (
                fv.f.fi if isinstance(fv, Bound) else None)
            if f is not None:
                if f.name in METHOD_TYPES and f.owner is not None:
                    return METHOD_TYPES[f.name]
                if f.name == 'compute_SCCs':
                    return ('b', 'list', ('b', 'list', STATE))
                return self.A.rtypes.get(f.qn)
        return None

    def getattr(self, I, val, name, path, node):
        return None

    def iter_elem_type(self, I, iterable, path):
        t = I.typeof(iterable, path)
        return I.elemtype(t)


class Opaque(object):
    def __init__(self, prog, funcs, adj):
        self.prog = prog
        self.funcs = funcs
        self.rtypes = {}
        self.by_name = {}
        for f in funcs:
            self.by_name.setdefault(f.name, []).append(f)
        self.field_types = dict(FIELD_TYPES)
        self.field_types[adj] = ('b', 'dict', STATE, SET_S)
        self.field_types[labels_field(prog)] = (
            'b', 'dict', STATE, ('b', 'set', ATOM))
        self.observations = []
        self.failed = {}
        self.param_types = {}       # (qn, index) -> set of types seen
        for rnd in range(4):
            self.observations = []
            changed = False
            before = {k: set(v) for k, v in self.param_types.items()}
            for f in funcs:
                rt = self.analyse(f)
                if rt is not None and self.rtypes.get(f.qn) != rt:
                    self.rtypes[f.qn] = rt
                    changed = True
            if before != self.param_types:
                changed = True
            if not changed:
                break

    def ptype(self, f, i):
        ts = self.param_types.get((f.qn, i))
        if ts and len(ts) == 1 and None not in ts:
            return next(iter(ts))
        return None

    def rtype_by_name(self, name):
        ts = set(self.rtypes.get(f.qn) for f in self.by_name.get(name, [])
                 if f.owner is not None)
        ts.discard(None)
        if len(ts) == 1:
            return ts.pop()
        return None

    def analyse(self, f):
        node = f.node
        hooks = OpaqueHooks(f, self)
        I = Interp(self.prog, hooks, rule='R-OPQ-1', max_paths=3000)
        A = self

        # field types for symbolic receivers
        orig_typeof = I.typeof

        def typeof(v, path):
            if isinstance(v, App) and v.op == 'attr' and \
                    isinstance(v.args[1], Const) and \
                    v.args[1].v in A.field_types:
                return A.field_types[v.args[1].v]
            if isinstance(v, Sym) and v.meta and v.meta[0] == 'elem':
                t = typeof(v.meta[1], path)
                et = I.elemtype(t)
                if et is not None:
                    return et
            if isinstance(v, App) and v.op == 'item':
                bt = typeof(v.args[0], path)
                if bt and bt[0] == 'pair' and isinstance(v.args[1], Const) \
                        and v.args[1].v in (0, 1):
                    return bt[1 + v.args[1].v]
                if bt and bt[0] == 'b' and bt[1] == 'dict' and len(bt) > 3:
                    return bt[3]
            if isinstance(v, Coll) and v.kind in ('set', 'list'):
                ts = set()
                for p in v.parts:
                    t = typeof(p.val, path)
                    if p.kind == 'spread':
                        t = I.elemtype(t)
                    ts.add(t)
                if len(ts) == 1 and None not in ts:
                    return ('b', v.kind, ts.pop())
            if isinstance(v, Obj) and path.heap[v.oid].kind in ('set',
                                                                'list'):
                return typeof(I.snapshot(v, path), path)
            if isinstance(v, App) and v.op == 'setop':
                ta = typeof(v.args[1], path)
                if ta and ta[0] == 'b' and len(ta) > 2:
                    return ('b', 'set', ta[2])
            return orig_typeof(v, path)
        I.typeof = typeof

        def observer(I_, kind, operands, path, onode):
            for o in operands:
                t = typeof(o, path) if isinstance(o, (Sym, App, Coll,
                                                      Obj)) else None
                if kind == 'sort' and t and t[0] == 'b' and len(t) > 2:
                    t = t[2]
                if t in (STATE, ATOM):
                    A.observations.append((f, kind, t, o, onode,
                                           tuple(I_.stack)))
        I.observer = observer
        path = I.new_path()
        a = node.args
        pnames = [x.arg for x in a.posonlyargs + a.args]
        if a.vararg:
            pnames.append(a.vararg.arg)
        pnames += [x.arg for x in a.kwonlyargs]
        fo = path.alloc('frame')
        h = path.heap[fo.oid]
        h.module = f.module
        h.fnode = node
        h.self_cls = f.owner
        for i, n in enumerate(pnames):
            typ = None
            if i == 0 and f.owner is not None and not _is_static(node):
                typ = ('inst', f.owner)
            else:
                typ = self.ptype(f, i)
                if typ is None and f.owner is not None and \
                        f.owner.is_subclass_of(
                            self.prog.cls('graph.DiGraph')):
                    typ = PARAM_TYPES.get((f.name, n))
            h.vars[n] = Sym('p_' + n, typ)
        I.stack.append(f)
        try:
            if _is_gen(node):
                h.vars['$yield'] = path.alloc('list', site=node)
            res = I.exec_block(node.body, fo.oid, path)
        except Inconclusive as e:
            self.failed[f.qn] = str(e)
            return None
        except RecursionError:
            self.failed[f.qn] = 'recursion'
            return None
        finally:
            I.stack.pop()
        # argument types at the call sites of this function (parameter types
        # of the callees in the next round)
        for (p, sig) in res:
            for e in p.log:
                if e.kind == 'call' and isinstance(e.target, FRef):
                    cands = [e.target.fi]
                    args = list(e.args[0])
                elif e.kind == 'mcall':
                    cands = [g for g in self.by_name.get(e.name, [])
                             if g.owner is not None]
                    args = [e.target] + list(e.args)
                else:
                    continue
                for g in cands:
                    gq = self.prog.by_node_qn(g) if hasattr(
                        self.prog, 'by_node_qn') else g.qn
                    for i, a in enumerate(args):
                        t = typeof(I.snapshot(a, p) if isinstance(a, Obj)
                                   else a, p) if isinstance(
                            a, (Sym, App, Coll, Obj)) else None
                        if t is not None and t[0] == 'inst':
                            t = None
                        self.param_types.setdefault((gq, i), set()).add(t)
        rts = set()
        for (p, sig) in res:
            if isinstance(sig, tuple) and sig[0] == 'ret':
                rts.add(typeof(sig[1], p) if isinstance(
                    sig[1], (Sym, App, Coll, Obj)) else None)
        rts.discard(None)
        if len(rts) == 1:
            return rts.pop()
        return None


# uses of an opaque value that are allowed
ALLOWED_ATTRS = ('__class__', '__hash__', '__eq__', '__ne__', '__str__',
                 '__repr__', '__module__')


def violations(A):
    out = []
    for (f, kind, t, o, node, stack) in A.observations:
        what = 'state' if t == STATE else 'atom name'
        if kind in ('order', 'arith', 'sort'):
            out.append((f, kind, what, o, node))
        elif kind == 'subscript' and t == STATE:
            out.append((f, kind, what, o, node))
        elif kind == 'attr' and t == STATE:
            out.append((f, kind, what, o, node))
        elif kind == 'isinstance' and t == STATE:
            out.append((f, kind, what, o, node))
    return out


def variant_program(prog, edits):
    """Program built from a scratch copy of the package with `edits`
    ({relpath: source}) applied; the copy is removed before returning"""
    d = tempfile.mkdtemp(prefix='pmcv_')
    try:
        shutil.copytree(prog.pkgdir, os.path.join(d, 'pyModelChecking'),
                        ignore=shutil.ignore_patterns('__pycache__',
                                                      'tests'))
        for rel, src in edits.items():
            with open(os.path.join(d, rel), 'w') as fh:
                fh.write(src)
        return Program(d)
    finally:
        shutil.rmtree(d, ignore_errors=True)


def run_analysis(prog):
    from .c13 import adjacency_field
    adj = adjacency_field(prog)
    E = c07.effects(prog)
    reach = E.reachable([prog.func(e).qn for e in c07.ENTRIES])
    funcs = [E.summ[q].fi for q in sorted(reach)]
    # __init__ of the formula / parser classes are irrelevant to states
    return Opaque(prog, funcs, adj), funcs


def rule_opq1(prog):
    r = RuleResult('R-OPQ-1', 'states and atom names are only stored, '
                   'hashed, compared with ==/in, returned or formatted')
    A, funcs = run_analysis(prog)
    floor('R-OPQ-1', 'functions analysed', len(funcs), 40)
    typed_sites = {}
    for (f, kind, t, o, node, stack) in A.observations:
        typed_sites.setdefault(f.short(), set()).add(kind)
    viol = violations(A)
    per_fn = {}
    for f in funcs:
        per_fn[f.short()] = sorted(typed_sites.get(f.short(), ()))
    for name, kinds in sorted(per_fn.items()):
        r.inst(function=name, uses_of_opaque_values=kinds,
               nontrivial=bool(kinds))
        r.ok()
    seen = set()
    for (f, kind, what, o, node) in viol:
        key = '%s:%s:%s' % (f.short(), kind, ast.unparse(node)[:80])
        if key in seen:
            continue
        seen.add(key)
        r.fail(Finding(
            PROP, 'R-OPQ-1', '%s:%s' % (f.module.relpath,
                                        getattr(node, 'lineno', '?')),
            f.short(), '%s:%s' % (kind, ast.unparse(node)[:80]),
            '%s uses a %s (%r) in a %s operation: `%s`. The answer then '
            'depends on the identity of the names (a bijection onto tuples '
            'or mixed types changes it or raises TypeError)' % (
                f.short(), what, o, {'order': 'ordering comparison',
                                     'arith': 'arithmetic',
                                     'sort': 'sort/min/max without key',
                                     'subscript': 'subscript',
                                     'attr': 'attribute access',
                                     'isinstance': 'type test'}[kind],
                ast.unparse(node)[:80]),
            expected='==, hash, in, storage, return, message formatting'))
    bad = [q for q in A.failed]
    if bad:
        r.notes.append('functions outside the interpreted fragment '
                       '(not analysed): %s' % sorted(bad))
    # the engine must see opaque values at all (non-vacuity)
    nstate = len([o for o in A.observations if o[2] == STATE])
    floor('R-OPQ-1', 'observed uses of state-typed values', nstate, 10)
    # positive fixture: a variant with one ordering use must be flagged
    gm = prog.module('graph')
    src = gm.src + ('\n\ndef _verif_fixture(G):\n    return sorted(G.nodes())'
                    '\n')
    # make it reachable: call it from get_reachable_set_from
    src = src.replace('        queue = list(nodes)\n',
                      '        queue = list(nodes)\n'
                      '        _verif_fixture(self)\n', 1)
    if '_verif_fixture(self)' in src:
        vp = variant_program(prog, {gm.relpath: src})
        c07._cache.clear()
        try:
            A2, _ = run_analysis(vp)
            hit = [v for v in violations(A2) if v[0].name ==
                   '_verif_fixture']
        finally:
            c07._cache.clear()
        r.inst(fixture='sorted(G.nodes()) injected into a scratch copy',
               flagged=bool(hit))
        if hit:
            r.ok()
        else:
            raise AnalysisError('R-OPQ-1 self-check: the injected ordering '
                                'use of states was not flagged')
    else:
        r.notes.append('positive fixture not injected (anchor text moved)')
    return r


def run(prog, tier, seed):
    T = Attempts()
    r = T(rule_opq1, prog)
    expl = ('Type-tag flow analysis over every function reachable from the '
            'three modelchecks (abstract interpretation per function, '
            'return types closed by fixpoint): values tagged State (what '
            'states()/nodes()/next()/edges hand out, keys of the adjacency '
            'and label dictionaries, atom.state) and AtomName (label set '
            'members, AtomicProposition.name) reach only ==, hash, in, '
            'storage, return and message formatting; never <,>, sorting '
            'without key, arithmetic, subscripting, attribute access or '
            'isinstance. By parametricity the answer is invariant under '
            'renaming of states and atoms up to iteration order. A scratch '
            'variant with an injected sorted(states) must be flagged on '
            'every run. NOT decided: invariance under reordering of the '
            'input collections, PYTHONHASHSEED, adding unreachable states '
            '-- statements about run-time iteration order.')
    assumptions = ['seed table of the graph/Kripke API (METHOD_TYPES, '
                   'FIELD_TYPES) transcribed from the documented API',
                   'iteration-order / hash-seed clauses are not decided']
    # what the invariance under renaming / reordering / hash seed relies on:
    # fresh helper names cannot collide with the user's atoms (an atom named
    # like the helper label would change the answer), the atom builder's
    # sort key leaves no ties between dependent formulas to set iteration
    # order, no exception handler cuts a loop over states short (the result
    # would depend on the iteration order), and the SCC bookkeeping does not
    # depend on the order in which nodes are met
    from . import c01, c02, c12, c19

    def _ltl0(prog):
        return c02.rule_ltl0(prog, c02.discover(prog))

    def _ltl4(prog):
        # the acceptance test of a tableau component must read the whole
        # component: which of its atoms the SCC enumeration lists first
        # depends on the iteration order of sets
        return c02.rule_ltl4(prog, c02.discover(prog))

    def _ltl3(prog):
        # consistent renaming of the atomic propositions: an atom must be
        # looked up in the labels by its name (or by itself), whatever the
        # name looks like
        return c02.rule_ltl3(prog, c02.discover(prog))

    def _text(prog):
        # renaming an atom to a name that has to be quoted in the text
        return c01._text_atoms(prog, PROP)

    def _ctl13(prog):
        entry, labeller, memo_ok, why = c01.discover_labeller(prog)
        try:
            r1, table = c01.rule_ctl1(prog, labeller)
        except Inconclusive as e:
            if getattr(e, 'partial', None) is None:
                raise
            r1, table = e.partial
        return c01.rule_ctl3(prog, labeller, table, tier)
    dep = adopt(T.results(T(c19.rule_res5, prog), T(_ltl0, prog),
                          T(_ltl4, prog), T(_ltl3, prog), T(_text, prog),
                          T(_ctl13, prog), T(c12.rule_scc, prog),
                          T(c12.rule_scc6, prog),
                          T(c12.rule_scc9, prog)),
                PROP, 'order / naming sensitive spot')
    # presentation of L: the same set object given to several states, or
    # equal sets, must be the same structure -- the constructor and the
    # clone the checkers relabel must copy the label collections
    from . import c13, c14
    adj = T(c13.adjacency_field, prog)
    if adj:
        dep = dep + adopt(T.results(T(c14.rule_k1, prog, adj),
                                    T(c14.rule_k4, prog, adj)), PROP,
                          'label sets shared between states of one '
                          'presentation')
    return T.results(r) + dep, expl, assumptions, T.extra()
