"""C09 -- printing then parsing a formula gives back the same formula.

R-RT-0 the parser grammar is unambiguous up to value (canonical LR(1),
       modulo value-redundant transparent parenthesis productions)
R-RT-1 every printer template is derivable, with exactly one value: the same
       constructor over the children in order
R-RT-2 every production has a callback; un-aliased ones pass their child
R-RT-3 printer and grammar use one symbol table
R-RT-4 printing is injective (the printer grammar is LR(1))
"""
from ..program import AnalysisError, Inconclusive, ClassInfo
from ..grammar import (extract, Recogniser, tokenise, lr1_conflicts,
                       production_value)
from ..printers import templates, injectivity, delimiter_problems
from ..formulas import signatures, LANGS
from ..report import Finding, RuleResult, floor, Attempts

PROP = 'C09'

_gcache = {}


def grammars(prog):
    k = id(prog)
    if k not in _gcache:
        _gcache.clear()
        _gcache[k] = {l: extract(prog, l) for l in ('PL', 'CTLS', 'CTL',
                                                    'LTL')}
    return _gcache[k]


def acceptance(prog, lang):
    sigs = signatures(prog)[lang]
    return {n: {m for m, s2 in sigs.items()
                if s2.ci.is_subclass_of(s.required)}
            for n, s in sigs.items() if s.kind == 'op'}


def reserved_words(prog, lang):
    out = set()
    al = prog.alphabet(LANGS[lang])
    for n, ci in al.items():
        r = ci.lookup('symbols')
        if r is None:
            continue
        import ast
        node = r[1]
        for c in ast.walk(node):
            if isinstance(c, ast.Constant) and isinstance(c.value, str):
                out.add(c.value)
    return out


def symbols_of(prog, ci):
    import ast
    r = ci.lookup('symbols')
    if r is None:
        return None
    node = r[1]
    if isinstance(node, ast.List):
        return [c.value for c in node.elts if isinstance(c, ast.Constant)]
    if isinstance(node, ast.Dict):
        return {k.value: v.value for k, v in zip(node.keys, node.values)
                if isinstance(k, ast.Constant)}
    return None


def lr_rules(g, drop=()):
    return [(r.origin, [s for s, _, _ in r.rhs], r.idx) for r in g.rules
            if r.idx not in drop]


def rule_rt0(prog, G):
    r = RuleResult('R-RT-0', 'parser grammar unambiguous up to value '
                   '(canonical LR(1))')
    for lang, g in G.items():
        conflicts, nst = lr1_conflicts(lr_rules(g), g.start)
        transparent = []
        if conflicts:
            # value-redundant transparent productions  N: "(" N ")"
            for ru in g.rules:
                if ru.alias is None and len(ru.rhs) == 3 and \
                        ru.rhs[1][0] == ru.origin and ru.rhs[0][1] and \
                        ru.rhs[2][1] and ru.rhs[0][2] and ru.rhs[2][2] and \
                        g.callbacks.get(ru.origin, ('x',))[0] == 'pass':
                    N = ru.origin
                    occ = [(q, i) for q in g.rules if q.idx != ru.idx
                           for i, s in enumerate(q.rhs) if s[0] == N]
                    redundant = bool(occ)
                    for (q, i) in occ:
                        unit = len(q.rhs) == 1 and q.alias is None and \
                            g.callbacks.get(q.origin, ('x',))[0] == 'pass'
                        if not unit:
                            redundant = False
                            break
                        # "(" N ")" must be derivable from q.origin without
                        # this production, with the value of N
                        g2 = _without(g, ru.idx)
                        rec = Recogniser(g2, {N})
                        form = [ru.rhs[0][0], ('hole', 0), ru.rhs[2][0]]
                        vals = rec.derive(q.origin, form)
                        if vals != {('hole', 0)}:
                            redundant = False
                            break
                    if redundant:
                        transparent.append(ru)
        drop = set(t.idx for t in transparent)
        c2, nst2 = lr1_conflicts(lr_rules(g, drop), g.start) \
            if transparent else (conflicts, nst)
        r.inst(lang=lang, productions=len(g.rules), lr1_states=nst,
               conflicts=len(conflicts),
               transparent_productions=[repr(t) for t in transparent],
               conflicts_after_removal=len(c2))
        if not c2:
            r.ok()
        else:
            seen = set()
            for c in c2:
                key = (c[0], repr(c[3][:2]), repr(c[4][:2]))
                if key in seen:
                    continue
                seen.add(key)
                r.fail(Finding(
                    PROP, 'R-RT-0', g.parser_cls.module.relpath + ':1',
                    g.parser_cls.short(),
                    'conflict:%s:%s|%s' % (c[0], _prod(c[3]), _prod(c[4])),
                    'the %s grammar is ambiguous (canonical LR(1) %s on %s '
                    'between  %s  and  %s ): a printed formula can be parsed '
                    'into a different tree' % (lang, c[0], c[2], _prod(c[3]),
                                               _prod(c[4])),
                    expected='no conflict beyond value-redundant '
                             'parenthesis productions'))
    return r


def _prod(p):
    return '%s -> %s' % (p[0], ' '.join(p[1]))


def _without(g, idx):
    import copy
    g2 = copy.copy(g)
    g2.rules = [q for q in g.rules if q.idx != idx]
    return g2


def expected_value(name, arity):
    if name == 'Bool':
        return ('bool', arity)
    if name == 'AtomicProposition':
        return ('atom', 'p')
    return (name,) + tuple(('hole', i) for i in range(arity))


def form_of(g, pieces):
    form = []
    for p in pieces:
        if isinstance(p, str):
            t = tokenise(g, p)
            if t is None:
                return None
            form.extend(t)
        elif p[0] == 'hole':
            form.append(p)
        elif p[0] == 'leaf':
            t = tokenise(g, 'p')
            if t is None:
                return None
            form.extend(t)
        else:
            return None
    return form


def rule_rt1(prog, G):
    r = RuleResult('R-RT-1', 'every printer template derives, with exactly '
                   'one value: the same constructor over the children in '
                   'order')
    for lang in ('PL', 'CTLS', 'LTL', 'CTL'):
        # CTL formulas are printed in CTL* notation for parsing (the CTL*
        # parser): CTL's own notation is not parsed by any parser
        if lang == 'CTL':
            continue
        g = G[lang]
        tm = templates(prog, lang)
        acc = acceptance(prog, lang)
        child_classes = set()
        for s in acc.values():
            child_classes |= s
        nts = [n for n in g.nonterminals() if not n.startswith('_')]
        results = {}
        for N in nts:
            good = True
            detail = []
            for (name, n, pieces, f) in tm:
                form = form_of(g, pieces)
                want = expected_value(name, n)
                if form is None:
                    good = False
                    detail.append((name, n, 'literal text does not '
                                   'tokenise', None))
                    continue
                rec = Recogniser(g, {N})
                if name in child_classes or name in ('Bool',
                                                     'AtomicProposition'):
                    vals = rec.derive(N, form)
                    if vals != {want}:
                        good = False
                        detail.append((name, n, 'as operand', vals))
                vals = Recogniser(g, {N}).derive(g.start, form)
                if vals != {want}:
                    good = False
                    detail.append((name, n, 'at the root', vals))
            results[N] = (good, detail)
        winners = [N for N in nts if results[N][0]]
        for (name, n, pieces, f) in tm:
            r.inst(lang=lang, cls=name, arity=n, template=_tshow(pieces),
                   expected=repr(expected_value(name, n)),
                   operand_nonterminal=winners[:1])
        if winners:
            r.ok(len(tm))
            # delimiters
            for (name, n, pieces, f) in tm:
                pr = delimiter_problems(pieces)
                if pr:
                    r.fail(Finding(
                        PROP, 'R-RT-1', f.where(), f.short(),
                        'delimiter:%s:%s' % (lang, name),
                        'the printer of %s.%s does not delimit an operand: '
                        '%s (the lexer may split the text differently)' % (
                            lang, name, pr[0])))
                else:
                    r.ok()
        else:
            # report against the best candidate
            best = min(nts, key=lambda N: len(results[N][1]))
            for (name, n, where, vals) in results[best][1][:6]:
                if vals and any('opaque' in repr(v) for v in vals):
                    # a callback whose result was not understood
                    raise Inconclusive(
                        'R-RT-1', 'derivations of the printed form of %s.%s '
                        'go through a callback that is not understood: %s' %
                        (lang, name, sorted(map(repr, vals))[:2]), '')
                f = [t[3] for t in tm if t[0] == name][0]
                pieces = [t[2] for t in tm if t[0] == name and t[1] == n][0]
                r.fail(Finding(
                    PROP, 'R-RT-1', f.where(), f.short(),
                    'template:%s:%s/%s:%s' % (lang, name, n, where),
                    'the printed form  %s  of a %s.%s formula (%s) does not '
                    'parse back to that formula: derivations give %s' % (
                        _tshow(pieces), lang, name, where,
                        sorted(map(repr, vals)) if vals else 'no parse'),
                    expected=repr(expected_value(name, n)),
                    found=sorted(map(repr, vals or []))))
    floor('R-RT-1', 'templates', len(r.instances), 38)
    return r


def _tshow(pieces):
    return ''.join(p if isinstance(p, str) else
                   ('<c%d>' % p[1] if p[0] == 'hole' else '<atom>')
                   for p in pieces)


def rule_rt2(prog, G, prop=PROP, rid='R-RT-2'):
    r = RuleResult(rid, 'every production has a callback; un-aliased ones '
                   'pass their single child through')
    for lang, g in G.items():
        for name, cb in sorted(g.callbacks.items()):
            aliased = any(ru.alias == name for ru in g.rules)
            r.inst(lang=lang, callback=name, kind=cb[0],
                   builds=cb[1].short() if cb[0] in ('construct', 'const',
                                                      'atom') else None)
            if cb[0] == 'missing':
                r.fail(Finding(
                    prop, rid, g.parser_cls.module.relpath + ':1',
                    g.transformer.short(), 'missing:%s:%s' % (lang, name),
                    'the %s grammar uses the rule/alias `%s` but the '
                    'transformer %s has no such callback: a raw parse tree '
                    'is returned instead of a formula' % (
                        lang, name, g.transformer.short())))
            elif cb[0] == 'function' and prop != PROP:
                # builds a formula through a package function: relevant to
                # the round trip (C09) only
                r.ok()
            elif cb[0] == 'function':
                r.fail(Finding(
                    prop, rid, cb[-1].where(), cb[-1].short(),
                    'function:%s:%s:%s' % (lang, name, cb[1].name),
                    'callback `%s` of the %s parser builds its result with '
                    'the function %s(%s) instead of the constructor of the '
                    'operator: the parsed tree need not be the tree that '
                    'was written (e.g. stacked negations collapse)' % (
                        name, lang, cb[1].short(), cb[2])))
            elif cb[0] == 'construct-other':
                r.fail(Finding(
                    prop, rid, cb[-1].where(), cb[-1].short(),
                    'children:%s:%s' % (lang, name),
                    'callback `%s` of the %s parser builds %s from %s, not '
                    'from its children in order' % (name, lang,
                                                    cb[1].short(), cb[2])))
            elif cb[0] == 'other' and len(cb) > 3 and \
                    cb[3] == 'inspects-children':
                r.fail(Finding(
                    prop, rid, cb[2].where(), cb[2].short(),
                    'inspects:%s:%s' % (lang, name),
                    'callback `%s` of the %s parser decides what to build '
                    'by looking at its operands (%s): the tree of a nested '
                    'text is then not the composition of the trees of its '
                    'parts (e.g. a negation of a negation is simplified '
                    'away), so Parser()(str(f)) is not f for every f' % (
                        name, lang, '; '.join(cb[4]))))
            elif cb[0] == 'other':
                raise Inconclusive(rid, 'callback %s of %s: %s' % (
                    name, lang, cb[1]), cb[2].where())
            elif not aliased and cb[0] != 'pass':
                r.fail(Finding(
                    prop, rid, cb[-1].where(), cb[-1].short(),
                    'unaliased-not-pass:%s:%s' % (lang, name),
                    'the un-aliased rule `%s` of the %s grammar does not '
                    'return its child' % (name, lang)))
            elif cb[0] == 'pass' and cb[1] != 0:
                r.fail(Finding(
                    prop, rid, cb[-1].where(), cb[-1].short(),
                    'pass-index:%s:%s' % (lang, name),
                    'callback `%s` returns child %d' % (name, cb[1])))
            else:
                r.ok()
    return r


def rule_rt3(prog, G, prop=PROP, rid='R-RT-3'):
    r = RuleResult(rid, 'slot agreement: the operator tokens of every '
                   'aliased production are the symbols of the class its '
                   'callback builds')
    nslots = 0
    for lang, g in G.items():
        for ru in g.rules:
            name = ru.alias
            if name is None:
                continue
            cb = g.callbacks.get(name)
            if cb is None or cb[0] not in ('construct', 'const'):
                continue
            ci = cb[1]
            syms = symbols_of(prog, ci)
            toks = [g.terminals[s][1] for (s, t, f) in ru.rhs
                    if t and f and g.terminals.get(s, ('', ''))[0] == 'str'
                    and g.terminals[s][1] not in ('(', ')')]
            helper_toks = []
            for (s, t, f) in ru.rhs:
                if not t and s.startswith('_'):
                    for h in g.by_origin(s):
                        helper_toks.extend(
                            g.terminals[x][1] for (x, tt, ff) in h.rhs
                            if tt and g.terminals.get(x, ('', ''))[0] ==
                            'str')
            if cb[0] == 'const':
                want = [syms[cb[2]]] if isinstance(syms, dict) else None
            else:
                want = syms
            nslots += 1
            got = toks or sorted(set(helper_toks))
            ok = want is not None and set(got) <= set(want) and bool(got)
            r.inst(lang=lang, production=repr(ru), builds=ci.short(),
                   operator_tokens=got, class_symbols=want)
            if ok:
                r.ok()
            else:
                r.fail(Finding(
                    prop, rid, g.parser_cls.module.relpath + ':1',
                    g.parser_cls.short(),
                    'slot:%s:%s:%s' % (lang, name, ','.join(got)),
                    'in the %s grammar the production  %s  is introduced by '
                    '%s but builds %s, whose symbols are %s' % (
                        lang, ru, got, ci.short(), want),
                    expected=want, found=got))
        # completeness: all symbols of a class are accepted somewhere
        al = prog.alphabet(LANGS[lang])
        for cname, ci in sorted(al.items()):
            syms = symbols_of(prog, ci)
            if cname == 'AtomicProposition' or syms is None:
                continue
            vals = list(syms.values()) if isinstance(syms, dict) else syms
            present = set(v for (k, v) in g.terminals.values() if k == 'str')
            missing = [s for s in vals if s not in present]
            if missing:
                r.fail(Finding(
                    prop, rid, g.parser_cls.module.relpath + ':1',
                    g.parser_cls.short(),
                    'symbol-missing:%s:%s' % (lang, cname),
                    'the symbols %s of %s.%s are not tokens of the %s '
                    'grammar (the printer uses the first one)' % (
                        missing, lang, cname, lang)))
            else:
                r.ok()
    floor(rid, 'aliased productions', nslots, 40)
    return r


def rule_rt4(prog, prop=PROP, rid='R-RT-4', langs=('PL', 'CTLS', 'LTL',
                                                   'CTL')):
    r = RuleResult(rid, 'printing is injective: the printer grammar over '
                   'canonical tokens is LR(1)')
    for lang in langs:
        tm = templates(prog, lang)
        acc = acceptance(prog, lang)
        res = reserved_words(prog, lang)
        rules, problems, conflicts, nst = injectivity(tm, res, acc)
        # And(x) / Or(x) with one operand can be built through the
        # constructors: two different (operator, arity) pairs must not have
        # the same template (identical text for different trees)
        seen_t = {}
        for (name, n, pieces, f) in templates(prog, lang, with_unary=True):
            key = tuple(pieces)
            other = seen_t.get(key)
            if other is not None and other != (name, n) and \
                    name not in ('Bool',) and other[0] not in ('Bool',):
                r.fail(Finding(
                    prop, rid, f.where(), 'printers of ' + lang,
                    'same-template:%s:%s/%s|%s/%s' % (lang, other[0],
                                                      other[1], name, n),
                    'the %s formulas %s(..) with %s operand(s) and %s(..) '
                    'with %s operand(s) print with the same template `%s`: '
                    'different trees, one printed form (== and hash are '
                    'computed from it)' % (lang, other[0], other[1], name, n,
                                           _tshow(pieces))))
            seen_t.setdefault(key, (name, n))
        r.inst(notation=lang, printer_productions=len(rules),
               lr1_states=nst, conflicts=len(conflicts),
               problems=problems)
        f0 = tm[0][3]
        for pb in problems:
            r.fail(Finding(prop, rid, f0.where(), f0.short(),
                           'print-shape:%s:%s' % (lang, pb),
                           'printer of %s: %s' % (lang, pb)))
        if conflicts:
            seen = set()
            for c in conflicts:
                key = (c[3][2], c[4][2])
                if key in seen:
                    continue
                seen.add(key)
                r.fail(Finding(
                    prop, rid, f0.where(), 'printers of ' + lang,
                    'print-ambiguity:%s:%s|%s' % (lang, c[3][2], c[4][2]),
                    'two different %s formulas print identically: the '
                    'printed forms of %s and %s collide (%s on token %s)' % (
                        lang, c[3][2], c[4][2], c[0], c[2]),
                    expected='different trees print differently'))
        else:
            r.ok()
    return r


def run(prog, tier, seed):
    G = grammars(prog)
    T = Attempts()
    results = T.results(T(rule_rt0, prog, G), T(rule_rt1, prog, G),
                        T(rule_rt2, prog, G), T(rule_rt3, prog, G),
                        T(rule_rt4, prog))
    expl = ('The grammar text of each parser is obtained by abstract '
            'interpretation of init_submodule; its productions (EBNF '
            'expanded by lark) are analysed by this checker: canonical '
            'LR(1) item sets show each grammar unambiguous up to value '
            '(PL and CTL* only through one transparent parenthesis '
            'production each, proven value-redundant); every printer '
            'template (extracted by abstract interpretation of __str__, '
            'children as placeholders) has exactly one derivation value, '
            'namely the same constructor over the children in order; '
            'callbacks exist; printer and grammar share the symbol table; '
            'the printers read as a grammar are LR(1), so printing is '
            'injective. By structural induction Parser()(str(f)) has the '
            'tree of f for every formula.')
    assumptions = ['lark\'s contextual lexer splits printer output at the '
                   'blanks and parentheses the printer emits; its LALR '
                   'driver follows its table',
                   'atom names are identifier-style and not reserved words',
                   'n-ary and/or have arity >= 2']
    # "every CTL formula when printed in CTL* notation": the only route is
    # str(f.cast_to(CTLS)); the cast must give the same tree in the target
    from . import c08
    from ..formulas import signatures
    from ..report import adopt
    sigs = T(signatures, prog)
    if sigs is not None:
        results = results + adopt(T.results(T(c08.rule_sort3, prog, sigs)),
                                  PROP, 'printing a CTL formula in CTL* '
                                  'notation goes through cast_to')
    # the value a derivation builds is a formula of that logic (typing of
    # the grammar): a callback that hands back a bare name / tree for some
    # production makes Parser()(str(f)) something that is not f's class
    from . import c10
    results = results + adopt(T.results(T(c10.rule_gr3, prog, G)), PROP,
                              'the parsed value of a printed form is a '
                              'formula of the same logic')
    return results, expl, assumptions, T.extra()
