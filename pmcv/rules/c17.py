"""C17 -- OBDD operations compute the right function, reduced and ordered
(partial).

R-BDD-1 inductive step of apply / restrict / negation: each recursion step is
        interpreted abstractly (recursive calls kept symbolic) and the
        extracted step, with the recursive calls replaced by their
        specification, yields the right function, an ordered node and
        strictly smaller recursive operands, for every pair of reduced
        diagrams over two variables
R-BDD-2 result caches are keyed consistently
R-BDD-3 ordering mismatch / foreign variable => RuntimeError dominates
R-BDD-4 &, |, ^ hand the matching Boolean operator to apply
(creation through the hash-consing constructor is decided by C16 R-HC-1)
"""
import ast
import itertools

from ..program import AnalysisError, Inconclusive, ClassInfo, ExtClass
from ..values import (Const, Sym, CRef, FRef, ERef, Bound, Obj, Tup, App,
                      New, Raise, walk)
from ..interp import Interp, Hooks
from ..report import Finding, RuleResult, floor, Attempts

PROP = 'C17'


class EvalError(Exception):
    pass


def T(b):
    return ('T', bool(b))


def N(v, lo, hi):
    return ('N', v, lo, hi)


def all_robdds(order):
    """every reduced ordered diagram over the variables in `order`"""
    def build(tt, vars_):
        if not vars_:
            return T(tt[0])
        half = len(tt) // 2
        lo = build(tt[:half], vars_[1:])
        hi = build(tt[half:], vars_[1:])
        if lo == hi:
            return lo
        return N(vars_[0], lo, hi)
    n = len(order)
    out = []
    for bits in itertools.product([False, True], repeat=2 ** n):
        d = build(list(bits), list(order))
        if d not in out:
            out.append(d)
    return out


def truth(node, order, rec):
    """truth table of a concrete node (over `order`), REC leaves by `rec`"""
    tts = []
    for vals in itertools.product([False, True], repeat=len(order)):
        env = dict(zip(order, vals))
        tts.append(_val(node, env, order, rec))
    return tuple(tts)


def _val(node, env, order, rec):
    k = node[0]
    if k == 'T':
        return node[1]
    if k == 'N':
        if node[1] not in env:
            raise EvalError('variable %r outside the ordering' % (node[1],))
        return _val(node[3] if env[node[1]] else node[2], env, order, rec)
    if k == 'REC':
        return rec(node, env, order)
    raise EvalError('not a node: %r' % (node,))


def vars_of(node):
    k = node[0]
    if k == 'T':
        return set()
    if k == 'N':
        return {node[1]} | vars_of(node[2]) | vars_of(node[3])
    if k == 'REC':
        out = set()
        for x in node[2:]:
            if isinstance(x, tuple) and x and x[0] in ('T', 'N', 'REC'):
                out |= vars_of(x)
        return out
    return set()


def size(node):
    if node[0] == 'N':
        return 1 + size(node[2]) + size(node[3])
    return 0


class BEval(object):
    str_identity = True
    identity_used = False

    def __init__(self, env, classes, rec_fns):
        self.env = env
        self.base, self.nt, self.tt = classes
        self.rec_fns = rec_fns     # FuncInfo / method names that recurse

    def ev(self, v):
        if isinstance(v, Const):
            return v.v
        if isinstance(v, Sym):
            if v in self.env:
                return self.env[v]
            raise EvalError('free symbol %r' % (v,))
        if isinstance(v, Obj):
            raise EvalError('heap object')
        if isinstance(v, New):
            if v.ci is self.nt or (v.ci is self.base and len(v.args) == 3):
                var, lo, hi = [self.ev(a) for a in v.args]
                return N(var, lo, hi)
            if v.ci is self.tt or (v.ci is self.base and len(v.args) == 1):
                return T(self.ev(v.args[0]))
            raise EvalError('construction of %s' % v.ci.short())
        if isinstance(v, Tup):
            return tuple(self.ev(x) for x in v.items)
        if isinstance(v, App):
            m = getattr(self, 'op_' + v.op, None)
            if m is None:
                raise EvalError('operator %s' % v.op)
            return m(*v.args)
        raise EvalError('value %r' % (v,))

    def op_attr(self, x, name):
        n = self.ev(x)
        f = name.v
        if not (isinstance(n, tuple) and n and n[0] in ('T', 'N')):
            raise EvalError('attribute %s of %r' % (f, n))
        if n[0] == 'N' and f in ('var', 'low', 'high'):
            return n[{'var': 1, 'low': 2, 'high': 3}[f]]
        if n[0] == 'T' and f == 'value':
            return n[1]
        raise AttributeError('%s of a %s node' % (
            f, 'terminal' if n[0] == 'T' else 'non-terminal'))

    def op_isinstance(self, x, c):
        n = self.ev(x)
        ci = c.ci
        if ci is self.base:
            return isinstance(n, tuple) and n[0] in ('T', 'N')
        if ci is self.tt:
            return isinstance(n, tuple) and n[0] == 'T'
        if ci is self.nt:
            return isinstance(n, tuple) and n[0] == 'N'
        if isinstance(ci, ExtClass):
            py = {'int': int, 'bool': bool, 'str': str}.get(ci.name)
            if py:
                return isinstance(n, py)
        raise EvalError('isinstance %s' % ci.short())

    def op_cmp(self, op, a, b):
        a, b = self.ev(a), self.ev(b)
        o = op.v
        if o == '==':
            return a == b
        if o == '!=':
            return a != b
        if o in ('is', 'is not'):
            if isinstance(a, str) and isinstance(b, str) and a == b:
                # equal strings need not be identical objects
                self.identity_used = True
                same = self.str_identity
            else:
                same = a is b or a == b
            return same if o == 'is' else not same
        if o == '<':
            return a < b
        if o == '>':
            return a > b
        raise EvalError('comparison ' + o)

    def op_not(self, a):
        return not self.ev(a)

    def op_bool(self, a):
        return bool(self.ev(a))

    def op_and(self, *a):
        return all(self.ev(x) for x in a)

    def op_or(self, *a):
        return any(self.ev(x) for x in a)

    def op_mcall(self, recv, name, args):
        n = name.v
        if n in ('in_order', 'cmp', '__contains__'):
            order = self.ev(recv)
            a = [self.ev(x) for x in args.items]
            if n == '__contains__':
                return a[0] in order
            for x in a:
                if x not in order:
                    raise KeyError(x)
            if n == 'in_order':
                return order.index(a[0]) < order.index(a[1])
            return order.index(a[0]) - order.index(a[1])
        if n in self.rec_fns:
            return ('REC', n, self.ev(recv)) + tuple(
                self._recarg(x) for x in args.items)
        raise EvalError('method %s' % n)

    def _recarg(self, x):
        try:
            return self.ev(x)
        except EvalError:
            return None

    def op_call(self, fv, args, kw=None):
        if isinstance(fv, App) and fv.op == 'ite':
            # f = g if c else h ; f(..)
            return self.op_call(fv.args[1] if self.ev(fv.args[0])
                                else fv.args[2], args, kw)
        if isinstance(fv, FRef) and fv.fi.name in self.rec_fns:
            return ('REC', fv.fi.name) + tuple(self._recarg(x)
                                               for x in args.items)
        f = self.ev(fv) if isinstance(fv, Sym) else None
        if callable(f):
            return f(*[self.ev(x) for x in args.items])
        raise EvalError('call of %r' % (fv,))

    def op_in(self, item, cont):
        return self.ev(item) in self.ev(cont)

    def op_ite(self, c, a, b):
        return self.ev(a) if self.ev(c) else self.ev(b)


def pick_path(res, ev, I):
    """the (unique) path whose condition holds under the environment"""
    hits = []
    for (p, v) in res:
        ok = True
        for (c, pol) in p.pc:
            if isinstance(c, App) and c.op == 'implicit_exc':
                ok = False
                break
            try:
                if bool(ev.ev(c)) != pol:
                    ok = False
                    break
            except AttributeError as e:
                return [('attr-error', str(e), p)]
        if ok:
            hits.append((p, v))
    return hits


class _StepHooks(Hooks):
    def __init__(self, prog, entry, recursive):
        self.entry = entry
        self.recursive = recursive       # FuncInfos kept symbolic

    def inline(self, I, fi, args):
        if fi in self.recursive:
            return False
        return True

    def construct(self, I, ci, args, kw, path, node):
        if isinstance(ci, ClassInfo) and ci.module.name.endswith('BDD.BDD'):
            return [(path, New(ci, args, kw))]
        return None


def _discover_apply(prog):
    """apply wrapper, its step function and helpers, from OBDD.apply"""
    oc = prog.cls('BDD.OBDD.OBDD')
    f = prog.method(oc, 'apply')
    mod = prog.module('BDD.OBDD')
    ns = prog.namespace(mod)
    target = None
    for n in ast.walk(f.node):
        if isinstance(n, ast.Call) and isinstance(n.func, ast.Name) and \
                n.func.id in ns and hasattr(ns[n.func.id], 'node') and \
                getattr(ns[n.func.id], 'module', None) is not mod:
            b = ns[n.func.id]
            if b.__class__.__name__ == 'FuncInfo':
                target = b
    if target is None:
        raise AnalysisError('the apply routine called by OBDD.apply was not '
                            'found')
    # step = the function the wrapper stores the result of
    bmod = target.module
    step = None
    for n in ast.walk(target.node):
        if isinstance(n, ast.Call) and isinstance(n.func, ast.Name) and \
                n.func.id in bmod.funcs and n.func.id != target.name:
            step = bmod.funcs[n.func.id]
    if step is None:
        raise Inconclusive('R-BDD-1', 'step function of %s not found' %
                           target.short(), target.where())
    return f, target, step


def discover_steps(prog):
    """(OBDD.apply, apply wrapper, apply step, restrict wrapper, restrict
    step) -- found through the calls, used when R-BDD-1 itself is undecided"""
    base = prog.cls('BDD.BDD.BDDNode')
    oapply, wrapper, step = _discover_apply(prog)
    rfun = prog.method(base, 'restrict')
    bmod = step.module
    rwrap = None
    for n in ast.walk(rfun.node):
        if isinstance(n, ast.Call) and isinstance(n.func, ast.Name) and \
                n.func.id in bmod.funcs:
            rwrap = bmod.funcs[n.func.id]
    rstep = None
    if rwrap is not None:
        for n in ast.walk(rwrap.node):
            if isinstance(n, ast.Call) and isinstance(n.func, ast.Name) and \
                    n.func.id in bmod.funcs and n.func.id != rwrap.name:
                rstep = bmod.funcs[n.func.id]
    if rstep is None:
        raise Inconclusive('R-BDD-1', 'restrict step not found',
                           rfun.where())
    return (oapply, wrapper, step, rwrap, rstep)


def rule_bdd1(prog, tier):
    r = RuleResult('R-BDD-1', 'inductive step of apply / restrict / '
                   'negation on all reduced diagrams over two variables')
    classes = (prog.cls('BDD.BDD.BDDNode'),
               prog.cls('BDD.BDD.BDDNonTerminalNode'),
               prog.cls('BDD.BDD.BDDTerminalNode'))
    base, nt, tt = classes
    order = ['x', 'y', 'z']
    if tier == 'quick':
        # every reduced diagram over two of the three variables: adjacent
        # and non-adjacent positions of the ordering both occur
        dds = []
        for pair in (['x', 'y'], ['y', 'z'], ['x', 'z']):
            for d in all_robdds(pair):
                if d not in dds:
                    dds.append(d)
    else:
        dds = all_robdds(order)
        dds = dds[::5] + [d for pair in (['x', 'y'], ['y', 'z'], ['x', 'z'])
                          for d in all_robdds(pair)]
        dds = [d for i, d in enumerate(dds) if d not in dds[:i]]
    oapply, wrapper, step = _discover_apply(prog)
    ops = {'and': lambda a, b: a and b, 'or': lambda a, b: a or b,
           'xor': lambda a, b: a ^ b}
    # --- apply -----------------------------------------------------------
    I = Interp(prog, _StepHooks(prog, step, {wrapper}), rule='R-BDD-1')
    path = I.new_path()
    A = Sym('A', ('inst', base))
    B = Sym('B', ('inst', base))
    OP, ORD, RC = Sym('operator'), Sym('ordering'), Sym('r_cache')
    params = [a.arg for a in step.node.args.args]
    res = I.call_function(FRef(step), [OP, A, B, ORD, RC], [], path,
                          step.node)
    nm = 0
    bad = None
    for opn, opf in sorted(ops.items()):
        for a in dds:
            for b in dds:
                nm += 1
                env = {A: a, B: b, OP: opf, ORD: order, RC: {}}
                ev = BEval(env, classes, {wrapper.name})
                msg = _check_step(res, ev, I, order,
                                  lambda n, e, o: opf(
                                      _val(n[3], e, o, None),
                                      _val(n[4], e, o, None)),
                                  tuple(opf(x, y) for x, y in zip(
                                      truth(a, order, None),
                                      truth(b, order, None))),
                                  size(a) + size(b))
                if msg and bad is None:
                    bad = (opn, a, b, msg)
    r.inst(step=step.short(), recursive_call=wrapper.short(),
           paths=len(res), operand_pairs=nm, variables=order)
    if bad:
        r.fail(Finding(
            PROP, 'R-BDD-1', step.where(), step.short(),
            'apply-step:' + bad[3].split(':')[0],
            'one step of apply(%s) on A=%s, B=%s (ordering %s): %s' % (
                bad[0], _show(bad[1]), _show(bad[2]), order, bad[3]),
            expected='Shannon expansion on the earlier variable'))
    else:
        r.ok()
    # --- every node class answers what OBDD asks of its root ----------------
    oc = prog.cls('BDD.OBDD.OBDD')
    asked = set()
    for mname, mnode in oc.attrs.items():
        if not isinstance(mnode, ast.FunctionDef):
            continue
        for n in ast.walk(mnode):
            if isinstance(n, ast.Call) and isinstance(n.func, ast.Attribute) \
                    and isinstance(n.func.value, ast.Attribute) and \
                    n.func.value.attr == 'root' and \
                    isinstance(n.func.value.value, ast.Name) and \
                    n.func.value.value.id == 'self':
                asked.add(n.func.attr)
        for n in ast.walk(mnode):
            # `~self.root`
            if isinstance(n, ast.UnaryOp) and isinstance(n.op, ast.Invert) \
                    and isinstance(n.operand, ast.Attribute) and \
                    n.operand.attr == 'root':
                asked.add('__invert__')
    for m in sorted(asked):
        for ci in (nt, tt):
            ok = prog.method(ci, m) is not None
            r.inst(asked_of_root=m, node_class=ci.short(), resolved=ok)
            if ok:
                r.ok()
            else:
                r.fail(Finding(
                    PROP, 'R-BDD-1', '%s:1' % ci.module.relpath, ci.short(),
                    'root-method:%s:%s' % (ci.name, m),
                    'OBDD calls `self.root.%s(..)` but %s does not have '
                    'that method: the operation raises AttributeError on a '
                    'diagram whose root is a %s (a constant / a non-constant '
                    'function)' % (m, ci.short(), ci.name)))
    # --- restrict ----------------------------------------------------------
    rfun = prog.method(base, 'restrict') or prog.method(nt, 'restrict')
    if rfun is None:
        u = Inconclusive('R-BDD-1', 'restrict routine not found', '')
        u.partial = (r, None)
        raise u
    bmod = step.module
    rwrap = None
    for n in ast.walk(rfun.node):
        if isinstance(n, ast.Call) and isinstance(n.func, ast.Name) and \
                n.func.id in bmod.funcs:
            rwrap = bmod.funcs[n.func.id]
    rstep = None
    if rwrap is not None:
        for n in ast.walk(rwrap.node):
            if isinstance(n, ast.Call) and isinstance(n.func, ast.Name) and \
                    n.func.id in bmod.funcs and n.func.id != rwrap.name:
                rstep = bmod.funcs[n.func.id]
    if rstep is None:
        raise Inconclusive('R-BDD-1', 'restrict step not found',
                           rfun.where())
    I = Interp(prog, _StepHooks(prog, rstep, {rwrap}), rule='R-BDD-1')
    path = I.new_path()
    D = Sym('bdd', ('inst', base))
    VAR, VAL = Sym('var'), Sym('value')
    res = I.call_function(FRef(rstep), [D, VAR, VAL, RC], [], path,
                          rstep.node)
    nm = 0
    bad = None
    for d in dds:
        for var in order + ['w']:
            for val in (False, True):
                nm += 1
                env = {D: d, VAR: var, VAL: val, RC: {}}
                ev = BEval(env, classes, {rwrap.name})

                def spec(n, e, o, var=var, val=val):
                    e2 = dict(e)
                    e2[var] = val
                    return _val(n[2], e2, o, None)
                want = []
                for vals in itertools.product([False, True],
                                              repeat=len(order)):
                    e = dict(zip(order, vals))
                    e[var] = val
                    want.append(_val(d, e, order, None))
                msg = _check_step(res, ev, I, order, spec, tuple(want),
                                  size(d))
                if msg and bad is None:
                    bad = (d, var, val, msg)
    r.inst(step=rstep.short(), recursive_call=rwrap.short(), paths=len(res),
           cases=nm)
    if bad:
        r.fail(Finding(
            PROP, 'R-BDD-1', rstep.where(), rstep.short(),
            'restrict-step:' + bad[3].split(':')[0],
            'one step of restrict(%s=%s) on %s: %s' % (
                bad[1], bad[2], _show(bad[0]), bad[3]),
            expected='cofactor'))
    else:
        r.ok()
    # --- negation ----------------------------------------------------------
    for ci in (nt, tt):
        f = prog.method(ci, '__invert__')
        # the recursion may live in a module-level helper both classes
        # delegate to: its self-calls are the induction hypothesis as well
        rec_names = {'__invert__'}
        bm = f.module
        for n in ast.walk(f.node):
            if isinstance(n, ast.Call) and isinstance(n.func, ast.Name) and \
                    n.func.id in bm.funcs:
                g = bm.funcs[n.func.id]
                if any(isinstance(m, ast.Call) and
                       isinstance(m.func, ast.Name) and m.func.id == g.name
                       for m in ast.walk(g.node)):
                    rec_names.add(g.name)
        I = Interp(prog, _StepHooks(prog, f, set()), rule='R-BDD-1')
        path = I.new_path()
        S = Sym('self', ('inst', ci))
        res = I.call_function(FRef(f), [S, Const(None)], [], path, f.node)
        nm = 0
        bad = None
        for d in dds:
            if (d[0] == 'N') != (ci is nt):
                continue
            nm += 1
            ev = BEval({S: d}, classes, rec_names)
            want = tuple(not x for x in truth(d, order, None))
            msg = _check_step(res, ev, I, order,
                              lambda n, e, o: not _val(n[2], e, o, None),
                              want, size(d))
            if msg and bad is None:
                bad = (d, msg)
        r.inst(step=f.short(), cases=nm, paths=len(res))
        if bad:
            r.fail(Finding(
                PROP, 'R-BDD-1', f.where(), f.short(),
                'invert-step:' + bad[1].split(':')[0],
                'negation of %s: %s' % (_show(bad[0]), bad[1]),
                expected='pointwise negation'))
        else:
            r.ok()
    return r, (oapply, wrapper, step, rwrap, rstep)


def _show(n):
    if n[0] == 'T':
        return '1' if n[1] else '0'
    if n[0] == 'N':
        return '(%s ? %s : %s)' % (n[1], _show(n[3]), _show(n[2]))
    return repr(n)


def _check_step(res, ev, I, order, rec_spec, want, in_size):
    msg = _check_step1(res, ev, I, order, rec_spec, want, in_size)
    if msg is None and ev.identity_used:
        # the step compared variable names with `is`: equal names that are
        # different objects (built at run time) must behave the same
        ev.str_identity = False
        msg = _check_step1(res, ev, I, order, rec_spec, want, in_size)
        if msg:
            msg = 'identity: variable names are compared with `is`; for ' \
                  'an equal name that is another object: ' + msg
    return msg


def _check_step1(res, ev, I, order, rec_spec, want, in_size):
    hits = pick_path(res, ev, I)
    if hits and hits[0][0] == 'attr-error':
        return 'attribute-error: the step reads %s (AttributeError)' % \
            hits[0][1]
    if len(hits) != 1:
        return 'dispatch: %d branches of the step apply' % len(hits)
    p, v = hits[0]
    if isinstance(v, Raise):
        c = I.exc_class(v.exc)
        return 'raises: the step raises %s on well-formed operands' % (
            c.name if c else v.exc)
    if isinstance(v, Obj):
        return 'value: the step returns a container'
    # cache reads: `r_cache[...]` after a store on the same path
    try:
        node = ev.ev(_resolve_cache(v, p))
    except EvalError as e:
        raise Inconclusive('R-BDD-1', 'step result not evaluable: %s' % e,
                           '')
    except AttributeError as e:
        return 'attribute-error: the step reads %s (AttributeError)' % e
    except KeyError as e:
        return 'raises: variable %s is not in the ordering' % e
    if not (isinstance(node, tuple) and node and node[0] in ('T', 'N',
                                                             'REC')):
        return 'value: the step returns %r' % (node,)
    try:
        got = truth(node, order, rec_spec)
    except EvalError as e:
        return 'value: %s' % e
    if got != want:
        return 'function: the step denotes %s, expected %s' % (
            ''.join('1' if x else '0' for x in got),
            ''.join('1' if x else '0' for x in want))
    # ordered: the variable tested precedes every variable below it
    if node[0] == 'N':
        below = vars_of(node[2]) | vars_of(node[3])
        for w in below:
            if w in order and node[1] in order and \
                    order.index(node[1]) >= order.index(w):
                return 'order: node on %r has %r below it' % (node[1], w)
        # smaller recursive operands
        for ch in (node[2], node[3]):
            if ch[0] == 'REC':
                s = sum(size(x) for x in ch[2:] if isinstance(x, tuple) and
                        x and x[0] in ('T', 'N'))
                if s >= in_size:
                    return 'termination: recursive operands are not ' \
                        'smaller'
    return None


def _resolve_cache(v, p):
    """`r_cache[k]` read back after `r_cache[k] = x` on the same path"""
    if isinstance(v, App) and v.op == 'item':
        for e in reversed(p.log):
            if e.kind == 'setitem' and e.target == v.args[0] and \
                    e.args[0] == v.args[1]:
                return e.args[1]
    return v


def rule_bdd2(prog, found):
    r = RuleResult('R-BDD-2', 'result caches are keyed by the operands they '
                   'belong to')
    oapply, wrapper, step, rwrap, rstep = found
    for (w, st, nkey) in ((wrapper, step, 2), (rwrap, rstep, 1)):
        I = Interp(prog, _StepHooks(prog, w, {st}), rule='R-BDD-2')
        path = I.new_path()
        args = [Sym(a.arg) for a in w.node.args.args]
        res = I.call_function(FRef(w), args, [], path, w.node)
        ok = True
        why = ''
        nret = 0
        store_keys, hit_keys = set(), set()
        for (p, v) in res:
            if isinstance(v, Raise):
                continue
            nret += 1
            stores = [e for e in p.log if e.kind == 'setitem']
            calls = [e for e in p.log if e.kind == 'call' and
                     isinstance(e.target, FRef) and e.target.fi is st]
            val = _resolve_cache(v, p)
            if calls:
                # miss: the stored / returned value is step(args in order)
                c = calls[0]
                if list(c.args[0]) != args:
                    ok = False
                    why = 'the step is called with %r' % (c.args[0],)
                if not (isinstance(val, App) and val.op == 'call' and
                        val.args[0].fi is st):
                    ok = False
                    why = 'returns %r on a miss' % (val,)
            keys_r = _keys(v)
            for e in stores:
                if e.args[1] == Const(None):
                    continue
                keys_w = _keys(App('item', e.target, e.args[0]))
                if calls and isinstance(e.args[1], App) and \
                        e.args[1].op == 'call':
                    store_keys.add(keys_w)
                    if keys_r and keys_w != keys_r:
                        # the result is read back from the table
                        ok = False
                        why = 'stores under %r but returns %r' % (keys_w,
                                                                  keys_r)
                    elif not keys_r and v != e.args[1]:
                        ok = False
                        why = 'stores %r but returns %r' % (e.args[1], v)
            if not calls and keys_r:
                # hit: read with the keys a miss stores under
                hit_keys.add(keys_r)
            if not calls and not keys_r and nkey == 2:
                # neither a hit nor a miss: a result that is not computed
                # by the step cannot be right for every operator
                opsym = args[0]
                looked = any(x == opsym for (cc, pol) in p.pc
                             for x in walk(cc)) or any(
                    e.kind == 'call' and any(x == opsym for a in e.args
                                             for x in walk(a))
                    for e in p.log)
                if looked:
                    raise Inconclusive(
                        'R-BDD-2', '%s returns %s without the step on a '
                        'path that inspects the operator' % (
                            w.short(), repr(v)[:60]), w.where())
                ok = False
                why = 'returns %s under %s without computing the step: ' \
                    'the same answer for every operator (f op f is f for ' \
                    'and / or, false for xor)' % (
                        repr(v)[:60], [('' if pol else 'not ') +
                                       repr(cc)[:60] for (cc, pol) in
                                       p.pc[-2:]])
        if ok and store_keys and hit_keys and store_keys != hit_keys:
            ok = False
            why = 'a miss stores under %r but a hit reads %r' % (
                sorted(map(repr, store_keys)), sorted(map(repr, hit_keys)))
        r.inst(wrapper=w.short(), step=st.short(), consistent=ok,
               returning_paths=nret,
               stored_under=sorted(map(repr, store_keys)),
               hits_read=sorted(map(repr, hit_keys)))
        if ok and nret:
            r.ok()
        else:
            r.fail(Finding(
                PROP, 'R-BDD-2', w.where(), w.short(), 'cache:' + why,
                'the memo of %s is inconsistent: %s (a result computed for '
                'other operands is returned)' % (w.short(), why)))
    return r


def _keys(v):
    ks = []
    while isinstance(v, App) and v.op == 'item':
        ks.append(v.args[1])
        v = v.args[0]
    return tuple(reversed(ks))


class _Unknown(Exception):
    pass


def _terminal_value_fields(prog):
    from ..fields import bdd_node_fields
    tc = prog.cls('BDD.BDD.BDDTerminalNode')
    return tc, {bdd_node_fields(prog)[3]}


def _ev_bool(t, env, OP, table):
    if t in env:
        return env[t]
    if isinstance(t, Const):
        return t.v
    if isinstance(t, App):
        if t.op == 'call' and t.args and t.args[0] == OP:
            a = t.args[1] if len(t.args) > 1 else None
            kw = t.args[2] if len(t.args) > 2 else None
            if not isinstance(a, Tup) or len(a.items) != 2 or \
                    (kw is not None and getattr(kw, 'items', ())):
                raise _Unknown('call of the operator with %r' % (t,))
            x, y = [_ev_bool(i, env, OP, table) for i in a.items]
            if not (isinstance(x, bool) and isinstance(y, bool)):
                raise _Unknown('operator applied to non-Boolean %r' % (t,))
            return table[(x, y)]
        if t.op == 'cmp' and len(t.args) == 3 and \
                isinstance(t.args[0], Const):
            k = t.args[0].v
            l = _ev_bool(t.args[1], env, OP, table)
            r = _ev_bool(t.args[2], env, OP, table)
            if not (isinstance(l, bool) and isinstance(r, bool)):
                raise _Unknown('comparison of non-Booleans %r' % (t,))
            if k in ('==', 'is'):
                return l == r
            if k in ('!=', 'is not'):
                return l != r
        if t.op == 'not' and len(t.args) == 1:
            return not _ev_bool(t.args[0], env, OP, table)
    raise _Unknown('term %s' % repr(t)[:80])


def _const_shortcut(prog, p, v, me, B, OP, oc):
    """p: a returning path of OBDD.apply that does not reach the recursion
    and consults the operator.  Returns ([(table, c, side, got, expected)],
    number of (table, constant) cases that satisfy the path condition)."""
    tc, vfields = _terminal_value_fields(prog)
    if len(vfields) != 1:
        raise _Unknown('terminal node with fields %s' % sorted(vfields))
    vf = list(vfields)[0]
    known = []
    rest = []
    for (c, pol) in p.pc:
        if isinstance(c, App) and c.op == 'isinstance' and \
                isinstance(c.args[1], CRef) and c.args[1].ci is tc and pol \
                and isinstance(c.args[0], App) and c.args[0].op == 'attr' \
                and c.args[0].args[0] in (me, B):
            known.append(c.args[0].args[0])
        elif any(x == OP for x in walk(c)):
            rest.append((c, pol))
        elif isinstance(c, App) and c.op == 'isinstance' and \
                c.args[0] in (me, B):
            pass
        elif isinstance(c, App) and c.op == 'cmp' and set(c.args[1:]) == {
                App('attr', me, Const('ordering')),
                App('attr', B, Const('ordering'))}:
            pass
        elif isinstance(c, App) and c.op == 'isinstance' and not pol and \
                isinstance(c.args[1], CRef) and c.args[1].ci is tc:
            # the other operand is known not to be a constant: no
            # restriction on the function it denotes beyond that
            pass
        else:
            raise _Unknown('path condition %s' % repr(c)[:80])
    if len(known) != 1:
        raise _Unknown('%d constant operands on the path' % len(known))
    X = known[0]
    other = B if X == me else me
    side = 'left' if X == me else 'right'
    cval = App('attr', App('attr', X, c_root(p, X)), Const(vf))
    bad = []
    ncases = 0
    for bits in itertools.product((False, True), repeat=4):
        table = dict(zip([(False, False), (False, True), (True, False),
                          (True, True)], bits))
        for c in (False, True):
            env = {cval: c}
            if not all(_ev_bool(cc, env, OP, table) == pol
                       for (cc, pol) in rest):
                continue
            ncases += 1
            g = tuple(table[(c, y)] if X == me else table[(y, c)]
                      for y in (False, True))
            if v == other:
                got = 'the other operand'
                right = g == (False, True)
            elif v == X:
                got = 'the constant %s' % c
                right = g == (c, c)
            elif isinstance(v, New) and v.ci is oc and v.args and \
                    isinstance(v.args[0], New) and len(v.args[0].args) == 1 \
                    and v.args[0].ci.short().startswith('BDD.BDD.BDD'):
                k = _ev_bool(v.args[0].args[0], env, OP, table)
                if not isinstance(k, bool):
                    raise _Unknown('constant %r' % (k,))
                got = 'the constant %s' % k
                right = g == (k, k)
            else:
                raise _Unknown('returned value %s' % repr(v)[:60])
            if not right:
                exp = {(False, False): 'false', (True, True): 'true',
                       (False, True): 'y', (True, False): 'not y'}[g]
                bad.append((''.join('01'[b] for b in bits), c, side, got,
                            exp))
    return bad, ncases


def c_root(p, X):
    for (c, pol) in p.pc:
        if isinstance(c, App) and c.op == 'isinstance' and \
                isinstance(c.args[0], App) and c.args[0].op == 'attr' and \
                c.args[0].args[0] == X:
            return c.args[0].args[1]
    raise _Unknown('no root attribute')


def rule_bdd34(prog, found):
    r3 = RuleResult('R-BDD-3', 'different orderings / foreign variable => '
                    'RuntimeError dominates the computation')
    r4 = RuleResult('R-BDD-4', '&, |, ^ hand the matching Boolean operator '
                    'to apply')
    oapply, wrapper, step, rwrap, rstep = found
    oc = prog.cls('BDD.OBDD.OBDD')

    class H(Hooks):
        def inline(self, I, fi, args):
            return fi is oapply and not I.stack

        def construct(self, I, ci, args, kw, path, node):
            if isinstance(ci, ClassInfo):
                return [(path, New(ci, args, kw))]
    I = Interp(prog, H(), rule='R-BDD-3')
    path = I.new_path()
    me, B, OP = Sym('self', ('inst', oc)), Sym('B'), Sym('operator')
    res = I.call_function(FRef(oapply), [me, OP, B], [], path, oapply.node)
    ncore = 0
    for (p, v) in res:
        core = [e for e in p.log if e.kind == 'call' and
                isinstance(e.target, FRef) and e.target.fi is wrapper]
        if isinstance(v, Raise):
            c = I.exc_class(v.exc)
            r3.inst(path='raise', exception=c.name if c else '?',
                    condition=[('' if pol else 'not ') + repr(cc)[:80]
                               for (cc, pol) in p.pc])
            continue
        if not core:
            # a result that is not computed by the recursion: right for
            # every operator only if the path has looked at the operator
            looked = any(x == OP for (cc, pol) in p.pc for x in walk(cc)) \
                or any(e.kind == 'call' and any(x == OP for a in e.args
                                                for x in walk(a))
                       for e in p.log)
            r3.inst(path='returns %s without the recursion' % repr(v)[:60],
                    looks_at_operator=looked,
                    condition=[('' if pol else 'not ') + repr(cc)[:80]
                               for (cc, pol) in p.pc])
            if looked:
                # a constant-operand shortcut that consults the operator:
                # decided by enumerating the 16 binary Boolean operators
                # and both values of the constant operand
                try:
                    bad, ncases = _const_shortcut(prog, p, v, me, B, OP, oc)
                except _Unknown as e:
                    raise Inconclusive(
                        'R-BDD-3', 'OBDD.apply returns %s on a path that '
                        'inspects the operator; not decided (%s)' % (
                            repr(v)[:60], e), oapply.where())
                r3.inst(path='constant-operand shortcut',
                        operator_tables_x_constants_on_this_path=ncases,
                        wrong=len(bad))
                if bad:
                    tbl, c, side, got, exp = bad[0]
                    r3.fail(Finding(
                        PROP, 'R-BDD-3', oapply.where(), oapply.short(),
                        'const-shortcut:%s' % got,
                        'OBDD.apply, %s operand the constant %s and operator '
                        'with truth table %s: the shortcut returns %s but '
                        'the function of the other operand y is %s' % (
                            side, c, tbl, got, exp)), witness=(tbl, c))
                else:
                    r3.ok()
                continue
            r3.fail(Finding(
                PROP, 'R-BDD-3', oapply.where(), oapply.short(),
                'shortcut:%s' % ','.join(
                    ('' if pol else 'not ') + repr(cc)[:60]
                    for (cc, pol) in p.pc[-1:]),
                'OBDD.apply returns %s under %s without computing '
                'operator(self, B): the same answer for every Boolean '
                'operator cannot be right (and/or are idempotent, xor is '
                'not; an operator need not be symmetric)' % (
                    repr(v)[:60], [('' if pol else 'not ') + repr(cc)[:80]
                                   for (cc, pol) in p.pc])), witness=v)
            continue
        ncore += 1
        neq = App('cmp', Const('!='), App('attr', me, Const('ordering')),
                  App('attr', B, Const('ordering')))
        eq = App('cmp', Const('=='), App('attr', me, Const('ordering')),
                 App('attr', B, Const('ordering')))
        guard = (neq, False) in p.pc or (eq, True) in p.pc
        args = core[0].args[0]
        ok_args = len(args) >= 4 and args[0] == OP and \
            args[1] == App('attr', me, Const('root')) and \
            args[2] == App('attr', B, Const('root')) and \
            args[3] == App('attr', me, Const('ordering'))
        r3.inst(path='compute', guarded_by_equal_orderings=guard,
                arguments=[repr(a)[:40] for a in args])
        if guard:
            r3.ok()
        else:
            r3.fail(Finding(
                PROP, 'R-BDD-3', oapply.where(), oapply.short(),
                'ordering-guard', 'OBDD.apply combines two diagrams without '
                'having checked that their orderings are equal'))
        if ok_args:
            r3.ok()
        else:
            r3.fail(Finding(
                PROP, 'R-BDD-3', oapply.where(), oapply.short(),
                'apply-args:%s' % [repr(a) for a in args],
                'OBDD.apply calls %s with %s instead of (operator, '
                'self.root, B.root, self.ordering, cache)' % (
                    wrapper.short(), [repr(a) for a in args])))
    # the mismatch path raises RuntimeError
    mism = [(p, v) for (p, v) in res if isinstance(v, Raise) and any(
        isinstance(c, App) and c.op == 'cmp' and 'ordering' in repr(c) and
        ((c.args[0].v == '!=' and pol) or (c.args[0].v == '==' and not pol))
        for (c, pol) in p.pc)]
    okm = mism and all((I.exc_class(v.exc) or ExtClass('x')).name ==
                       'RuntimeError' for (p, v) in mism)
    if okm:
        r3.ok()
    else:
        r3.fail(Finding(PROP, 'R-BDD-3', oapply.where(), oapply.short(),
                        'mismatch-exception', 'different orderings do not '
                        'raise RuntimeError'))
    if ncore == 0:
        raise Inconclusive('R-BDD-3', 'OBDD.apply never reaches %s' %
                           wrapper.short(), oapply.where())
    # foreign variable: respect_ordering of a non-terminal node
    nt = prog.cls('BDD.BDD.BDDNonTerminalNode')
    f = prog.method(nt, 'respect_ordering')

    class H2(Hooks):
        def inline(self, I, fi, args):
            return fi is f and not I.stack
    I = Interp(prog, H2(), rule='R-BDD-3')
    path = I.new_path()
    S, O = Sym('self', ('inst', nt)), Sym('O')
    res = I.call_function(FRef(f), [S, O, Const(None)], [], path, f.node)
    for (p, v) in res:
        member = [pol for (c, pol) in p.pc if isinstance(c, App) and
                  c.op == 'in' and c.args[0] == App('attr', S, Const('var'))]
        if isinstance(v, Raise):
            c = I.exc_class(v.exc)
            if member and not member[0]:
                r3.inst(path='variable not in ordering',
                        exception=c.name if c else '?')
                if c is not None and c.name == 'RuntimeError':
                    r3.ok()
                else:
                    r3.fail(Finding(
                        PROP, 'R-BDD-3', f.where(), f.short(),
                        'foreign-variable-exception', 'a variable outside '
                        'the ordering raises %s, not RuntimeError' % (
                            c.name if c else v.exc)), witness=v)
            continue
        r3.inst(path='returns %r' % (v,), checked_membership=bool(member))
        if member and member[0]:
            r3.ok()
        else:
            r3.fail(Finding(
                PROP, 'R-BDD-3', f.where(), f.short(), 'foreign-variable',
                'respect_ordering returns without having checked that the '
                'node variable is in the ordering'))
    # operators
    want = {'__and__': [(a and b) for a in (0, 1) for b in (0, 1)],
            '__or__': [(a or b) for a in (0, 1) for b in (0, 1)],
            '__xor__': [(a ^ b) for a in (0, 1) for b in (0, 1)]}
    for m, tt_ in sorted(want.items()):
        f = prog.method(oc, m)

        class H3(Hooks):
            def inline(self, I, fi, args):
                return fi is f
        I = Interp(prog, H3(), rule='R-BDD-4')
        path = I.new_path()
        res = I.call_function(FRef(f), [me, B], [], path, f.node)
        lam = None
        for (p, v) in res:
            for e in p.log:
                if e.kind == 'call' and isinstance(e.target, FRef) and \
                        e.target.fi is oapply and len(e.args[0]) >= 3:
                    lam = (e.args[0][1], e.args[0][2], p)
        if lam is None:
            raise Inconclusive('R-BDD-4', '%s does not call apply' % m,
                               f.where())
        fn, other, p = lam
        got = []
        I2 = Interp(prog, Hooks(), rule='R-BDD-4')
        for a in (0, 1):
            for b in (0, 1):
                rr = I2.call_value(fn, [Const(bool(a)), Const(bool(b))], [],
                                   p.fork(), f.node)
                vv = rr[0][1]
                got.append(bool(vv.v) if isinstance(vv, Const) else None)
        okv = got == [bool(x) for x in tt_] and other == B
        r4.inst(method=f.short(), truth_table=got)
        if okv:
            r4.ok()
        else:
            r4.fail(Finding(
                PROP, 'R-BDD-4', f.where(), f.short(),
                'operator:%s:%s' % (m, got),
                'OBDD.%s applies an operator with truth table %s (expected '
                '%s) to %r' % (m, got, [bool(x) for x in tt_], other)))
    return r3, r4


def rule_bdd5(prog):
    """list orderings: equality is equality of the sequences, in_order is
    the index order, membership is membership -- on concrete small lists
    (the constructor loop is unrolled by the interpreter)"""
    r = RuleResult('R-BDD-5', 'ListOrdering: == iff same sequence, '
                   'in_order == index order, `in` == membership')
    oc = prog.cls('BDD.ordering.Ordering')
    lo = prog.cls('BDD.ordering.ListOrdering')
    lists = [[], ['a'], ['a', 'b'], ['b', 'a'], ['a', 'b', 'c'],
             ['c', 'a', 'b'], ['a', 'c'], ['a', 'b', 'd']]

    def build(I, path, lst):
        coll = I._mk_coll('list', [Const(x) for x in lst], path, None)
        res = I.construct(oc, [coll], [], path, None)
        res = [(p, v) for (p, v) in res if not isinstance(v, Raise)]
        if len(res) != 1:
            raise Inconclusive('R-BDD-5', 'Ordering(%r) has %d outcomes' % (
                lst, len(res)), '')
        return res[0]
    bad = None
    n = 0

    def outcome(res, what):
        vs = set()
        for (p, v) in res:
            if not isinstance(v, Const):
                # not folded to a constant: outside the interpreted
                # fragment, no verdict
                raise Inconclusive('R-BDD-5', '%s does not fold to a '
                                   'constant: %r' % (what, v), lo.short())
            vs.add(v.v)
        return vs
    for l1 in lists:
        for l2 in lists:
            n += 1
            I = Interp(prog, Hooks(), rule='R-BDD-5')
            path = I.new_path()
            path, o1 = build(I, path, l1)
            path, o2 = build(I, path, l2)
            res = I.compare('==', o1, o2, path, None)
            vals = outcome(res, '%r == %r' % (l1, l2))
            if vals != {l1 == l2} and bad is None:
                bad = ('==', l1, l2, sorted(map(str, vals)), l1 == l2)
            res = I.compare('!=', o1, o2, path, None)
            vals = outcome(res, '%r != %r' % (l1, l2))
            if vals != {l1 != l2} and bad is None:
                bad = ('!=', l1, l2, sorted(map(str, vals)), l1 != l2)
    for l1 in lists:
        I = Interp(prog, Hooks(), rule='R-BDD-5')
        path = I.new_path()
        path, o1 = build(I, path, l1)
        for x in ['a', 'b', 'c', 'z']:
            n += 1
            res = I.contains(o1, Const(x), path, None)
            vals = outcome(res, '%r in %r' % (x, l1))
            if vals != {x in l1} and bad is None:
                bad = ('in', x, l1, sorted(map(str, vals)), x in l1)
            for y in l1:
                if x not in l1:
                    continue
                n += 1
                f = prog.method(lo, 'in_order')
                rr = I.call_function(FRef(f), [o1, Const(x), Const(y)], [],
                                     path.fork(), f.node)
                vals = outcome(rr, 'in_order(%r, %r) of %r' % (x, y, l1))
                want = l1.index(x) < l1.index(y)
                if vals != {want} and bad is None:
                    bad = ('in_order', (x, y), l1, sorted(map(str, vals)),
                           want)
    r.inst(cls=lo.short(), cases=n)
    if bad:
        f = prog.method(lo, '__eq__')
        r.fail(Finding(
            PROP, 'R-BDD-5', f.where(), lo.short(),
            'ordering-%s' % bad[0],
            'ListOrdering: %s of %r and %r evaluates to %s, expected %s '
            '(two orderings over the same variables in a different sequence '
            'would be combined without RuntimeError)' % bad,
            expected=bad[4], found=bad[3]))
    else:
        r.ok()
    return r


# ---------------------------------------------------------------------------
# R-BDD-6  memo tables live for one top-level operation
# ---------------------------------------------------------------------------

def _is_fresh_dict(n):
    return (isinstance(n, ast.Dict) and not n.keys) or (
        isinstance(n, ast.Call) and isinstance(n.func, ast.Name) and
        n.func.id == 'dict' and not n.args and not n.keywords)


def _module_functions(prog, mn):
    mod = prog.module(mn)
    fs = list(mod.funcs.values())
    for ci in mod.classes.values():
        for n, node in ci.attrs.items():
            if isinstance(node, ast.FunctionDef):
                fs.append(prog.method(ci, n, own=True))
    return fs


def memo_functions(prog):
    """(function, parameter index, parameter name) of every function of the
    BDD package with a parameter that is used as a memo table: written by
    subscript and read by subscript / membership"""
    out = []
    for mn in ('BDD.BDD', 'BDD.OBDD'):
        for f in _module_functions(prog, mn):
            names = [a.arg for a in f.node.args.args]
            for i, pn in enumerate(names):
                w = rd = False
                for n in ast.walk(f.node):
                    if isinstance(n, ast.Subscript):
                        b = n
                        while isinstance(b, ast.Subscript):
                            b = b.value
                        if isinstance(b, ast.Name) and b.id == pn:
                            if isinstance(n.ctx, ast.Store):
                                w = True
                            else:
                                rd = True
                    if isinstance(n, ast.Compare) and any(
                            isinstance(o, (ast.In, ast.NotIn))
                            for o in n.ops):
                        for c in n.comparators:
                            b = c
                            while isinstance(b, ast.Subscript):
                                b = b.value
                            if isinstance(b, ast.Name) and b.id == pn:
                                rd = True
                if w and rd:
                    out.append((f, i, pn))
    return out


def rule_bdd6(prog):
    r = RuleResult('R-BDD-6', 'memo tables of apply / restrict / negation '
                   'are allocated per top-level operation (their keys do not '
                   'include the operator, the ordering or the lifetime of '
                   'the nodes)')
    memos = memo_functions(prog)
    floor('R-BDD-6', 'memo functions', len(memos), 3)
    by_name = {}
    for (f, i, pn) in memos:
        by_name.setdefault(f.name, []).append((f, i, pn))
    # functions that merely pass their own table parameter down
    carriers = {}
    for mn in ('BDD.BDD', 'BDD.OBDD'):
        for f in _module_functions(prog, mn):
            carriers[f.qn] = f
    allf = list(carriers.values())

    def classify(f, expr):
        """where does the table expression come from, inside function f"""
        params = [a.arg for a in f.node.args.args]
        if expr is None:
            return 'default'
        if _is_fresh_dict(expr):
            return 'fresh'
        if isinstance(expr, ast.Name):
            assigns = []
            for n in ast.walk(f.node):
                if isinstance(n, ast.Assign):
                    for t in n.targets:
                        if isinstance(t, ast.Name) and t.id == expr.id:
                            assigns.append(n.value)
                elif isinstance(n, (ast.AugAssign, ast.AnnAssign)) and \
                        isinstance(n.target, ast.Name) and \
                        n.target.id == expr.id:
                    assigns.append(n.value)
            kinds = set('fresh' if _is_fresh_dict(a) else
                        'shared:' + ast.unparse(a)[:60] for a in assigns)
            if expr.id in params:
                kinds.add('param')
            if not kinds:
                return 'shared:' + expr.id
            bad = sorted(k for k in kinds if k.startswith('shared'))
            if bad:
                return bad[0]
            return 'param' if 'param' in kinds else 'fresh'
        return 'shared:' + ast.unparse(expr)[:60]

    n = 0
    for f in allf:
        for c in ast.walk(f.node):
            if not isinstance(c, ast.Call):
                continue
            targets = []
            if isinstance(c.func, ast.Name):
                # resolved through the caller's module namespace (import
                # aliases such as `from .BDD import apply as BDDapply`)
                b = prog.namespace(f.module).get(c.func.id)
                for (m, i, pn) in memos:
                    if m.owner is None and getattr(b, 'qn', None) == m.qn:
                        targets.append((m, i, pn, i))
            elif isinstance(c.func, ast.Attribute):
                # x.m(...): by method name (class-hierarchy analysis); the
                # receiver takes the place of `self`
                for (m, i, pn) in by_name.get(c.func.attr, []):
                    if m.owner is not None:
                        targets.append((m, i, pn, i - 1))
            for (m, i, pn, idx) in targets:
                arg = c.args[idx] if 0 <= idx < len(c.args) else None
                for kw in c.keywords:
                    if kw.arg == pn:
                        arg = kw.value
                kind = classify(f, arg)
                n += 1
                r.inst(call='%s -> %s' % (f.short(), m.short()),
                       table=ast.unparse(arg) if arg is not None else
                       '(default)', provenance=kind)
                if kind.startswith('shared'):
                    r.fail(Finding(
                        PROP, 'R-BDD-6',
                        '%s:%d' % (f.module.relpath, c.lineno), f.short(),
                        'shared-memo:%s:%s' % (m.name, kind),
                        '%s hands %s the memo table `%s`, which outlives the '
                        'operation: results are keyed by the operand nodes '
                        'only, so an entry computed for another operator / '
                        'ordering, or for a node whose identity has been '
                        'reused after garbage collection, is returned' % (
                            f.short(), m.short(), kind[7:])))
                else:
                    r.ok()
    # a memo function must not rebind its table to something shared, and a
    # default of None must be replaced by a fresh dict
    for (m, i, pn) in memos:
        kind = classify(m, ast.Name(id=pn, ctx=ast.Load()))
        d = m.node.args.defaults
        npos = len(m.node.args.args)
        dflt = d[i - (npos - len(d))] if i >= npos - len(d) else None
        r.inst(memo=m.short(), parameter=pn, rebinding=kind,
               default=ast.unparse(dflt) if dflt is not None else None)
        n += 1
        if kind.startswith('shared'):
            r.fail(Finding(
                PROP, 'R-BDD-6', m.where(), m.short(),
                'shared-memo:%s:%s' % (m.name, kind),
                '%s replaces its memo table by `%s`, which outlives the '
                'operation: results are keyed by the operand nodes only, so '
                'an entry computed in another operation (other operator / '
                'ordering, or a node identity reused after garbage '
                'collection) is returned' % (m.short(), kind[7:])))
        elif dflt is not None and not (isinstance(dflt, ast.Constant) and
                                       dflt.value is None):
            r.fail(Finding(
                PROP, 'R-BDD-6', m.where(), m.short(),
                'mutable-default:%s' % m.name,
                '%s has the mutable default `%s` for its memo table: it is '
                'shared by all calls' % (m.short(), ast.unparse(dflt))))
        else:
            r.ok()
    floor('R-BDD-6', 'memo call sites', n, 8)
    return r



def _documented_node_fields(prog, rule):
    """the rules below address the fields of a node by the names the
    library gives them today; with other names nothing can be said"""
    from ..fields import bdd_node_fields
    got = bdd_node_fields(prog)
    if tuple(got) != ('var', 'low', 'high', 'value'):
        raise Inconclusive(rule, 'the fields of a BDD node are called %r' % (
            got,), 'pyModelChecking/BDD/BDD.py')


# -- R-BDD-7: no node hands out a container it keeps ----------------------------

_CONTAINER_CTORS = ('set', 'list', 'dict', 'defaultdict', 'OrderedDict',
                    'WeakSet', 'WeakValueDictionary', 'WeakKeyDictionary',
                    'deque', 'bytearray', 'Counter')


def _mutable_container_expr(e):
    if isinstance(e, (ast.List, ast.Set, ast.Dict, ast.ListComp, ast.SetComp,
                      ast.DictComp)):
        return True
    if isinstance(e, ast.Call):
        fn = e.func
        nm = fn.id if isinstance(fn, ast.Name) else (
            fn.attr if isinstance(fn, ast.Attribute) else None)
        return nm in _CONTAINER_CTORS
    return False


def _returned_kept_containers(class_nodes):
    """[(class, method, attribute, return node)]: a method returns self.X
    (or a local that is a plain copy of it) and some assignment in these
    classes stores a mutable container in an attribute X"""
    kept = set()
    for c in class_nodes:
        for n in ast.walk(c):
            if isinstance(n, ast.Assign) and \
                    _mutable_container_expr(n.value):
                for t in n.targets:
                    if isinstance(t, ast.Attribute):
                        kept.add(t.attr)
    out = []
    for c in class_nodes:
        for fn in c.body:
            if not isinstance(fn, ast.FunctionDef) or not fn.args.args:
                continue
            me = fn.args.args[0].arg
            alias = {}
            for n in ast.walk(fn):
                if isinstance(n, ast.Assign) and len(n.targets) == 1 and \
                        isinstance(n.targets[0], ast.Name) and \
                        isinstance(n.value, ast.Attribute) and \
                        isinstance(n.value.value, ast.Name) and \
                        n.value.value.id == me:
                    alias[n.targets[0].id] = n.value.attr
            for n in ast.walk(fn):
                if not isinstance(n, ast.Return) or n.value is None:
                    continue
                v = n.value
                a = None
                if isinstance(v, ast.Attribute) and \
                        isinstance(v.value, ast.Name) and v.value.id == me:
                    a = v.attr
                elif isinstance(v, ast.Name) and v.id in alias:
                    a = alias[v.id]
                if a is not None and a in kept:
                    out.append((c, fn, a, n))
    return kept, out


def rule_bdd7(prog):
    r = RuleResult('R-BDD-7', 'no method of a node class / OBDD returns a '
                   'mutable container that the object keeps in an attribute '
                   '(nodes are shared by all diagrams through hash-consing: '
                   'a caller that edits the answer edits it for everyone)')
    cls = []
    for mn in ('BDD.BDD', 'BDD.OBDD'):
        m = prog.module(mn)
        for c in prog.classes.values():
            if c.module is m:
                cls.append(c)
    cls.sort(key=lambda c: c.qn)
    floor('R-BDD-7', 'classes of the BDD modules', len(cls), 4)
    kept, hits = _returned_kept_containers([c.node for c in cls])
    r.inst(classes=[c.short() for c in cls],
           attributes_holding_containers=sorted(kept))
    pos = ast.parse('class N:\n'
                    '    def reset(self):\n'
                    '        self._v = None\n'
                    '    def vs(self):\n'
                    '        if self._v is None:\n'
                    '            self._v = set(self.walk())\n'
                    '        return self._v\n').body[0]
    neg = ast.parse('class N:\n'
                    '    def reset(self):\n'
                    '        self._p = WeakSet()\n'
                    '        self.var = None\n'
                    '    def vs(self):\n'
                    '        return set(self._p)\n'
                    '    def v(self):\n'
                    '        return self.var\n').body[0]
    if len(_returned_kept_containers([pos])[1]) != 1 or \
            _returned_kept_containers([neg])[1]:
        raise Inconclusive('R-BDD-7', 'matcher self-test failed', '')
    r.notes.append('matcher self-test: positive example reported, negative '
                   'example silent')
    if not hits:
        r.ok()
        return r
    by = {c.node: c for c in cls}
    for (cn, fn, a, n) in hits:
        c = by[cn]
        r.fail(Finding(
            PROP, 'R-BDD-7', '%s:%d' % (c.module.relpath, n.lineno),
            '%s.%s' % (c.short(), fn.name), 'kept-container:%s:%s' % (
                fn.name, a),
            '%s.%s returns self.%s, a mutable container the object keeps: '
            'the object is shared (hash-consed nodes are the same for every '
            'OBDD with that sub-diagram), so a caller that updates the '
            'returned value changes what every later call answers' % (
                c.short(), fn.name, a),
            expected='a fresh container per call',
            found='the stored one'), witness=a)
    return r


def run(prog, tier, seed):
    _documented_node_fields(prog, 'R-BDD-1')
    T = Attempts()
    r6 = T(rule_bdd6, prog)
    r7 = T(rule_bdd7, prog)
    r1, found = T(rule_bdd1, prog, tier, _n=2)
    if found is None:
        found = T(discover_steps, prog)
    if found is not None:
        r2 = T(rule_bdd2, prog, found)
        r3, r4 = T(rule_bdd34, prog, found, _n=2)
    else:
        r2 = r3 = r4 = None
        T.skipped('R-BDD-2..4')
    r5 = T(rule_bdd5, prog)
    expl = ('The recursion steps of apply (discovered from OBDD.apply), '
            'restrict and negation are interpreted abstractly with the '
            'recursive calls kept symbolic; each extracted step -- with the '
            'recursive calls replaced by their specification (induction '
            'hypothesis) -- is then checked on every pair of reduced ordered '
            'diagrams over two variables and the operators and/or/xor: it '
            'denotes the right function, the node it builds tests a '
            'variable earlier than everything below it, and the recursive '
            'operands are strictly smaller (termination). Caches are keyed '
            'consistently; OBDD.apply is guarded by equality of orderings '
            '(RuntimeError otherwise) and passes the roots in order; a '
            'variable outside the ordering raises RuntimeError; &,|,^ pass '
            'the matching operator. Reducedness of results follows from '
            'C16 (all creation goes through the hash-consing constructor). '
            'Not decided: variables() (support), behaviour on diagrams with '
            'more than two/three variables beyond the inductive argument.')
    assumptions = ['induction over the size of the operands; the step is '
                   'checked on all operand pairs over 2 (quick) / a sample '
                   'over 3 (thorough) variables',
                   'node construction is hash-consed (C16)']
    from . import c16
    from ..report import adopt
    dep = adopt(T.results(T(c16.rule_hc7, prog), T(c16.rule_hc8, prog)), PROP,
                'a stale memo entry is a wrong result of the operation')
    from . import c18
    pf = T(c18.parser_functions, prog, _n=2)
    if pf[0] is not None:
        dep += adopt(T.results(T(c18.rule_bp5, prog, pf[1], pf[0])), PROP,
                     'a variable outside the ordering raises RuntimeError '
                     'only through the ordering check of the constructor')
    dep += adopt(T.results(T(c18.rule_bp8, prog)), PROP,
                 'OBDDs over the empty ordering (constants) are built like '
                 'any other')
    return T.results(r1, r2, r3, r4, r5, r6, r7) + dep, expl, assumptions, \
        T.extra()
