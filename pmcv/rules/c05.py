"""C05 -- rewriting to the restricted syntax and LNot preserve meaning.

R-RW-1 alphabet closure of every rewriter (induction over the class table)
R-RW-2 validity of every extracted rewrite rule (normal form, else oracle)
R-RW-3 LNot: odd negation parity, never two leading negations
"""
from ..program import AnalysisError, Inconclusive, ClassInfo
from ..values import Const, Sym, CRef, FRef, App, New, Raise, Tup, walk
from ..interp import Interp, Hooks
from ..templates import extract, generic_instances, show
from ..formulas import LANGS
from .. import oracle
from ..report import Finding, RuleResult, floor, Attempts, adopt

PROP = 'C05'
METHOD = 'get_equivalent_restricted_formula'

RESTRICTED = {
    'CTLS': {'Not', 'Or', 'X', 'U', 'E'},
    'LTL': {'Not', 'Or', 'X', 'U'},
    'CTL': {'Not', 'Or', 'E', 'X', 'U', 'G'},
}


def rule_instances(prog):
    """[(lang, name, ci, kids, lhs, level, state_holes)]"""
    out = []
    for lang in ('CTLS', 'LTL', 'CTL'):
        for (name, ci, kids, lhs) in generic_instances(prog, lang):
            if lang == 'CTL':
                if name in ('X', 'F', 'G', 'U', 'R'):
                    continue      # bare CTL path formulas: see evidence note
                out.append((lang, name, ci, kids, lhs, 'state', True))
            elif name in ('A', 'E'):
                out.append((lang, name, ci, kids, lhs, 'state', False))
            else:
                out.append((lang, name, ci, kids, lhs, 'path', False))
    return out


def closure_errors(t, lang, root=True, parent=None):
    """violations of the restricted alphabet inside template t"""
    errs = []
    k = t[0]
    if k == 'raw':
        errs.append('child c%d is used without being rewritten' % t[1])
        return errs
    if k in ('hole', 'bool', 'atom'):
        return errs
    if k == 'LNot':
        return closure_errors(t[1], lang, False, parent)
    allowed = set(RESTRICTED[lang])
    if lang == 'LTL' and root:
        allowed.add('A')
    if k not in allowed:
        errs.append('operator %s is outside the restricted alphabet of %s'
                    % (k, lang))
    if t[1] != lang:
        errs.append('%s node built in language %s inside a %s rewrite' % (
            k, t[1], lang))
    if lang == 'CTL':
        if k == 'E':
            c = t[2]
            if c[0] not in ('X', 'U', 'G'):
                errs.append('E is followed by %s (restricted CTL allows only '
                            'EX, EU, EG)' % c[0])
        if k in ('X', 'U', 'G') and parent != 'E':
            errs.append('%s occurs without E in a CTL rewrite' % k)
    for x in t[2:]:
        errs.extend(closure_errors(x, lang, False, k))
    return errs


def rules_rw12(prog, tier):
    r1 = RuleResult('R-RW-1', 'restricted-alphabet closure of every '
                    'rewriter (by induction over the class table)')
    r2 = RuleResult('R-RW-2', 'validity of every extracted rewrite rule')
    insts = rule_instances(prog)
    floor('R-RW-1', 'rewrite rule instances', len(insts), 38)
    pending = None
    for (lang, name, ci, kids, lhs, level, state_holes) in insts:
        try:
            f, outs = extract(prog, ci, METHOD, kids, rule='R-RW-1')
        except Inconclusive as e:
            # one instance outside the fragment does not hide the others
            fm = prog.method(ci, METHOD)
            if 'index-error' in str(e):
                r1.fail(Finding(
                    PROP, 'R-RW-1', fm.where(), fm.short(),
                    '%s.%s raises IndexError' % (lang, name),
                    'rewriting the %s formula %s asks for an operand the '
                    'formula does not have (IndexError): the rewriter '
                    'assumes more operands than this instance has' % (
                        lang, show(lhs)),
                    expected='a formula over ' +
                    str(sorted(RESTRICTED[lang]))))
            elif pending is None:
                pending = e
            continue
        terms = [t for (t, p) in outs if t[0] != 'raise']
        raises = [t for (t, p) in outs if t[0] == 'raise']
        desc = dict(lang=lang, rule=name, method=f.short(), lhs=show(lhs),
                    rhs=[show(t) for t in terms] +
                    ['raise %s' % t[1] for t in raises])
        for t in raises:
            r1.fail(Finding(
                PROP, 'R-RW-1', t[3], f.short(),
                '%s.%s raises %s' % (lang, name, t[1]),
                'rewriting the %s formula %s raises %s(%s) instead of '
                'returning a restricted formula' % (lang, show(lhs), t[1],
                                                    t[2]),
                expected='a formula over ' + str(sorted(RESTRICTED[lang])),
                found='raise %s: %s' % (t[1], t[2])))
        if not terms and not raises:
            raise Inconclusive('R-RW-1', 'no outcome for %s.%s' % (lang,
                                                                    name),
                               f.where())
        for t in terms:
            errs = closure_errors(t, lang)
            if errs:
                r1.fail(Finding(
                    PROP, 'R-RW-1', f.where(), f.short(),
                    '%s => %s' % (show(lhs), show(t)),
                    '%s rewrite of %s is %s: %s' % (lang, show(lhs), show(t),
                                                    '; '.join(errs)),
                    expected='only ' + str(sorted(RESTRICTED[lang])) +
                             ' over rewritten children',
                    found=show(t)))
            else:
                r1.ok()
            # validity
            d = oracle.decide(lhs, t, level, tier, state_holes)
            desc.setdefault('validity', []).append(d['verdict'] + (
                ': ' + d.get('how', '') if 'how' in d else ''))
            if d['verdict'] in ('proved', 'bounded'):
                r2.ok()
            elif d['verdict'] == 'counter':
                r2.fail(Finding(
                    PROP, 'R-RW-2', f.where(), f.short(),
                    '%s => %s' % (show(lhs), show(t)),
                    '%s rewrite rule  %s  =>  %s  is not an equivalence' % (
                        lang, show(lhs), show(t)),
                    expected='equivalent formulas', found='countermodel',
                    extra=d))
            else:
                raise Inconclusive('R-RW-2', 'cannot decide %s => %s (%s)' % (
                    show(lhs), show(t), d.get('why')), f.where())
        r1.inst(**desc)
        r2.inst(**desc)
    r1.notes.append('bare CTL temporal operators (X p, F p, .. without a '
                    'quantifier) are not CTL formulas a user can check; '
                    'their inherited rewriters are not armed')
    if pending is not None and not (r1.findings or r2.findings):
        pending.partial = (r1, r2)
        raise pending
    return r1, r2


# ---------------------------------------------------------------------------

class _LNotHooks(Hooks):
    def __init__(self, f):
        self.f = f

    def inline(self, I, fi, args):
        # the recursive call is kept as a recorded call (induction)
        return not (fi is self.f and I.stack and
                    any(s is self.f for s in I.stack))


def _strip_depth(v, root):
    """v == root.subformula(0)...subformula(0)  (k times) -> k, else None"""
    k = 0
    while v != root:
        if isinstance(v, App) and v.op == 'mcall' and \
                v.args[1] == Const('subformula') and \
                v.args[2] == Tup([Const(0)]):
            v = v.args[0]
            k += 1
        else:
            return None
    return k


def _strip(root, k):
    v = root
    for _ in range(k):
        v = App('mcall', v, Const('subformula'), Tup([Const(0)]))
    return v


def _lnot_instances(prog, r, f):
    """LNot interpreted on the concrete towers  not^k(c)  (c a formula that
    is not itself a negation, k = 0..5): the result must be  not c  for even
    k and  c  for odd k.  Loops whose test is decided by the tower are
    executed iteration by iteration."""
    from ..templates import TemplateHooks, make_hole, to_term, show
    notc = prog.cls('language.Not')

    class H(TemplateHooks):
        unroll_while = True
        max_self_recursion = 8

        def call(self, I, fv, args, kw, path, node):
            if isinstance(fv, FRef) and fv.fi is self.lnot:
                return None             # LNot itself is what is analysed
            return TemplateHooks.call(self, I, fv, args, kw, path, node)

        def isinstance(self, I, val, ci, path):
            if isinstance(val, Sym) and val.meta and \
                    val.meta[0] == 'hole' and isinstance(ci, ClassInfo) and \
                    ci.is_subclass_of(notc):
                return False            # the core is not a negation
            return TemplateHooks.isinstance(self, I, val, ci, path)
    n = 0
    for lang, mod in sorted(LANGS.items()):
        al = prog.alphabet(mod)
        if 'Not' not in al:
            continue
        h = make_hole(prog, 0, lang)
        for k in range(0, 6):
            v = h
            for _ in range(k):
                v = New(al['Not'], (v,))
            hooks = H(prog, 'get_equivalent_restricted_formula')
            hooks.check_sorts = False
            I = Interp(prog, hooks, rule='R-RW-3', max_depth=14)
            path = I.new_path()
            res = I.call_function(FRef(f), [v], [], path, f.node)
            want = ('Not', lang, ('raw', 0)) if k % 2 == 0 else ('raw', 0)
            outs = []
            for (p, val) in res:
                if isinstance(val, Raise):
                    if not val.implicit:
                        outs.append(('raise', repr(val.exc)[:60]))
                    continue
                # Not built in the language of a symbolic operand:
                # sys.modules[x.__module__].Not(x)
                if isinstance(val, App) and val.op == 'mcall' and \
                        val.args[1] == Const('Not') and \
                        len(val.args[2].items) == 1 and \
                        isinstance(val.args[0], App) and \
                        val.args[0].op == 'item' and \
                        val.args[0].args[1] == App(
                            'attr', val.args[2].items[0],
                            Const('__module__')):
                    try:
                        outs.append(('Not', lang, to_term(
                            val.args[2].items[0], prog, p)))
                        continue
                    except Inconclusive:
                        pass
                try:
                    outs.append(to_term(val, prog, p))
                except Inconclusive:
                    outs.append(('?', repr(val)[:80]))
            n += 1
            r.inst(lang=lang, input='not^%d(c)' % k,
                   returns=[show(t) if t[0] not in ('?', 'raise') else t[1]
                            for t in outs], expected=show(want))
            if any(t[0] == '?' for t in outs) or not outs:
                raise Inconclusive('R-RW-3', 'LNot(not^%d(c)) in %s gives %r'
                                   % (k, lang, outs), f.where())
            bad = [t for t in outs if t != want]
            if bad:
                r.fail(Finding(
                    PROP, 'R-RW-3', f.where(), f.short(),
                    'tower:%s:%d:%s' % (lang, k, show(bad[0])
                                        if bad[0][0] != 'raise' else 'raise'),
                    'LNot applied to the %s formula not^%d(c) (c not a '
                    'negation) returns %s, expected %s: %s' % (
                        lang, k, show(bad[0]) if bad[0][0] != 'raise'
                        else 'an exception ' + bad[0][1], show(want),
                        'the result is equivalent to the argument, not to '
                        'its negation' if k % 2 == 0 and
                        bad[0] == ('raw', 0) or k % 2 == 1 and
                        bad[0] == ('Not', lang, ('raw', 0)) else
                        'wrong or not in reduced form')))
            else:
                r.ok()
    floor('R-RW-3', 'negation towers', n, 20)


def rule_rw3(prog):
    r = RuleResult('R-RW-3', 'LNot: odd negation parity, no double leading '
                   'negation, every language Not is the Not LNot tests')
    f = prog.func('language.LNot')
    r.transparent = (f,)        # the recursive call is part of the shape
    try:
        _lnot_instances(prog, r, f)
        r0 = None
    except Inconclusive as e:
        r0 = e
    try:
        _rule_rw3_paths(prog, r, f)
    except Inconclusive as e:
        if r.findings:
            return r            # the towers have established a violation
        e.partial = r
        raise
    except AnalysisError:
        if r.findings:
            return r            # (same: an unexpected shape of LNot)
        raise
    if r0 is not None:
        r0.partial = r
        raise r0
    return r


def _rule_rw3_paths(prog, r, f):
    notc = prog.cls('language.Not')
    I = Interp(prog, _LNotHooks(f), rule='R-RW-3')
    path = I.new_path()
    x = Sym('formula')
    res = I.call_function(FRef(f), [x], [], path, f.node)
    if not res:
        raise Inconclusive('R-RW-3', 'no path through LNot', f.where())

    def is_not(v, p):
        for (c, pol) in p.pc:
            if isinstance(c, App) and c.op == 'isinstance' and \
                    c.args[0] == v and isinstance(c.args[1], CRef) and \
                    c.args[1].ci is notc:
                return pol
        return None

    for (p, v) in res:
        if isinstance(v, Raise):
            r.fail(Finding(PROP, 'R-RW-3', I.where(v.node, f.module),
                           f.short(), 'raise', 'LNot raises %r' % (v.exc,)), witness=v)
            continue
        added = 0
        inner = v
        kind = 'strip'
        # Not-constructor of the operand's own language
        if isinstance(v, App) and v.op == 'mcall' and \
                v.args[1] == Const('Not') and len(v.args[2].items) == 1:
            inner = v.args[2].items[0]
            mod = v.args[0]
            okmod = (isinstance(mod, App) and mod.op == 'item' and
                     mod.args[1] == App('attr', inner, Const('__module__')))
            if not okmod:
                r.fail(Finding(PROP, 'R-RW-3', f.where(), f.short(),
                               'not-module', 'the added negation is not '
                               'built in the language of its operand: %r'
                               % (mod,)))
            added = 1
            kind = 'add'
        elif isinstance(v, App) and v.op == 'call' and \
                isinstance(v.args[0], FRef) and v.args[0].fi is f:
            inner = v.args[1].items[0]
            added = 1          # LNot(y) == not y by induction
            kind = 'rec'
        k = _strip_depth(inner, x)
        desc = dict(path_condition=[('' if pol else 'not ') + repr(c)
                                    for (c, pol) in p.pc],
                    returns=repr(v), stripped=k, added=added)
        r.inst(**desc)
        if k is None:
            raise Inconclusive('R-RW-3', 'LNot returns %r' % (v,), f.where())
        # each strip must be justified: the stripped node is a Not
        bad = [j for j in range(k) if is_not(_strip(x, j), p) is not True]
        if bad:
            r.fail(Finding(
                PROP, 'R-RW-3', f.where(), f.short(), 'unjustified-strip',
                'LNot strips the operand of a formula that is not known to '
                'be a negation (returns %r under %s)' % (
                    v, desc['path_condition'])), witness=v)
        else:
            r.ok()
        if (k + added) % 2 != 1:
            r.fail(Finding(
                PROP, 'R-RW-3', f.where(), f.short(),
                'parity:%s:%d+%d' % (kind, k, added),
                'LNot returns a formula equivalent to its argument, not to '
                'its negation: %d negation(s) stripped, %d added (returns '
                '%r under %s)' % (k, added, v, desc['path_condition']),
                expected='odd parity', found='%d' % (k + added)), witness=v)
        else:
            r.ok()
        # no double leading negation
        if kind == 'strip':
            lead = is_not(inner, p)
            if lead is not False:
                r.fail(Finding(
                    PROP, 'R-RW-3', f.where(), f.short(), 'leading:strip',
                    'LNot returns %r without knowing that it is not a '
                    'negation itself: the result may begin with two '
                    'negations' % (v,)), witness=v)
            else:
                r.ok()
        elif kind == 'add':
            lead = is_not(inner, p)
            if lead is not False:
                r.fail(Finding(
                    PROP, 'R-RW-3', f.where(), f.short(), 'leading:add',
                    'LNot negates %r without knowing that it is not a '
                    'negation: the result begins with two negations' % (
                        inner,)))
            else:
                r.ok()
    # lattice: every language's Not is a subclass of the Not LNot tests
    for lang, mod in LANGS.items():
        al = prog.alphabet(mod)
        ok = 'Not' in al and al['Not'].is_subclass_of(notc)
        r.inst(lang=lang, not_class=al['Not'].short() if 'Not' in al
               else None, subclass_of_tested_Not=ok)
        if ok:
            r.ok()
        else:
            r.fail(Finding(PROP, 'R-RW-3', prog.module(mod).relpath + ':1',
                           mod, 'not-lattice:' + lang,
                           '%s.Not is not a subclass of language.Not, which '
                           'LNot tests' % lang))
    floor('R-RW-3', 'paths of LNot', len(res), 3)
    return r


def rule_rw4(prog):
    """the rewriters of the leaves: an atomic proposition is rewritten into
    an atomic proposition with the same name, a Boolean constant into the
    same constant (Bool inherits from AtomicProposition in every logic, so a
    rewriter written for atoms is the one Bool runs)"""
    r = RuleResult('R-RW-4', 'leaf rewriters: an atom gives the same atom, a '
                   'Boolean constant the same constant')
    pending = None
    for lang in ('CTL', 'CTLS', 'LTL'):
        al = prog.alphabet(LANGS[lang])
        cases = [('AtomicProposition', [Sym('apname', ('b', 'str'),
                                            ('apname',))], ('atom', 'p')),
                 ('Bool', [Const(True)], ('bool', True)),
                 ('Bool', [Const(False)], ('bool', False))]
        for (name, kids, want) in cases:
            ci = al.get(name)
            if ci is None:
                continue
            try:
                f, outs = extract(prog, ci, METHOD, kids, rule='R-RW-4')
            except Inconclusive as e:
                if pending is None:
                    pending = e
                continue
            r.inst(lang=lang, leaf='%s(%s)' % (name, kids[0]),
                   rewriter=f.short(), results=[show(t) for (t, p) in outs])
            for (t, p) in outs:
                if t == want:
                    r.ok()
                elif t[0] == 'raise':
                    r.fail(Finding(
                        PROP, 'R-RW-4', f.where(), f.short(),
                        'leaf-raise:%s:%s' % (lang, show(want)),
                        'rewriting the %s leaf %s raises %s' % (
                            lang, show(want), t[1]),
                        expected=show(want), found='raise ' + str(t[1])),
                        witness=Const(str(t[1])))
                elif t[0] in ('atom', 'bool'):
                    r.fail(Finding(
                        PROP, 'R-RW-4', f.where(), f.short(),
                        'leaf:%s:%s->%s' % (lang, show(want), show(t)),
                        'the %s leaf (%s %s) is rewritten into (%s %s)%s' % (
                            lang, want[0], want[1], t[0], t[1],
                            ': an atomic proposition named like the constant, '
                            'which no state is labelled with'
                            if want[0] == 'bool' and t[0] == 'atom' else ''),
                        expected='%s %s' % want, found='%s %s' % t[:2]),
                        witness=Const(show(t)))
                elif pending is None:
                    pending = Inconclusive(
                        'R-RW-4', 'the %s leaf %s is rewritten into %s' % (
                            lang, show(want), show(t)), f.where())
    floor('R-RW-4', 'leaf rewriters', len(r.instances), 6)
    if pending is not None and not r.findings:
        pending.partial = r
        raise pending
    return r


def run(prog, tier, seed):
    T = Attempts()
    r1, r2 = T(rules_rw12, prog, tier, _n=2)
    r3 = T(rule_rw3, prog)
    r4 = T(rule_rw4, prog)
    expl = ('Each rewriter is interpreted abstractly on a generic instance '
            'C(c0,..) whose children are holes; the result is a closed '
            'rewrite template. R-RW-1: templates use only the restricted '
            'alphabet over rewritten children => by induction on height '
            'every output is restricted (complete). R-RW-2: each template is '
            'an equivalence: decided by definitional normal form, else by '
            'evaluating the two *extracted terms* (never repository code) '
            'with the check\'s own semantics on all small models (bounded). '
            'Since CTL* equivalence is a congruence, validity of the closed '
            'rules gives equivalence for all formulas. R-RW-3: path analysis '
            'of LNot (parity of stripped/added negations).')
    assumptions = ['holes of path-level rules range over LTL-definable path '
                   'sets (instantiated by fresh atoms on lassos)',
                   'bounded verdicts hold up to the stated model size',
                   'LNot is used as a summary in R-RW-1/2 and verified '
                   'separately by R-RW-3']
    from . import c11
    dep = adopt(T.results(T(c11.rule_eq2, prog)), PROP,
                'the rewriters of leaves return clone()')
    return T.results(r1, r2, r3, r4) + dep, expl, assumptions, T.extra()
