"""thorough tier: liveness of the rules of one property.

A rule whose expected number of findings is zero passes vacuously if it has
stopped matching anything.  Besides the instance floors, the thorough tier
re-analyses *variants of the current tree*: every seeded change under
/verif/seeded whose meta.json records that this property's check reports it is
applied to a scratch copy of the tree being checked (never to /repo) and the
quick check is run on the copy -- statically, like the main run.  The variant
must be reported (exit 1).  A patch that no longer applies to the current
source is skipped and listed as such.

Outcome per seed: 'reported' | 'skipped: ...' | 'NOT REPORTED (rc=..)'.
"""
import json
import os
import shutil
import subprocess
import sys
import tempfile
from concurrent.futures import ThreadPoolExecutor

VERIF = os.path.dirname(os.path.dirname(os.path.abspath(__file__)))
PY = sys.executable


def seeds_for(prop):
    sd = os.path.join(VERIF, 'seeded')
    out = []
    if not os.path.isdir(sd):
        return out
    for n in sorted(os.listdir(sd)):
        mf = os.path.join(sd, n, 'meta.json')
        pf = os.path.join(sd, n, 'patch.diff')
        if not (os.path.exists(mf) and os.path.exists(pf)):
            continue
        try:
            meta = json.load(open(mf))
        except Exception:
            continue
        if prop in meta.get('detected_by', []) and meta.get('confirmed'):
            out.append((n, pf))
    return out


def _one(prop, repo, name, patch):
    d = tempfile.mkdtemp(prefix='pmcv_live_')
    try:
        shutil.copytree(os.path.join(repo, 'pyModelChecking'),
                        os.path.join(d, 'pyModelChecking'),
                        ignore=shutil.ignore_patterns('__pycache__'))
        r = subprocess.run(['patch', '-p1', '-s', '-f', '-i', patch], cwd=d,
                           capture_output=True, text=True)
        if r.returncode != 0:
            return name, 'skipped: patch does not apply to this tree'
        r = subprocess.run([PY, os.path.join(VERIF, 'check.py'), prop,
                            '--repo', d, '--tier', 'quick', '--no-evidence'],
                           capture_output=True, text=True, cwd=VERIF)
        if r.returncode == 1:
            rules = sorted(set(l.split()[1] for l in r.stdout.splitlines()
                               if l.startswith('FINDING ')))
            return name, 'reported (%s)' % ', '.join(rules)
        return name, 'NOT REPORTED (rc=%d)' % r.returncode
    finally:
        shutil.rmtree(d, ignore_errors=True)


def run(prop, repo, jobs=8):
    seeds = seeds_for(prop)
    res = {}
    with ThreadPoolExecutor(jobs) as ex:
        for name, out in ex.map(lambda s: _one(prop, repo, s[0], s[1]),
                                seeds):
            res[name] = out
    return res
