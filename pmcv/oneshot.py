"""one-shot iterators are consumed once.

A generator expression, the result of a generator function of the package or
of map / filter / zip / iter / reversed / enumerate can be traversed once; a
second traversal finds it empty -- silently.  The rule pairs *sources* (a local
name bound to such an expression, or such an expression written as a call
argument) with *sinks* (a place that traverses the value more than once: two
loops over it, one loop nested in another loop, a function called once per
iteration that traverses its parameter, or a callee whose parameter is
traversed more than once -- summarised per function and closed over the call
graph).

Counting is structural (statements in sequence add up, branches take the
maximum, a loop body that consumes counts as "many").  Everything is capped at
2 = "more than once".
"""
import ast

from .program import ClassInfo, FuncInfo

LAZY = ('map', 'filter', 'zip', 'iter', 'reversed', 'enumerate')
CONSUMERS = ('list', 'set', 'tuple', 'frozenset', 'sorted', 'sum', 'any',
             'all', 'min', 'max', 'dict', 'len') + LAZY
MANY = 2


def _is_gen_function(node):
    todo = list(ast.iter_child_nodes(node))
    while todo:
        n = todo.pop()
        if isinstance(n, (ast.Yield, ast.YieldFrom)):
            return True
        if isinstance(n, (ast.FunctionDef, ast.Lambda, ast.ClassDef)):
            continue
        todo.extend(ast.iter_child_nodes(n))
    return False


class OneShot(object):
    def __init__(self, prog):
        self.prog = prog
        self.funcs = list(prog.all_functions())
        self.by_name = {}
        for f in self.funcs:
            if f.owner is not None:
                self.by_name.setdefault(f.name, []).append(f)
        self.gen_methods = {}
        for name, fs in self.by_name.items():
            self.gen_methods[name] = all(_is_gen_function(f.node)
                                         for f in fs)
        self.summ = {}      # (id(fnode), param index) -> count
        self._fixpoint()

    # -- resolution ----------------------------------------------------------
    def callees(self, f, call, local_defs):
        """[(function node, index offset of the first positional argument,
        parameter names)] the call may reach"""
        fn = call.func
        out = []
        if isinstance(fn, ast.Name):
            if fn.id in local_defs:
                out.append((local_defs[fn.id], 0))
            else:
                b = self.prog.namespace(f.module).get(fn.id)
                if isinstance(b, FuncInfo):
                    out.append((b.node, 0))
                elif isinstance(b, ClassInfo):
                    m = self.prog.method(b, '__init__')
                    if m is not None:
                        out.append((m.node, 1))
        elif isinstance(fn, ast.Attribute):
            name = fn.attr
            recv = fn.value
            is_super = isinstance(recv, ast.Call) and \
                isinstance(recv.func, ast.Name) and recv.func.id == 'super'
            if is_super and f.owner is not None:
                for c in f.owner.mro[1:]:
                    if isinstance(c, ClassInfo) and name in c.attrs and \
                            isinstance(c.attrs[name], ast.FunctionDef):
                        out.append((c.attrs[name], 1))
                        break
            else:
                for m in self.by_name.get(name, []):
                    static = any(isinstance(d, ast.Name) and
                                 d.id == 'staticmethod'
                                 for d in m.node.decorator_list)
                    out.append((m.node, 0 if static else 1))
        return out

    def is_oneshot(self, f, e, local_defs):
        if isinstance(e, ast.GeneratorExp):
            return 'a generator expression'
        if isinstance(e, ast.Call):
            fn = e.func
            if isinstance(fn, ast.Name) and fn.id in LAZY and \
                    fn.id not in local_defs:
                return 'the iterator returned by %s()' % fn.id
            if isinstance(fn, ast.Name):
                if fn.id in local_defs and _is_gen_function(
                        local_defs[fn.id]):
                    return 'the generator %s()' % fn.id
                b = self.prog.namespace(f.module).get(fn.id)
                if isinstance(b, FuncInfo) and _is_gen_function(b.node):
                    return 'the generator %s()' % fn.id
            if isinstance(fn, ast.Attribute) and \
                    self.gen_methods.get(fn.attr):
                return 'the generator %s()' % fn.attr
        return None

    # -- counting ------------------------------------------------------------
    def param_count(self, fnode, idx):
        return self.summ.get((id(fnode), idx), 0)

    def _arg_count(self, f, call, name, local_defs):
        """consumption of `name` through being an argument of `call`"""
        total = 0
        targets = self.callees(f, call, local_defs)
        for i, a in enumerate(call.args):
            if isinstance(a, ast.Name) and a.id == name:
                total = max(total, max(
                    [self.param_count(n, i + off) for (n, off) in targets] or
                    [0]))
            if isinstance(a, ast.Starred) and isinstance(a.value, ast.Name) \
                    and a.value.id == name:
                total = max(total, 1)
        for kw in call.keywords:
            if isinstance(kw.value, ast.Name) and kw.value.id == name and \
                    kw.arg is not None:
                for (n, off) in targets:
                    ps = [x.arg for x in n.args.posonlyargs + n.args.args]
                    if kw.arg in ps:
                        total = max(total, self.param_count(
                            n, ps.index(kw.arg)))
        return total

    def expr_count(self, f, e, name, local_defs, first=None):
        """how often evaluating expression e traverses `name`"""
        if e is None:
            return 0
        total = 0
        if isinstance(e, (ast.ListComp, ast.SetComp, ast.GeneratorExp,
                          ast.DictComp)):
            for gi, g in enumerate(e.generators):
                if isinstance(g.iter, ast.Name) and g.iter.id == name:
                    total += 1 if gi == 0 else MANY
                else:
                    c = self.expr_count(f, g.iter, name, local_defs)
                    total += c if gi == 0 else (MANY if c else 0)
                for cnd in g.ifs:
                    if self.expr_count(f, cnd, name, local_defs):
                        total += MANY
            elts = [e.key, e.value] if isinstance(e, ast.DictComp) \
                else [e.elt]
            for x in elts:
                if self.expr_count(f, x, name, local_defs):
                    total += MANY
            return min(total, MANY)
        if isinstance(e, ast.Lambda):
            return MANY if self.expr_count(f, e.body, name,
                                           local_defs) else 0
        if isinstance(e, ast.Call):
            fn = e.func
            if isinstance(fn, ast.Name) and fn.id in CONSUMERS and \
                    fn.id not in local_defs:
                for a in e.args:
                    if isinstance(a, ast.Name) and a.id == name and \
                            fn.id != 'len':
                        total += 1
            elif isinstance(fn, ast.Attribute) and fn.attr in (
                    'join', 'extend', 'update', 'union', 'intersection',
                    'difference', 'issubset', 'issuperset', 'isdisjoint',
                    'from_iterable'):
                for a in e.args:
                    if isinstance(a, ast.Name) and a.id == name:
                        total += 1
            total += self._arg_count(f, e, name, local_defs)
            for a in list(e.args) + [k.value for k in e.keywords]:
                if isinstance(a, ast.Starred):
                    a = a.value
                if not (isinstance(a, ast.Name) and a.id == name):
                    total += self.expr_count(f, a, name, local_defs)
            if not isinstance(fn, ast.Name):
                total += self.expr_count(f, fn, name, local_defs)
            return min(total, MANY)
        if isinstance(e, ast.Compare):
            for op, c in zip(e.ops, e.comparators):
                if isinstance(op, (ast.In, ast.NotIn)) and \
                        isinstance(c, ast.Name) and c.id == name:
                    total += 1
        if isinstance(e, ast.Starred) and isinstance(e.value, ast.Name) and \
                e.value.id == name:
            total += 1
        if isinstance(e, ast.YieldFrom) and isinstance(e.value, ast.Name) \
                and e.value.id == name:
            total += 1
        for c in ast.iter_child_nodes(e):
            if isinstance(c, ast.expr):
                total += self.expr_count(f, c, name, local_defs)
            elif isinstance(c, ast.comprehension):
                pass
        return min(total, MANY)

    def block_count(self, f, stmts, name, local_defs, nested_uses):
        total = 0
        for s in stmts:
            total += self.stmt_count(f, s, name, local_defs, nested_uses)
            if total >= MANY:
                return MANY
            if isinstance(s, ast.Assign) and any(
                    isinstance(t, ast.Name) and t.id == name
                    for t in s.targets):
                break           # rebound: a new object from here on
        return min(total, MANY)

    def stmt_count(self, f, s, name, local_defs, nested_uses):
        bc = lambda b: self.block_count(f, b, name, local_defs, nested_uses)
        ec = lambda e: self.expr_count(f, e, name, local_defs)
        if isinstance(s, (ast.FunctionDef, ast.AsyncFunctionDef)):
            return 0        # counted where it is called (nested_uses)
        if isinstance(s, ast.ClassDef):
            return 0
        if isinstance(s, (ast.For, ast.AsyncFor)):
            t = 1 if isinstance(s.iter, ast.Name) and s.iter.id == name \
                else ec(s.iter)
            if bc(s.body):
                t += MANY
            return min(t + bc(s.orelse), MANY)
        if isinstance(s, ast.While):
            if ec(s.test) or bc(s.body):
                return MANY
            return bc(s.orelse)
        if isinstance(s, ast.If):
            return min(ec(s.test) + max(bc(s.body), bc(s.orelse)), MANY)
        if isinstance(s, ast.Try):
            t = bc(s.body) + max([bc(h.body) for h in s.handlers] +
                                 [bc(s.orelse)]) + bc(s.finalbody)
            return min(t, MANY)
        if isinstance(s, (ast.With, ast.AsyncWith)):
            t = sum(ec(i.context_expr) for i in s.items) + bc(s.body)
            return min(t, MANY)
        total = 0
        for c in ast.iter_child_nodes(s):
            if isinstance(c, ast.expr):
                total += ec(c)
        # calls of local functions that use the name as a free variable
        for n in ast.walk(s):
            if isinstance(n, ast.Call) and isinstance(n.func, ast.Name) and \
                    n.func.id in nested_uses:
                total += nested_uses[n.func.id]
        return min(total, MANY)

    def _local_defs(self, fnode):
        return {s.name: s for s in ast.walk(fnode)
                if isinstance(s, ast.FunctionDef) and s is not fnode}

    def function_count(self, f, fnode, name):
        local_defs = self._local_defs(fnode)
        nested = {}
        for dn, d in local_defs.items():
            own = {a.arg for a in d.args.posonlyargs + d.args.args +
                   d.args.kwonlyargs}
            if name in own:
                continue
            c = self.block_count(f, d.body, name, local_defs, {})
            if c:
                nested[dn] = c
        return self.block_count(f, fnode.body, name, local_defs, nested)

    def _fixpoint(self):
        nodes = []
        for f in self.funcs:
            nodes.append((f, f.node))
            for d in self._local_defs(f.node).values():
                nodes.append((f, d))
        changed = True
        rounds = 0
        while changed and rounds < 8:
            changed = False
            rounds += 1
            for (f, node) in nodes:
                ps = [x.arg for x in node.args.posonlyargs + node.args.args]
                for i, pn in enumerate(ps):
                    try:
                        c = self.function_count(f, node, pn)
                    except RecursionError:
                        c = 0
                    if c > self.summ.get((id(node), i), 0):
                        self.summ[(id(node), i)] = c
                        changed = True

    # -- findings --------------------------------------------------------------
    def violations(self):
        """[(FuncInfo, line, source description, sink description)]"""
        out = []
        for f in self.funcs:
            local_defs = self._local_defs(f.node)
            scopes = [f.node] + list(local_defs.values())
            for fnode in scopes:
                # (a) a local name bound once to a one-shot value
                assigns = {}
                for n in ast.walk(fnode):
                    if isinstance(n, ast.Assign) and len(n.targets) == 1 and \
                            isinstance(n.targets[0], ast.Name):
                        assigns.setdefault(n.targets[0].id, []).append(n)

                def direct(block):
                    for i, s in enumerate(block):
                        yield block, i, s
                for name, asg in sorted(assigns.items()):
                    if len(asg) != 1:
                        continue
                    a = asg[0]
                    why = self.is_oneshot(f, a.value, local_defs)
                    if not why:
                        continue
                    # the statements after the binding, in its own block
                    rest = None
                    for blk in _blocks(fnode):
                        if a in blk:
                            rest = blk[blk.index(a) + 1:]
                    if rest is None:
                        continue
                    nested = {}
                    for dn, d in local_defs.items():
                        own = {x.arg for x in d.args.posonlyargs +
                               d.args.args + d.args.kwonlyargs}
                        if name not in own:
                            c = self.block_count(f, d.body, name, local_defs,
                                                 {})
                            if c:
                                nested[dn] = c
                    c = self.block_count(f, rest, name, local_defs, nested)
                    if c >= MANY:
                        out.append((f, a.lineno,
                                    '`%s = %s` (%s)' % (
                                        name, ast.unparse(a.value)[:60], why),
                                    'is traversed more than once in the '
                                    'statements that follow'))
                # (b) a one-shot expression written as an argument
                for n in ast.walk(fnode):
                    if not isinstance(n, ast.Call):
                        continue
                    targets = self.callees(f, n, local_defs)
                    if not targets:
                        continue
                    for i, a in enumerate(n.args):
                        why = self.is_oneshot(f, a, local_defs)
                        if not why:
                            continue
                        for (tn, off) in targets:
                            if self.param_count(tn, i + off) >= MANY:
                                ps = [x.arg for x in tn.args.posonlyargs +
                                      tn.args.args]
                                out.append((
                                    f, n.lineno,
                                    '`%s` (%s)' % (ast.unparse(a)[:60], why),
                                    'is passed to %s, which traverses its '
                                    'parameter `%s` more than once' % (
                                        tn.name, ps[i + off] if i + off <
                                        len(ps) else '?')))
        seen = set()
        res = []
        for v in out:
            k = (v[0].qn, v[1], v[2])
            if k not in seen:
                seen.add(k)
                res.append(v)
        return res


def _blocks(fnode):
    todo = [fnode.body]
    while todo:
        b = todo.pop()
        yield b
        for s in b:
            if isinstance(s, (ast.FunctionDef, ast.AsyncFunctionDef,
                              ast.ClassDef)):
                continue
            for fld in ('body', 'orelse', 'finalbody'):
                x = getattr(s, fld, None)
                if isinstance(x, list) and x and isinstance(x[0], ast.stmt):
                    todo.append(x)
            for h in getattr(s, 'handlers', []) or []:
                todo.append(h.body)


_cache = {}


def analysis(prog):
    if id(prog) not in _cache:
        _cache.clear()
        _cache[id(prog)] = OneShot(prog)
    return _cache[id(prog)]


def rule(prog, prop, files=None):
    """R-ITER-1 restricted to the given source files (relative paths)"""
    from .report import Finding, RuleResult, floor
    r = RuleResult('R-ITER-1', 'a one-shot iterator (generator expression, '
                   'generator call, map/filter/zip ...) is traversed at most '
                   'once')
    A = analysis(prog)
    multi = sorted((k for k, c in A.summ.items() if c >= MANY),
                   key=lambda k: k[1])
    nfun = 0
    for f in A.funcs:
        if files is None or any(f.module.relpath.endswith(x) for x in files):
            nfun += 1
    r.inst(functions_scanned=nfun,
           parameters_traversed_more_than_once=len(multi))
    for (f, line, src, sink) in A.violations():
        if files is not None and not any(f.module.relpath.endswith(x)
                                         for x in files):
            continue
        r.fail(Finding(
            prop, 'R-ITER-1', '%s:%d' % (f.module.relpath, line), f.short(),
            'oneshot:%s' % src[:80],
            '%s %s: the second traversal finds the iterator exhausted and '
            'silently sees no elements' % (src, sink)))
    if not r.findings:
        r.ok()
    floor('R-ITER-1', 'functions scanned', nfun, 3)
    # the matcher is exercised on a positive example on every run
    pos = _selftest()
    if not pos:
        from .program import Inconclusive
        raise Inconclusive('R-ITER-1', 'matcher self-test failed', '')
    r.notes.append('matcher self-test: positive example reported')
    return r


_SELFTEST = '''
def build(E):
    for s, d in E:
        hash(s)
    for s, d in E:
        use(s, d)

def caller(xs):
    return build((x, x) for x in xs)
'''


def _selftest():
    """the counting core on a literal example (no Program needed)"""
    tree = ast.parse(_SELFTEST)

    class _F(object):
        owner = None
        module = None
    o = OneShot.__new__(OneShot)
    o.prog = None
    o.funcs = []
    o.by_name = {}
    o.gen_methods = {}
    o.summ = {}
    o.callees = lambda f, call, local_defs: (
        [(tree.body[0], 0)] if isinstance(call.func, ast.Name) and
        call.func.id == 'build' else [])
    c = o.function_count(_F(), tree.body[0], 'E')
    o.summ[(id(tree.body[0]), 0)] = c
    return c >= MANY
