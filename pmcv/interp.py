"""E3 -- path-enumerating abstract interpreter over `ast` (no execution of the
repository: values are symbolic, loops are interpreted on one generic element,
package callees are inlined up to a depth bound)."""
import ast

from .program import (Inconclusive, ClassInfo, ExtClass, FuncInfo, ModRef,
                      ExtRef, ValueBinding, BUILTIN_CLASSES)
from .values import (FoldInfo, walk, Coll, V, Const, Sym, CRef, FRef, MRef, ERef, BRef, Bound,
                     BoundB, Obj, Tup, App, New, Coll, Part, Raise, HObj,
                     Event, Path)
from .builtins_ import BuiltinsMixin

BUILTIN_FUNCS = ('isinstance', 'issubclass', 'len', 'set', 'list', 'dict',
                 'tuple', 'str', 'int', 'bool', 'range', 'iter', 'next',
                 'sorted', 'min', 'max', 'sum', 'id', 'hash', 'print',
                 'super', 'type', 'enumerate', 'zip', 'frozenset', 'any',
                 'all', 'repr', 'getattr', 'hasattr', 'reversed', 'object',
                 'abs', 'function', 'map', 'filter')


class Hooks(object):
    def construct(self, I, ci, args, kw, path, node):
        return None

    def call(self, I, fv, args, kw, path, node):
        return None

    def getattr(self, I, val, name, path, node):
        return None

    def isinstance(self, I, val, ci, path):
        return None

    def inline(self, I, fi, args):
        return True

    def truth(self, I, val, path):
        return None

    def iter_elem_type(self, I, iterable, path):
        return None


RET, BRK, CNT = 'ret', 'break', 'continue'


def _positional_form(fnode, args, kw):
    """a recorded call in canonical form: keyword arguments that name the
    next positional parameters become positional (`f(a, y=b)` and `f(a, b)`
    are the same call of `def f(x, y)`)"""
    if not kw or not isinstance(fnode, (ast.FunctionDef, ast.Lambda)):
        return args, kw
    a = fnode.args
    if a.vararg is not None or a.posonlyargs:
        return args, kw
    names = [x.arg for x in a.args]
    args = list(args)
    kw = list(kw)
    if any(k is None for k, _ in kw):
        return args, kw
    while len(args) < len(names):
        nm = names[len(args)]
        hit = [i for i, (k, _) in enumerate(kw) if k == nm]
        if len(hit) != 1:
            break
        args.append(kw.pop(hit[0])[1])
    return args, kw


class Interp(BuiltinsMixin):
    def __init__(self, prog, hooks=None, max_depth=8, max_paths=4000,
                 rule='E3'):
        self.prog = prog
        self.hooks = hooks or Hooks()
        self.max_depth = max_depth
        self.max_paths = max_paths
        self.rule = rule
        self.stack = []           # FuncInfo of inlined calls
        self.try_stack = []
        self.try_loops = []       # handler types of the enclosing try bodies
        self.npaths = 0

    # ------------------------------------------------------------------
    def new_path(self):
        return Path({'n': 0})

    def where(self, node, module=None):
        m = module or (self.stack[-1].module if self.stack else None)
        return '%s:%s' % (m.relpath if m else '?',
                          getattr(node, 'lineno', '?'))

    def inconclusive(self, what, node=None):
        raise Inconclusive(self.rule, what,
                           self.where(node) if node is not None else '')

    def binding_value(self, b, path):
        if isinstance(b, ClassInfo) or isinstance(b, ExtClass):
            return CRef(b)
        if isinstance(b, FuncInfo):
            return FRef(b)
        if isinstance(b, ModRef):
            return MRef(b.name)
        if isinstance(b, ExtRef):
            return ERef(b.name)
        if isinstance(b, tuple) and b[0] == 'const':
            return Const(b[1])
        if isinstance(b, ValueBinding):
            return self.eval_module_value(b, path)
        return None

    def eval_module_value(self, b, path):
        node = b.node
        # alphabet = get_alphabet(__name__)
        if isinstance(node, ast.Call) and isinstance(node.func, ast.Name) \
                and node.func.id == 'get_alphabet':
            return App('alphabet', Const(b.module.name))
        if isinstance(node, ast.Call) and isinstance(node.func, ast.Name) \
                and node.func.id == 'get_symbols':
            return App('symbols', Const(b.module.name))
        fr = self.module_frame(b.module, path)
        res = self.eval(node, fr, path)
        if len(res) != 1 or isinstance(res[0][1], Raise):
            return App('modvalue', Const(b.module.name),
                       Const(ast.dump(node)[:60]))
        v = res[0][1]
        if isinstance(v, Obj):
            # module-level mutable object: shared state, not a fresh value
            return App('global', Const(b.module.name),
                       Const(ast.unparse(node)[:60]),
                       self.snapshot(v, path))
        if isinstance(v, App) and v.op in ('methodcaller', 'attrgetter'):
            return v        # immutable callables
        if (isinstance(v, App) and v.op == 'call' and
                isinstance(v.args[0], (ERef, CRef))) or (
                isinstance(v, New) and isinstance(v.ci, ExtClass)):
            # an object made at import time by a library constructor
            # (weakref.WeakKeyDictionary(), collections.OrderedDict(), ..):
            # one object shared by all calls
            return App('global', Const(b.module.name),
                       Const(ast.unparse(node)[:60]), v)
        return v

    def module_frame(self, module, path):
        fo = path.alloc('frame')
        h = path.heap[fo.oid]
        h.module = module
        return fo.oid

    # -- names -----------------------------------------------------------
    def lookup(self, name, fr, path, node=None):
        f = fr
        while f is not None:
            h = path.heap[f]
            if name in h.vars:
                return h.vars[name]
            f = h.parent
        module = path.heap[fr].module
        ns = self.prog.namespace(module)
        if name in ns:
            v = self.binding_value(ns[name], path)
            if v is not None:
                return v
        if name in BUILTIN_CLASSES:
            return CRef(ExtClass(name))
        if name in BUILTIN_FUNCS:
            return BRef(name)
        if name in ('True', 'False', 'None'):
            return Const({'True': True, 'False': False, 'None': None}[name])
        return App('undefined', Const(name))

    def assign_name(self, name, val, fr, path):
        path.heap[fr].vars[name] = val

    # -- statements --------------------------------------------------------
    def exec_block(self, stmts, fr, path):
        """-> list of (path, signal)"""
        cur = [path]
        done = []
        for st in stmts:
            nxt = []
            for p in cur:
                for (q, sig) in self.exec_stmt(st, fr, p):
                    if sig is None:
                        nxt.append(q)
                    else:
                        done.append((q, sig))
            cur = nxt
            self.npaths = max(self.npaths, len(cur) + len(done))
            if len(cur) + len(done) > self.max_paths:
                self.inconclusive('path explosion', st)
            if not cur:
                break
        return [(p, None) for p in cur] + done

    def exec_stmt(self, st, fr, path):
        m = getattr(self, 'st_' + st.__class__.__name__, None)
        if m is None:
            self.inconclusive('statement ' + st.__class__.__name__, st)
        return m(st, fr, path)

    def _ev(self, node, fr, path, k):
        """evaluate expr; for each non-raising result call k(path, val) ->
        list[(path, sig)]; raising results become ('raise', r)."""
        out = []
        for (p, v) in self.eval(node, fr, path):
            if isinstance(v, Raise):
                out.append((p, v))
            else:
                out.extend(k(p, v))
        return out

    def st_Expr(self, st, fr, path):
        return self._ev(st.value, fr, path, lambda p, v: [(p, None)])

    def st_Pass(self, st, fr, path):
        return [(path, None)]

    def st_Import(self, st, fr, path):
        for a in st.names:
            nm = a.asname or a.name.split('.')[0]
            tgt = a.name if a.asname else a.name.split('.')[0]
            if tgt in self.prog.modules:
                self.assign_name(nm, MRef(tgt), fr, path)
            else:
                self.assign_name(nm, ERef(tgt), fr, path)
        return [(path, None)]

    def st_ImportFrom(self, st, fr, path):
        module = path.heap[fr].module
        target = self.prog._resolve_from(module, st.level, st.module)
        for a in st.names:
            if a.name == '*':
                self.inconclusive('local star import', st)
            b = None
            if target in self.prog.modules:
                b = self.prog.module_attr(target, a.name)
            v = self.binding_value(b, path) if b is not None else None
            if v is None:
                v = ERef('%s.%s' % (target, a.name))
            self.assign_name(a.asname or a.name, v, fr, path)
        return [(path, None)]

    def st_Return(self, st, fr, path):
        if st.value is None:
            return [(path, (RET, Const(None)))]
        return self._ev(st.value, fr, path, lambda p, v: [(p, (RET, v))])

    def st_Raise(self, st, fr, path):
        if st.exc is None:
            return [(path, Raise(App('reraise'), st))]
        return self._ev(st.exc, fr, path,
                        lambda p, v: [(p, Raise(v, st))])

    def st_Break(self, st, fr, path):
        return [(path, BRK)]

    def st_Continue(self, st, fr, path):
        return [(path, CNT)]

    def st_FunctionDef(self, st, fr, path):
        module = path.heap[fr].module
        outer = path.heap[fr].fnode
        qual = (getattr(outer, 'name', '') + '.<locals>.' + st.name)
        fi = FuncInfo(module, st, None, qual=qual)
        self.assign_name(st.name, FRef(fi, closure=fr), fr, path)
        return [(path, None)]

    def st_ClassDef(self, st, fr, path):
        self.assign_name(st.name, App('localclass', Const(st.name)), fr, path)
        return [(path, None)]

    def st_Assign(self, st, fr, path):
        def k(p, v):
            cur = [p]
            for t in st.targets:
                nxt = []
                for q in cur:
                    for (r, sig) in self.assign(t, v, fr, q, st):
                        if sig is None:
                            nxt.append(r)
                        else:
                            return [(r, sig)]
                cur = nxt
            return [(q, None) for q in cur]
        return self._ev(st.value, fr, path, k)

    def st_AnnAssign(self, st, fr, path):
        # `x: T = v` is `x = v`; a bare annotation binds nothing
        if st.value is None:
            return [(path, None)]
        a = ast.Assign(targets=[st.target], value=st.value)
        ast.copy_location(a, st)
        return self.st_Assign(a, fr, path)

    # -- match statement: desugared into the if/elif chain it abbreviates --
    def st_Match(self, st, fr, path):
        self._match_id = getattr(self, '_match_id', 0) + 1
        subj = '__match_subject_%d' % self._match_id
        a = ast.Assign(targets=[ast.Name(id=subj, ctx=ast.Store())],
                       value=st.subject)
        stmts = [a] + self._match_cases(st.cases, subj, st)
        for n in stmts:
            ast.copy_location(n, st)
            ast.fix_missing_locations(n)
        return self.exec_block(stmts, fr, path)

    def _match_cases(self, cases, subj, st):
        if not cases:
            return [ast.Pass()]
        c = cases[0]
        cond, binds = self._match_pattern(
            c.pattern, ast.Name(id=subj, ctx=ast.Load()), st)
        rest = self._match_cases(cases[1:], subj, st)
        body = list(binds)
        if c.guard is not None:
            body.append(ast.If(test=c.guard, body=list(c.body), orelse=rest))
        else:
            body.extend(c.body)
        if cond is None:
            return body
        return [ast.If(test=cond, body=body or [ast.Pass()], orelse=rest)]

    def _match_pattern(self, pat, subject, st):
        """-> (condition expr | None (always), [binding statements])"""
        def conj(cs):
            cs = [c for c in cs if c is not None]
            if not cs:
                return None
            if len(cs) == 1:
                return cs[0]
            return ast.BoolOp(op=ast.And(), values=cs)
        if isinstance(pat, ast.MatchAs):
            binds = []
            cond = None
            if pat.pattern is not None:
                cond, binds = self._match_pattern(pat.pattern, subject, st)
            if pat.name is not None:
                binds = binds + [ast.Assign(
                    targets=[ast.Name(id=pat.name, ctx=ast.Store())],
                    value=subject)]
            return cond, binds
        if isinstance(pat, ast.MatchValue):
            return ast.Compare(left=subject, ops=[ast.Eq()],
                               comparators=[pat.value]), []
        if isinstance(pat, ast.MatchSingleton):
            return ast.Compare(left=subject, ops=[ast.Is()],
                               comparators=[ast.Constant(pat.value)]), []
        if isinstance(pat, ast.MatchOr):
            conds = []
            for q in pat.patterns:
                c, b = self._match_pattern(q, subject, st)
                if b:
                    self.inconclusive('or-pattern with captures', st)
                if c is None:
                    return None, []
                conds.append(c)
            return ast.BoolOp(op=ast.Or(), values=conds), []
        if isinstance(pat, ast.MatchClass):
            if pat.patterns:
                self.inconclusive('class pattern with positional '
                                  'sub-patterns', st)
            conds = [ast.Call(func=ast.Name(id='isinstance', ctx=ast.Load()),
                              args=[subject, pat.cls], keywords=[])]
            binds = []
            for attr, q in zip(pat.kwd_attrs, pat.kwd_patterns):
                sub = ast.Attribute(value=subject, attr=attr, ctx=ast.Load())
                c, b = self._match_pattern(q, sub, st)
                conds.append(c)
                binds.extend(b)
            return conj(conds), binds
        self.inconclusive('match pattern %s' % pat.__class__.__name__, st)

    def st_AugAssign(self, st, fr, path):
        load = ast.copy_location(_as_load(st.target), st)

        def k(p, cur):
            def k2(q, rhs):
                out = []
                for (r, v) in self.binop(st.op, cur, rhs, q, st,
                                         inplace=True):
                    if isinstance(v, Raise):
                        out.append((r, v))
                    else:
                        out.extend(self.assign(st.target, v, fr, r, st))
                return out
            return self._ev(st.value, fr, p, k2)
        return self._ev(load, fr, path, k)

    def assign(self, target, val, fr, path, st):
        """-> list[(path, sig)]"""
        if isinstance(target, ast.Name):
            self.assign_name(target.id, val, fr, path)
            return [(path, None)]
        if isinstance(target, (ast.Tuple, ast.List)):
            items = self.unpack(val, len(target.elts), path)
            cur = [(path, None)]
            for t, it in zip(target.elts, items):
                nxt = []
                for (p, sig) in cur:
                    nxt.extend(self.assign(t, it, fr, p, st))
                cur = nxt
            return cur
        if isinstance(target, ast.Attribute):
            def k(p, base):
                self.set_attr(base, target.attr, val, p, st)
                return [(p, None)]
            return self._ev(target.value, fr, path, k)
        if isinstance(target, ast.Subscript):
            def k(p, base):
                def k2(q, idx):
                    return [(r, None) for r in
                            self.set_item_f(base, idx, val, q, st)]
                return self._ev(target.slice, fr, p, k2)
            return self._ev(target.value, fr, path, k)
        self.inconclusive('assignment target', st)

    def unpack(self, val, n, path):
        if isinstance(val, Tup) and len(val.items) == n:
            return list(val.items)
        if isinstance(val, Obj):
            h = path.heap[val.oid]
            if h.kind == 'list' and h.concrete() and len(h.parts) == n:
                return [p.val for p in h.parts]
        return [App('item', val, Const(i)) for i in range(n)]

    def set_attr(self, base, attr, val, path, node):
        if isinstance(base, Obj) and path.heap[base.oid].kind == 'inst':
            path.heap[base.oid].fields[attr] = val
            self.event(path, 'setattr-own', base, attr, (val,), node)
            return
        self.event(path, 'setattr', base, attr, (val,), node)

    def set_item(self, base, idx, val, path, node):
        if isinstance(base, Obj):
            h = path.heap[base.oid]
            if h.kind == 'dict':
                self.dict_set(h, idx, val, path)
                return
            if h.kind == 'list' and h.concrete() and isinstance(idx, Const):
                try:
                    h.parts[idx.v] = Part('elem', val)
                    return
                except Exception:
                    pass
            h.havoc = True
            return
        self.event(path, 'setitem', base, None, (idx, val), node)

    def key_candidates(self, h, key, path):
        """simple parts of a concrete dict/set whose key may equal `key`
        -> (definitely_index | None, [maybe indices])"""
        maybe = []
        for i, p in enumerate(h.parts):
            k = p.key if h.kind == 'dict' else p.val
            if k == key:
                return i, []
            if isinstance(k, Const) and isinstance(key, Const):
                continue
            if isinstance(k, (Const, Sym, App)) and \
                    isinstance(key, (Const, Sym, App)):
                t = self.truth(App('cmp', Const('=='), key, k), path)
                if t is True:
                    return i, []
                if t is None:
                    maybe.append(i)
        return None, maybe

    def fork_on_key(self, obj, key, path):
        """-> list of (path, index | None): which entry of the concrete
        dict/set `obj` the symbolic key denotes"""
        h = path.heap[obj.oid]
        if not (h.kind in ('dict', 'set') and h.concrete()):
            return None
        sure, maybe = self.key_candidates(h, key, path)
        if sure is not None:
            return [(path, sure)]
        if not maybe:
            return [(path, None)]
        if len(maybe) > 3:
            return None
        out = []
        cur = path
        for i in maybe:
            hh = cur.heap[obj.oid]
            k = hh.parts[i].key if hh.kind == 'dict' else hh.parts[i].val
            c = App('cmp', Const('=='), key, k)
            if self.truth(c, cur) is False:
                continue
            q = cur.fork()
            self.assume(c, True, q)
            out.append((q, i))
            self.assume(c, False, cur)
        out.append((cur, None))
        return out

    def set_item_f(self, base, idx, val, path, node):
        if isinstance(base, Obj) and path.heap[base.oid].kind == 'dict' \
                and not path.loops[path.heap[base.oid].loops_len:]:
            fk = self.fork_on_key(base, idx, path)
            if fk is not None:
                out = []
                for (q, i) in fk:
                    h = q.heap[base.oid]
                    if i is None:
                        h.parts.append(Part('elem', val, key=idx))
                    else:
                        h.parts[i] = Part('elem', val, key=h.parts[i].key)
                    out.append(q)
                return out
        self.set_item(base, idx, val, path, node)
        return [path]

    def dict_set(self, h, key, val, path):
        gens = path.loops[h.loops_len:]
        conds = tuple(path.pc[h.pc_len:]) if gens else ()
        if not gens:
            for i, p in enumerate(h.parts):
                if p.simple() and p.key == key:
                    h.parts[i] = Part('elem', val, key=key)
                    return
        h.parts.append(Part('elem', val, key=key,
                            gens=[(l.var, l.iterable) for l in gens],
                            conds=conds))

    def event(self, path, kind, target, name, args, node):
        ev = Event(kind, target, name, args, tuple(path.pc), path.loops,
                   node, tuple(self.stack))
        ev.tries = tuple(self.try_stack)
        path.log.append(ev)

    def st_If(self, st, fr, path):
        out = []
        for (p, v) in self.eval(st.test, fr, path):
            if isinstance(v, Raise):
                out.append((p, v))
                continue
            for (q, truth) in self.branch(v, p):
                out.extend(self.exec_block(st.body if truth else st.orelse,
                                           fr, q))
        return out

    def branch(self, cond, path):
        """-> [(path, True|False)] forking when undecided"""
        t = self.truth(cond, path)
        if t is not None:
            return [(path, t)]
        cond = self.snapshot(cond, path)
        q = path.fork()
        self.assume(cond, True, path)
        self.assume(cond, False, q)
        return [(path, True), (q, False)]

    def assume(self, cond, pol, path):
        if isinstance(cond, App) and cond.op == 'not':
            return self.assume(cond.args[0], not pol, path)
        if isinstance(cond, App) and cond.op == 'and' and pol:
            for a in cond.args:
                self.assume(a, True, path)
            return
        if isinstance(cond, App) and cond.op == 'or' and not pol:
            for a in cond.args:
                self.assume(a, False, path)
            return
        path.pc.append((cond, pol))

    def truth(self, v, path):
        if isinstance(v, Const):
            return bool(v.v)
        if isinstance(v, (CRef, FRef, MRef, Bound, BoundB, BRef, New)):
            if isinstance(v, New):
                t = self.hooks.truth(self, v, path)
                return True if t is None else t
            return True
        if isinstance(v, Tup):
            return len(v.items) > 0
        if isinstance(v, Obj):
            h = path.heap[v.oid]
            if h.kind in ('list', 'set', 'dict'):
                if h.concrete():
                    return len(h.parts) > 0
                if any(p.simple() for p in h.parts) and not h.havoc:
                    return True
            elif h.kind == 'inst':
                return True
        if isinstance(v, App):
            if v.op == 'not':
                t = self.truth(v.args[0], path)
                return None if t is None else (not t)
            if v.op == 'and':
                ts = [self.truth(a, path) for a in v.args]
                if any(t is False for t in ts):
                    return False
                if all(t is True for t in ts):
                    return True
            if v.op == 'or':
                ts = [self.truth(a, path) for a in v.args]
                if any(t is True for t in ts):
                    return True
                if all(t is False for t in ts):
                    return False
        sv = self.snapshot(v, path)
        for (c, pol) in path.pc:
            if c == v or c == sv:
                return pol
        t = self.hooks.truth(self, v, path)
        if t is None and isinstance(v, (Sym, App)):
            t = self._instance_truth(v, sv, path)
        return t

    def _instance_truth(self, v, sv, path):
        """an instance of a package class whose MRO (and whose package
        subclasses) define neither __bool__ nor __len__ is true"""
        from .program import ClassInfo
        known = []
        ci = self.class_of(v, path)
        if isinstance(ci, ClassInfo):
            known.append(ci)
        for (c, pol) in path.pc:
            if pol and isinstance(c, App) and c.op == 'isinstance' and \
                    c.args[0] in (v, sv) and isinstance(c.args[1], CRef) and \
                    isinstance(c.args[1].ci, ClassInfo):
                known.append(c.args[1].ci)
        for k in known:
            subs = [c for c in self.prog.classes.values()
                    if c.is_subclass_of(k)]
            if all(isinstance(m, ClassInfo) and '__bool__' not in m.attrs and
                   '__len__' not in m.attrs or
                   (not isinstance(m, ClassInfo) and m.short() == 'object')
                   for c in subs for m in c.mro):
                return True
        return None

    # -- loops -------------------------------------------------------------
    def concrete_iter(self, it, path):
        """list of element values when the iterable is concrete, else None"""
        if isinstance(it, App) and it.op in ('classattr', 'global'):
            it = it.args[-1]
        if isinstance(it, Coll) and not it.havoc and \
                all(p.simple() for p in it.parts):
            return [p.key if it.kind == 'dict' else p.val for p in it.parts]
        if isinstance(it, Tup):
            return list(it.items)
        if isinstance(it, Const) and isinstance(it.v, (str, tuple)):
            return [Const(c) for c in it.v]
        if isinstance(it, Obj):
            h = path.heap[it.oid]
            if h.kind == 'iterator':
                items, pos = h.fields['$items'].items, h.fields['$pos'].v
                h.fields['$pos'] = Const(len(items))
                return list(items[pos:])
            if h.kind in ('list', 'set') and h.concrete():
                return [p.val for p in h.parts]
            if h.kind == 'dict' and h.concrete():
                return [p.key for p in h.parts]
        if isinstance(it, App) and it.op == 'range' and \
                all(isinstance(a, Const) for a in it.args):
            return [Const(i) for i in range(*[a.v for a in it.args])]
        if isinstance(it, App) and it.op == 'dictview' and \
                isinstance(it.args[1], Obj):
            h = path.heap[it.args[1].oid]
            if h.kind == 'dict' and h.concrete():
                k = it.args[0].v
                if k == 'keys':
                    return [p.key for p in h.parts]
                if k == 'values':
                    return [p.val for p in h.parts]
                return [Tup((p.key, p.val)) for p in h.parts]
        return None

    def st_For(self, st, fr, path):
        out = []
        for (p, it) in self.eval(st.iter, fr, path):
            if isinstance(it, Raise):
                out.append((p, it))
                continue
            if isinstance(it, App) and it.op == 'gen' and \
                    isinstance(it.args[0], Obj):
                it = it.args[0]       # what a generator call yields
            items = self.concrete_iter(it, p)
            if items is not None and (len(items) <= 8 or (
                    len(items) <= 24 and all(isinstance(x, Const)
                                             for x in items))):
                out.extend(self.unrolled_for(st, items, fr, p))
                continue
            cparts = None
            if isinstance(it, Obj) and p.heap[it.oid].kind == 'list' and \
                    not p.heap[it.oid].havoc:
                hp = p.heap[it.oid].parts
                if hp and len(hp) <= 8 and all(
                        q.kind == 'elem' and not q.gens for q in hp):
                    cparts = list(hp)
            if cparts is not None:
                # a list whose members were appended / yielded under
                # conditions: member i is there when its condition holds
                out.extend(self.unrolled_for(
                    st, [q.val for q in cparts], fr, p,
                    conds=[q.conds for q in cparts]))
            else:
                out.extend(self.generic_loop(st, it, fr, p))
        return out

    def unrolled_for(self, st, items, fr, path, conds=None):
        cur = [path]
        done = []
        for k, it in enumerate(items):
            nxt = []
            if conds is not None and conds[k]:
                # paths on which the member is absent skip the iteration
                cur2 = []
                for p in cur:
                    q = p.fork()
                    present = True
                    for (c, pol) in conds[k]:
                        t = self.truth(c, q)
                        if t is not None and t != pol:
                            present = False
                            break
                        self.assume(c, pol, q)
                    absent = [(c, pol) for (c, pol) in conds[k]]
                    ta = [self.truth(c, p) for (c, pol) in absent]
                    if all(t is not None and t == pol
                           for t, (c, pol) in zip(ta, absent)):
                        # surely present
                        cur2.append(q)
                        continue
                    if present:
                        cur2.append(q)
                    # the complementary case: at least one condition fails
                    if len(absent) == 1:
                        c, pol = absent[0]
                        t = self.truth(c, p)
                        if t is None or t != pol:
                            r = p.fork()
                            self.assume(c, not pol, r)
                            nxt.append(r)
                    else:
                        r = p.fork()
                        r.pc.append((App('and', *[
                            c if pol else App('not', c)
                            for (c, pol) in absent]), False))
                        nxt.append(r)
                cur = cur2
            for p in cur:
                for (q, sig) in self.assign(st.target, it, fr, p, st):
                    if sig is not None:
                        done.append((q, sig))
                        continue
                    for (r, s2) in self.exec_block(st.body, fr, q):
                        if s2 is None or s2 == CNT:
                            nxt.append(r)
                        elif s2 == BRK:
                            done.append((r, None))
                        else:
                            done.append((r, s2))
            cur = nxt
        res = []
        for p in cur:
            res.extend(self.exec_block(st.orelse, fr, p))
        return res + done

    def snapshot(self, v, path):
        """replace container refs by immutable snapshots (one level)"""
        if isinstance(v, Obj):
            h = path.heap[v.oid]
            if h.kind in ('list', 'set', 'dict'):
                return Coll(v.oid, h.kind, h.parts, h.havoc)
        return v

    def snapshot_deep(self, v, path, seen=()):
        """immutable description of a condition: every container reachable
        through the term is replaced by a snapshot (instances stay refs)"""
        if isinstance(v, Obj):
            h = path.heap.get(v.oid)
            if h is None or h.kind not in ('list', 'set', 'dict') or \
                    v.oid in seen:
                return v
            return self.snapshot_deep(Coll(v.oid, h.kind, h.parts, h.havoc),
                                      path, seen + (v.oid,))
        if isinstance(v, Coll):
            return Coll(v.oid, v.kind, [Part(
                q.kind, self.snapshot_deep(q.val, path, seen),
                key=None if q.key is None else
                self.snapshot_deep(q.key, path, seen),
                gens=[(g, self.snapshot_deep(it, path, seen))
                      for (g, it) in q.gens],
                conds=[(self.snapshot_deep(c, path, seen), pol)
                       for (c, pol) in q.conds]) for q in v.parts], v.havoc)
        if isinstance(v, Tup):
            return Tup([self.snapshot_deep(x, path, seen) for x in v.items])
        if isinstance(v, App):
            return App(v.op, *[self.snapshot_deep(x, path, seen)
                               if isinstance(x, V) else x for x in v.args])
        return v

    def generic_loop(self, st, it, fr, path):
        """`for`/`while` over a symbolic iterable: the body is interpreted
        once on a generic element; container contributions made by the body
        are recorded as comprehension parts; scalars assigned in the body are
        widened."""
        is_for = isinstance(st, ast.For)
        # iterating over what a generator / comprehension produced from ONE
        # source:   for y in (v(x) for x in XS if c(x)): body(y)
        # is the loop   for x in XS: if c(x): body(v(x))
        # (every part of the produced collection has the same single
        # generator; one generic iteration per part)
        fused = None
        if is_for:
            snap = self.snapshot(it, path)
            if isinstance(snap, Coll) and snap.kind == 'list' and \
                    snap.parts and not snap.havoc and all(
                        q.kind == 'elem' and len(q.gens) == 1 and
                        q.gens[0] == snap.parts[0].gens[0]
                        for q in snap.parts) and \
                    isinstance(it, Obj) and \
                    not path.loops[path.heap[it.oid].loops_len:]:
                fused = snap
        loop = LoopFrame(st, None, (fused.parts[0].gens[0][1] if fused
                                    else self.snapshot(it, path))
                         if is_for else it, path.new_id())
        if not hasattr(self, 'loop_frames'):
            self.loop_frames = []
        self.loop_frames.append(loop)
        entry_pc_len = len(path.pc)
        entry = path
        body_path = entry.fork()
        if is_for and fused is not None:
            elem = fused.parts[0].gens[0][0]
            loop.var = elem
        elif is_for:
            et = self.hooks.iter_elem_type(self, it, entry)
            elem = body_path.fresh('e', et, meta=('elem', loop.iterable))
            loop.var = elem
        body_path.loops = entry.loops + (loop,)
        assigned = _assigned_names(st.body)
        # names assigned in the body are unknown at the head of a generic
        # iteration (unless the first iteration's value is still valid: we
        # keep container refs, widen everything else)
        f = body_path.heap[fr]
        for n in assigned:
            if n in f.vars and not isinstance(f.vars[n], Obj):
                f.vars[n] = body_path.fresh('w_' + n,
                                            meta=('widened', f.vars[n]))
        results = []
        if is_for and fused is not None:
            for part in fused.parts:
                bp = body_path.fork()
                feasible = True
                for (c, pol) in part.conds:
                    t = self.truth(c, bp)
                    if t is not None and t != pol:
                        feasible = False
                        break
                    self.assume(c, pol, bp)
                if not feasible:
                    continue
                for (q, sig) in self.assign(st.target, part.val, fr, bp, st):
                    if sig is not None:
                        results.append((q, sig))
                    else:
                        results.extend(self.exec_block(st.body, fr, q))
        elif is_for:
            for (q, sig) in self.assign(st.target, elem, fr, body_path, st):
                if sig is not None:
                    results.append((q, sig))
                else:
                    results.extend(self.exec_block(st.body, fr, q))
        else:
            for (q, v) in self.eval(st.test, fr, body_path):
                if isinstance(v, Raise):
                    results.append((q, v))
                    continue
                self.assume(self.snapshot(v, q), True, q)
                results.extend(self.exec_block(st.body, fr, q))
        # merge
        out = []
        exits = []
        after = entry
        base_heap_ids = set(entry.heap)
        entry_parts = {oid: tuple(h.parts) for oid, h in entry.heap.items()
                       if h.kind in ('list', 'set', 'dict')}
        for (q, sig) in results:
            if sig is None or sig == CNT or sig == BRK:
                if sig == BRK:
                    loop.breaks.append(tuple(
                        (self.snapshot(c, q), pol)
                        for (c, pol) in q.pc[entry_pc_len:]))
                for n in assigned:
                    nv = q.heap[fr].vars.get(n)
                    if nv is not None and not isinstance(nv, Obj):
                        loop.updates.setdefault(n, [])
                        if nv not in loop.updates[n]:
                            loop.updates[n].append(nv)
                self.merge_iteration(after, q, entry_pc_len, base_heap_ids,
                                     fr, loop, entry_parts)
            else:
                # return / raise inside the loop: propagate as its own path
                q.loops = entry.loops
                q.notes.append(('exit-in-loop', loop))
                out.append((q, sig))
                if not (isinstance(sig, Raise) and sig.implicit):
                    delta = [(self.snapshot(c, q), pol)
                             for (c, pol) in q.pc[entry_pc_len:]]
                    ex = App('exists',
                             loop.var if loop.var is not None
                             else Const(None), loop.iterable,
                             Tup(Tup((c, Const(pol)))
                                 for (c, pol) in delta))
                    exits.append(ex)
                    q.notes.append(('exit-conds', tuple(q.pc[entry_pc_len:])))
                    del q.pc[entry_pc_len:]
                    q.pc.append((ex, True))
        # variables assigned in the body: widened after the loop, unless
        # they refer to containers
        f = after.heap[fr]
        for n in assigned:
            v = f.vars.get(n)
            if not isinstance(v, Obj):
                ups = tuple(loop.updates.get(n, ()))
                f.vars[n] = after.fresh('w_' + n,
                                        meta=('loopvar', loop, v, ups))
        if is_for and isinstance(st.target, ast.Name):
            f.vars[st.target.id] = after.fresh('last_' + st.target.id,
                                               meta=('elem', loop.iterable))
        after.notes.append(('loop', loop))
        self.detect_fold(after, loop, entry_parts)
        if not is_for and not any(sig == BRK for (_, sig) in results):
            # leaving a `while` without break: its test is false now
            try:
                tv = self.eval(st.test, fr, after)
                if len(tv) == 1 and not isinstance(tv[0][1], Raise):
                    self.assume(self.snapshot(tv[0][1], after), False, after)
            except Inconclusive:
                pass
        # falling out of the loop: no iteration took an early exit
        for e in exits:
            if (e, False) not in after.pc:
                after.pc.append((e, False))
        if is_for and _endless(loop.iterable) and \
                not any(sig == BRK for (_, sig) in results):
            # `for i in itertools.count():` ends only through return / raise
            return out
        out = self.exec_block(st.orelse, fr, after) + out
        return out

    def merge_iteration(self, after, q, entry_pc_len, base_ids, fr, loop,
                        entry_parts=None):
        entry_parts = entry_parts or {}
        """fold the effects of one generic iteration path `q` into `after`"""
        # container contributions
        for oid, h in q.heap.items():
            if oid in base_ids:
                ha = after.heap[oid]
                if h.kind in ('list', 'set', 'dict'):
                    for p in h.parts:
                        if p not in ha.parts:
                            ha.parts.append(p)
                    if h.havoc and not ha.havoc:
                        ha.havoc = h.havoc
                    if len(h.parts) < len([x for x in ha.parts]) and False:
                        pass
                elif h.kind == 'inst':
                    for k, v in h.fields.items():
                        if ha.fields.get(k) != v:
                            ha.fields[k] = after.fresh(
                                'w_' + k, meta=('loopfield', loop, v))
                elif h.kind == 'frame' and oid == fr:
                    for k, v in h.vars.items():
                        if isinstance(v, Obj) and k not in ha.vars:
                            ha.vars[k] = v
                        elif isinstance(v, Obj) and ha.vars.get(k) != v:
                            ha.vars[k] = v
            else:
                # objects allocated in the body survive (they may have been
                # stored in outer containers)
                if oid not in after.heap:
                    after.heap[oid] = h
        # remember what this iteration path added and read (stateful loops
        # are detected once all paths are merged)
        for oid, h in q.heap.items():
            if oid in base_ids and h.kind in ('list', 'set', 'dict'):
                old = entry_parts.get(oid, ())
                for p in h.parts:
                    if p not in old:
                        loop._new.append((oid, p))
        for (c, _) in q.pc[entry_pc_len:]:
            loop._read.append(c)
        # events
        n0 = len([e for e in after.log])
        known = set(id(e) for e in after.log)
        for e in q.log:
            if id(e) not in known:
                after.log.append(e)
        for n in q.notes:
            if n not in after.notes:
                after.notes.append(n)

    def detect_fold(self, after, loop, entry_parts):
        """a container that the body both reads and extends cannot be
        summarised by a comprehension: its value is the sequential fold of
        the body over the generator bindings"""
        modified = set(oid for (oid, p) in loop._new)
        if not modified:
            return
        vals = list(loop._read)
        for (oid, p) in loop._new:
            vals.append(p.val)
            vals.extend(c for (c, _) in p.conds)
            if p.key is not None:
                vals.append(p.key)
        read = set()
        for v in vals:
            for x in walk(v):
                if isinstance(x, Coll) and x.oid in modified:
                    read.add(x.oid)
                if isinstance(x, Obj) and x.oid in modified and x is not v:
                    read.add(x.oid)
        if not read:
            return
        fi = FoldInfo(loop.lid)
        seen = set()
        for (oid, p) in sorted(loop._new, key=lambda t: t[1].seq):
            if (oid, p.seq) in seen:
                continue
            seen.add((oid, p.seq))
            fi.steps.append((p.seq, oid, p))
        for oid in modified:
            if oid in after.heap:
                fi.entry[oid] = (after.heap[oid].kind,
                                 tuple(entry_parts.get(oid, ())))
                after.heap[oid].havoc = fi
        after.notes.append(('stateful-loop', sorted(read), loop))

    def st_While(self, st, fr, path):
        if getattr(self.hooks, 'unroll_while', False):
            return self.peeled_while(st, fr, path)
        return self.generic_loop(st, App('while', Const(ast.unparse(st.test))),
                                 fr, path)

    def peeled_while(self, st, fr, path, limit=12):
        """iterations whose test is decided by what is known are executed
        one by one (on concrete terms: `while isinstance(f, Not): f = ...`);
        as soon as a test is not decided the rest is the generic loop"""
        out = []
        cur = [path]
        for _ in range(limit):
            nxt = []
            for p in cur:
                for (q, tv) in self.eval(st.test, fr, p):
                    if isinstance(tv, Raise):
                        out.append((q, tv))
                        continue
                    t = self.truth(tv, q)
                    if t is None:
                        out.extend(self.generic_loop(
                            st, App('while', Const(ast.unparse(st.test))),
                            fr, q))
                    elif t is False:
                        out.extend(self.exec_block(st.orelse, fr, q))
                    else:
                        for (r, sig) in self.exec_block(st.body, fr, q):
                            if sig is None or sig == CNT:
                                nxt.append(r)
                            elif sig == BRK:
                                out.append((r, None))
                            else:
                                out.append((r, sig))
            cur = nxt
            if not cur:
                return out
        self.inconclusive('while loop not finished after %d decided '
                          'iterations' % limit, st)

    # -- try ----------------------------------------------------------------
    def st_Try(self, st, fr, path):
        entry = path.fork()
        out = []
        self.try_stack.append(tuple(
            ast.unparse(h.type) if h.type is not None else 'BaseException'
            for h in st.handlers))
        # how many loops were open when the try was entered: an exception
        # raised inside a loop opened later leaves that loop
        self.try_loops.append(len(path.loops))
        try:
            body_res = self.exec_block(st.body, fr, path)
        finally:
            self.try_stack.pop()
            self.try_loops.pop()
        handled_any_implicit = False
        for (p, sig) in body_res:
            if isinstance(sig, Raise):
                h = self.match_handler(st.handlers, sig.exc, fr, p)
                if h is None:
                    out.append((p, sig))
                else:
                    out.extend(self.run_handler(h, sig.exc, fr, p))
            elif sig is None:
                out.extend(self.exec_block(st.orelse, fr, p))
            else:
                out.append((p, sig))
        # implicit exceptions raised by something in the body
        if _may_raise_implicitly(st.body):
            for h in st.handlers:
                for (tn, cval) in self.handler_members(h, fr, entry):
                    q = entry.fork()
                    q.pc.append((App('implicit_exc', Const(tn),
                                     Const(getattr(st, 'lineno', 0))), True))
                    exc = q.fresh('exc', ('exc', tn))
                    if cval is not None:
                        exc.meta = ('exc-class', cval)
                    out.extend(self.run_handler(h, exc, fr, q))
        if st.finalbody:
            res = []
            for (p, sig) in out:
                for (q, s2) in self.exec_block(st.finalbody, fr, p):
                    res.append((q, s2 if s2 is not None else sig))
            out = res
        return out

    def handler_members(self, h, fr, path):
        """[(text, class value)] of the exception classes a handler names:
        `except (A, B)` and `except NAMES` (a tuple bound elsewhere) stand
        for one alternative per member"""
        if h.type is None:
            return [('BaseException', None)]
        if isinstance(h.type, ast.Tuple):
            out = []
            for e in h.type.elts:
                res = self.eval(e, fr, path.fork())
                out.append((ast.unparse(e),
                            res[0][1] if len(res) == 1 else None))
            return out
        res = self.eval(h.type, fr, path.fork())
        v = res[0][1] if len(res) == 1 else None
        if isinstance(v, Obj):
            items = self.concrete_iter(v, path)
            if items is not None:
                v = Tup(tuple(items))
        if isinstance(v, Tup) and v.items and all(
                isinstance(x, (CRef, ERef)) for x in v.items):
            return [((x.name if isinstance(x, ERef) else x.ci.name), x)
                    for x in v.items]
        return [(ast.unparse(h.type), v)]

    def exc_class(self, exc):
        if isinstance(exc, New):
            return exc.ci
        if isinstance(exc, CRef):
            return exc.ci
        if isinstance(exc, Obj):
            return None
        return None

    def match_handler(self, handlers, exc, fr, path):
        ci = self.exc_class(exc)
        for h in handlers:
            if h.type is None:
                return h
            names = [h.type] if not isinstance(h.type, ast.Tuple) \
                else h.type.elts
            for n in names:
                res = self.eval(n, fr, path)
                hv = res[0][1]
                if isinstance(hv, CRef):
                    if hv.ci.name in ('Exception', 'BaseException'):
                        return h
                    if ci is not None and (ci is hv.ci or
                                           hv.ci in ci.mro):
                        return h
                    if ci is None:
                        # unknown exception class: may match; be conservative
                        return h
                else:
                    if ci is None:
                        return h
        return None

    def run_handler(self, h, exc, fr, path):
        if h.name:
            self.assign_name(h.name, exc, fr, path)
        res = []
        for (p, sig) in self.exec_block(h.body, fr, path):
            if isinstance(sig, Raise) and isinstance(sig.exc, App) and \
                    sig.exc.op == 'reraise':
                sig = Raise(exc, sig.node)
            res.append((p, sig))
        return res

    def st_With(self, st, fr, path):
        # `with contextlib.suppress(A, B): BODY` is
        # `try: BODY  except (A, B): pass`
        if len(st.items) == 1 and st.items[0].optional_vars is None and \
                isinstance(st.items[0].context_expr, ast.Call) and \
                not st.items[0].context_expr.keywords:
            call = st.items[0].context_expr
            fv = self.eval_one(call.func, fr, path)
            if isinstance(fv, ERef) and fv.name == 'contextlib.suppress' \
                    and call.args:
                typ = call.args[0] if len(call.args) == 1 else ast.Tuple(
                    elts=list(call.args), ctx=ast.Load())
                h = ast.ExceptHandler(type=typ, name=None, body=[ast.Pass()])
                t = ast.Try(body=st.body, handlers=[h], orelse=[],
                            finalbody=[])
                for n in (typ, h, t, h.body[0]):
                    ast.copy_location(n, st)
                ast.fix_missing_locations(t)
                return self.exec_stmt(t, fr, path)
        self.inconclusive('with statement', st)

    def st_Assert(self, st, fr, path):
        return [(path, None)]

    def st_Delete(self, st, fr, path):
        for t in st.targets:
            self.event(path, 'delete', Const(ast.unparse(t)), None, (), st)
        return [(path, None)]

    def st_Global(self, st, fr, path):
        self.inconclusive('global statement', st)

    st_Nonlocal = st_Global

    # -- calling ------------------------------------------------------------
    def call_function(self, fref, args, kw, path, node, self_cls=None):
        """inline a package function -> list[(path, value|Raise)]"""
        fi = fref.fi
        fnode = fref.node
        if not getattr(fref, 'raw', False) and \
                isinstance(fnode, ast.FunctionDef) and fnode.decorator_list:
            decs = user_decorators(fnode)
            if decs and self.hooks.inline(self, fi, args):
                # (a function the rule keeps symbolic stays the named
                # function: its decorators do not matter to the caller)
                return self.call_decorated(fref, decs, args, kw, path, node)
        depth = len(self.stack)
        forced = id(fnode) in getattr(self, '_forced', ())
        if depth >= self.max_depth or \
                sum(1 for f in self.stack if f.node is fnode) >= getattr(
                    self.hooks, 'max_self_recursion', 2) or \
                not (forced or self.hooks.inline(self, fi, args)):
            args, kw = _positional_form(fnode, args, kw)
            v = App('call', fref, Tup(args), Tup(Tup((Const(k), a))
                                                  for k, a in kw))
            self.event(path, 'call', fref, None, (args, kw), node)
            return [(path, v)]
        fo = path.alloc('frame')
        h = path.heap[fo.oid]
        h.module = fi.module
        h.parent = fref.closure
        h.fnode = fnode
        h.self_cls = fi.owner
        err = self.bind_params(fnode, args, kw, h, path, fo.oid)
        if err is not None:
            return [(path, Raise(New(ExtClass('TypeError'),
                                     (Const('arity: ' + err),)), node))]
        is_gen = _is_generator(fnode)
        self.stack.append(fi)
        try:
            if isinstance(fnode, ast.Lambda):
                res = self.eval(fnode.body, fo.oid, path)
            elif is_gen:
                res = self.run_generator(fnode, fo.oid, path)
            else:
                res = []
                for (p, sig) in self.exec_block(fnode.body, fo.oid, path):
                    if sig is None:
                        res.append((p, Const(None)))
                    elif isinstance(sig, Raise):
                        res.append((p, sig))
                    elif isinstance(sig, tuple) and sig[0] == RET:
                        res.append((p, sig[1]))
                    else:
                        self.inconclusive('break/continue outside loop',
                                          fnode)
        finally:
            self.stack.pop()
        return res

    def call_decorated(self, fref, decs, args, kw, path, node):
        """f = d1(d2(raw)) for `@d1 @d2 def f`: the decorators (functions of
        the package) are applied, then the result is called"""
        fi = fref.fi
        raw = FRef(fi, closure=fref.closure, node=fref.node, raw=True)
        cur = [(path, raw)]
        for d in reversed(decs):
            nxt = []
            for (p, c) in cur:
                if isinstance(c, Raise):
                    nxt.append((p, c))
                    continue
                fr = fref.closure if fref.closure is not None else \
                    self.module_frame(fi.module, p)
                for (q, dv) in self.eval(d, fr, p):
                    if isinstance(dv, Raise):
                        nxt.append((q, dv))
                    elif isinstance(dv, (FRef, Bound)):
                        # the decorator itself and the wrapper it returns
                        # *are* the function being inlined
                        if not hasattr(self, '_forced'):
                            self._forced = set()
                        dn = dv.node if isinstance(dv, FRef) else dv.f.node
                        self._forced.add(id(dn))
                        for (q2, w) in self.call_value(dv, [c], [], q, node):
                            if isinstance(w, FRef):
                                self._forced.add(id(w.node))
                            nxt.append((q2, w))
                    else:
                        self.inconclusive('decorator `%s` of %s is not a '
                                          'function of the package' % (
                                              ast.unparse(d), fi.short()),
                                          node)
            cur = nxt
        out = []
        for (p, c) in cur:
            if isinstance(c, Raise):
                out.append((p, c))
            else:
                out.extend(self.call_value(c, args, kw, p, node))
        return out

    def run_generator(self, fnode, fr, path):
        """a generator function is summarised as the list of what it yields"""
        lst = path.alloc('list', site=fnode)
        path.heap[fr].vars['$yield'] = lst
        res = []
        for (p, sig) in self.exec_block(fnode.body, fr, path):
            if isinstance(sig, Raise):
                res.append((p, sig))
            else:
                res.append((p, App('gen', lst)))
        return res

    def bind_params(self, fnode, args, kw, h, path, fr):
        a = fnode.args
        params = [x.arg for x in a.posonlyargs + a.args]
        kw = dict(kw)
        args = list(args)
        if len(args) > len(params) and a.vararg is None:
            return 'too many positional arguments (%d > %d)' % (
                len(args), len(params))
        defaults = list(a.defaults)
        first_default = len(params) - len(defaults)
        for i, pn in enumerate(params):
            if i < len(args):
                h.vars[pn] = args[i]
                if pn in kw:
                    return 'multiple values for ' + pn
            elif pn in kw:
                h.vars[pn] = kw.pop(pn)
            elif i >= first_default:
                dn = defaults[i - first_default]
                h.vars[pn] = self.eval_one(dn, fr, path)
            else:
                return 'missing argument ' + pn
        if a.vararg is not None:
            h.vars[a.vararg.arg] = Tup(args[len(params):])
        for ka, kd in zip(a.kwonlyargs, a.kw_defaults):
            if ka.arg in kw:
                h.vars[ka.arg] = kw.pop(ka.arg)
            elif kd is not None:
                h.vars[ka.arg] = self.eval_one(kd, fr, path)
            else:
                return 'missing keyword argument ' + ka.arg
        if kw:
            if a.kwarg is None:
                return 'unexpected keyword ' + sorted(kw)[0]
            h.vars[a.kwarg.arg] = App('kwargs', Tup(
                Tup((Const(k), v)) for k, v in sorted(kw.items())))
        return None

    def st_YieldExpr(self, value, fr, path, spread=False):
        f = fr
        while f is not None and '$yield' not in path.heap[f].vars:
            f = path.heap[f].parent
        lst = path.heap[fr].vars.get('$yield')
        h = path.heap[lst.oid]
        gens = path.loops[h.loops_len:]
        conds = tuple(path.pc[h.pc_len:])
        h.parts.append(Part('spread' if spread else 'elem', value,
                            gens=[(l.var, l.iterable) for l in gens],
                            conds=conds))


def is_private_helper(fi, entry):
    """an underscore-named (non-dunder) function or method defined next to
    `entry` (same module): the product of an extract-helper refactoring,
    seen through by rules that otherwise inline only their entry"""
    n = fi.name
    return n.startswith('_') and not (n.startswith('__') and
                                      n.endswith('__')) and \
        fi.module is entry.module and fi is not entry


_PROLOGUE = {}


def prologue_helpers(entry):
    """qualified names of the private helpers next to `entry` that are not
    checking routines: non-recursive, reaching (through calls by name inside
    the module) neither a recursive function nor one that instantiates a
    class of the module.  Typical products of extract-helper refactorings
    of an entry point's prologue (parsing, casting, fairness set-up); rules
    that keep the checking core opaque interpret these."""
    key = entry.qn
    if key in _PROLOGUE:
        return _PROLOGUE[key]
    mod = entry.module
    calls, builds = {}, {}
    for name, f in mod.funcs.items():
        cs, b = set(), False
        for n in ast.walk(f.node):
            if isinstance(n, ast.Call) and isinstance(n.func, ast.Name):
                if n.func.id in mod.funcs:
                    cs.add(n.func.id)
                elif n.func.id in mod.classes:
                    b = True
        calls[name], builds[name] = cs, b
    reach = {k: set(v) for k, v in calls.items()}
    changed = True
    while changed:
        changed = False
        for k in reach:
            for m in list(reach[k]):
                new = reach[m] - reach[k]
                if new:
                    reach[k] |= new
                    changed = True
    rec = set(k for k in reach if k in reach[k])
    out = set()
    for k, f in mod.funcs.items():
        if f is entry or not is_private_helper(f, entry):
            continue
        if k in rec or (reach[k] & rec) or builds[k] or \
                any(builds[m] for m in reach[k]):
            continue
        out.add(f.qn)
    _PROLOGUE[key] = out
    return out


def _endless(it):
    """an iterator that never stops: itertools.count(..), itertools.cycle(x)
    of a non-empty x is not decided, itertools.repeat(x) with one argument"""
    if isinstance(it, App) and it.op == 'iter' and it.args:
        it = it.args[0]
    if isinstance(it, App) and it.op == 'call' and \
            isinstance(it.args[0], ERef):
        n = it.args[0].name
        nargs = len(it.args[1].items) if len(it.args) > 1 and \
            isinstance(it.args[1], Tup) else 0
        return n == 'itertools.count' or (n == 'itertools.repeat' and
                                          nargs == 1)
    return False


_NOOP_DECORATORS = ('staticmethod', 'classmethod', 'property',
                    'abstractmethod', 'abc.abstractmethod', 'wraps',
                    'functools.wraps')


def user_decorators(fnode):
    """decorator expressions that change what the name is bound to (the
    descriptor decorators are handled where attributes are looked up;
    functools.wraps only copies the name and docstring)"""
    out = []
    for d in fnode.decorator_list:
        f = d.func if isinstance(d, ast.Call) else d
        name = ast.unparse(f)
        if name in _NOOP_DECORATORS:
            continue
        if isinstance(f, ast.Attribute) and f.attr in ('setter', 'getter',
                                                       'deleter'):
            continue
        out.append(d)
    return out


class LoopFrame(object):
    def __init__(self, node, var, iterable, lid):
        self.node = node
        self.var = var
        self.iterable = iterable
        self.lid = lid
        self.updates = {}
        self._new = []
        self._read = []
        self.breaks = []        # path conditions under which `break` runs

    def __repr__(self):
        return 'Loop(%r in %r)' % (self.var, self.iterable)


def _as_load(t):
    t2 = ast.parse(ast.unparse(t), mode='eval').body
    return t2


def _assigned_names(body):
    names = []
    for st in body:
        for n in ast.walk(st):
            if isinstance(n, ast.Name) and isinstance(n.ctx, ast.Store):
                if n.id not in names:
                    names.append(n.id)
            if isinstance(n, (ast.FunctionDef, ast.Lambda)):
                pass
    return names


def _is_generator(fnode):
    if isinstance(fnode, ast.Lambda):
        return False
    for n in _walk_no_nested(fnode):
        if isinstance(n, (ast.Yield, ast.YieldFrom)):
            return True
    return False


def _walk_no_nested(fnode):
    todo = list(ast.iter_child_nodes(fnode))
    while todo:
        n = todo.pop()
        yield n
        if isinstance(n, (ast.FunctionDef, ast.Lambda, ast.ClassDef)):
            continue
        todo.extend(ast.iter_child_nodes(n))


def _may_raise_implicitly(body):
    for st in body:
        for n in ast.walk(st):
            if isinstance(n, (ast.Call, ast.Subscript, ast.Attribute,
                              ast.BinOp)):
                return True
    return False
