"""shared facts about the formula class lattice: languages, signatures of the
alphabet classes (resolved __init__, required operand class), constructor
summaries used as hooks by the template rules"""
import ast

from .program import AnalysisError, ClassInfo, ExtClass, Inconclusive
from .values import (Const, Sym, CRef, FRef, Bound, Obj, Tup, App, New,
                     Raise, BoundB)
from .fields import subformula_field, bool_value_field, height_field
from .interp import Interp, Hooks

LANGS = {'PL': 'PL.language', 'CTLS': 'CTLS.language',
         'CTL': 'CTL.language', 'LTL': 'LTL.language'}


class Sig(object):
    def __init__(self, ci):
        self.ci = ci
        self.kind = None            # 'op' | 'leaf'
        self.min_arity = 0
        self.max_arity = None
        self.required = None        # ClassInfo (FormulaClass handed to wrap)
        self.init = None            # FuncInfo of the resolved __init__
        self.wrap = None            # FuncInfo of the resolved wrap_subformulas
        self.leaf_type = None       # 'bool' | 'str'

    def __repr__(self):
        return 'Sig(%s %s %s..%s req=%s)' % (
            self.ci.short(), self.kind, self.min_arity, self.max_arity,
            self.required.short() if self.required else None)


class _SigHooks(Hooks):
    def __init__(self):
        self.calls = []

    def call(self, I, fv, args, kw, path, node):
        if isinstance(fv, Bound) and fv.f.fi.name == 'wrap_subformulas':
            self.calls.append((fv, args, path, node))
            return [(path, Const(None))]
        return None


def new_instance(I, ci, path):
    o = path.alloc('inst')
    path.heap[o.oid].ci = ci
    return o


def signature(prog, ci):
    """signature of alphabet class `ci`, read from the resolved __init__"""
    s = Sig(ci)
    init = prog.method(ci, '__init__')
    if init is None:
        raise AnalysisError('no __init__ resolved for %s' % ci.qn)
    s.init = init
    a = init.node.args
    npos = len(a.args) - 1
    s.min_arity = npos - len(a.defaults)
    s.max_arity = None if a.vararg is not None else npos
    hooks = _SigHooks()
    I = Interp(prog, hooks, rule='R-SORT-1')
    path = I.new_path()
    self_v = new_instance(I, ci, path)
    n = s.max_arity if s.max_arity is not None else max(2, s.min_arity)
    args = [Sym('phi%d' % i) for i in range(n)]
    I.call_function(FRef(init), [self_v] + args, [], path, init.node)
    if hooks.calls:
        reqs = set()
        for (fv, cargs, p, node) in hooks.calls:
            if len(cargs) < 2 or not isinstance(cargs[1], CRef):
                raise Inconclusive('R-SORT-1', 'FormulaClass argument of '
                                   'wrap_subformulas is not a class',
                                   init.where())
            reqs.add(cargs[1].ci)
            s.wrap = fv.f.fi
        if len(reqs) != 1:
            raise Inconclusive('R-SORT-1', 'several FormulaClass values',
                               init.where())
        s.kind = 'op'
        s.required = reqs.pop()
    else:
        s.kind = 'leaf'
        # which builtin type does the leaf demand?
        src = ast.unparse(init.node)
        for n in ast.walk(init.node):
            if isinstance(n, ast.Call) and isinstance(n.func, ast.Name) and \
                    n.func.id == 'isinstance' and len(n.args) == 2 and \
                    isinstance(n.args[1], ast.Name):
                s.leaf_type = n.args[1].id
    return s


_sig_cache = {}


def signatures(prog):
    """{lang: {name: Sig}} for the four languages"""
    key = id(prog)
    if key in _sig_cache:
        return _sig_cache[key]
    out = {}
    for lang, mod in LANGS.items():
        al = prog.alphabet(mod)
        out[lang] = {n: signature(prog, c) for n, c in sorted(al.items())}
    _sig_cache.clear()
    _sig_cache[key] = out
    return out


def lang_of_class(prog, ci):
    for lang, mod in LANGS.items():
        if ci.module.name == prog.module(mod).name:
            return lang
    return None


def is_formula_class(prog, ci):
    base = prog.cls('language.Formula')
    return isinstance(ci, ClassInfo) and ci.is_subclass_of(base)


class FormulaHooks(Hooks):
    """constructor calls of formula classes are summarised as New(ci, args)
    (arity checked against the resolved __init__); fields of such terms are
    read back from the arguments"""

    def __init__(self, prog, check_sorts=True):
        self.prog = prog
        self.sigs = {}
        for lang, d in signatures(prog).items():
            for n, s in d.items():
                self.sigs[s.ci.qn] = s
        self.base = prog.cls('language.Formula')
        self.check_sorts = check_sorts
        self.sort_errors = []

    def sig(self, ci):
        if ci.qn not in self.sigs:
            self.sigs[ci.qn] = signature(self.prog, ci)
        return self.sigs[ci.qn]

    def construct(self, I, ci, args, kw, path, node):
        if not (isinstance(ci, ClassInfo) and ci.is_subclass_of(self.base)):
            return None
        try:
            s = self.sig(ci)
        except (AnalysisError, Inconclusive):
            return None
        n = len(args)
        star = any(isinstance(a, App) and a.op == 'star' for a in args)
        if kw:
            return None
        if not star and (n < s.min_arity or
                         (s.max_arity is not None and n > s.max_arity)):
            return [(path, Raise(New(ExtClass('TypeError'), (Const(
                'arity: %s takes %s..%s operands, got %d' % (
                    ci.short(), s.min_arity, s.max_arity, n)),)), node))]
        if s.kind == 'op' and self.check_sorts:
            for a in args:
                ac = I.class_of(a, path)
                if isinstance(a, New) and isinstance(ac, ClassInfo) and \
                        ac.is_subclass_of(self.base) and \
                        not ac.is_subclass_of(s.required) and \
                        ac.module is ci.module:
                    self.sort_errors.append((ci, a, node))
                    return [(path, Raise(New(ExtClass('TypeError'), (Const(
                        'sort: %s requires %s, got %s' % (
                            ci.short(), s.required.short(), ac.short())),)),
                        node))]
        args = [self.leafify(I, ci, a, path) for a in args] \
            if s.kind == 'op' else args
        return [(path, New(ci, args))]

    def leafify(self, I, ci, a, path):
        """bool / str operands become Bool / AtomicProposition of the
        language (the documented shortcut of wrap_subformulas)"""
        if isinstance(a, Const) and isinstance(a.v, bool):
            al = self.prog.alphabet(ci.module.name)
            if 'Bool' in al:
                return New(al['Bool'], (a,))
        if isinstance(a, Const) and isinstance(a.v, str):
            al = self.prog.alphabet(ci.module.name)
            if 'AtomicProposition' in al:
                return New(al['AtomicProposition'], (a,))
        return a

    def getattr(self, I, v, name, path, node):
        if isinstance(v, New) and isinstance(v.ci, ClassInfo) and \
                v.ci.is_subclass_of(self.base):
            s = self.sig(v.ci)
            if name == subformula_field(self.prog) and s.kind == 'op':
                o = path.alloc('list')
                from .values import Part
                for a in v.args:
                    if isinstance(a, App) and a.op == 'star':
                        path.heap[o.oid].parts.append(Part('spread',
                                                           a.args[0]))
                    else:
                        path.heap[o.oid].parts.append(Part('elem', a))
                return o
            if name in ('name', bool_value_field(self.prog)) and \
                    s.kind == 'leaf' and v.args:
                return v.args[0]
            if name == height_field(self.prog):
                return App('height', v)
        return None
