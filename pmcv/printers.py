"""String-template domain: printer templates of the formula classes and the
printer grammar used for injectivity"""
import re

from .program import AnalysisError, Inconclusive, ClassInfo
from .values import (Const, Sym, CRef, FRef, Bound, Obj, Tup, App, New,
                     Raise, Coll, walk)
from .interp import Interp
from .formulas import FormulaHooks, LANGS
from .templates import make_hole
from .grammar import lr1_conflicts

ARITY = {'Not': [1], 'X': [1], 'F': [1], 'G': [1], 'A': [1], 'E': [1],
         'Imply': [2], 'U': [2], 'R': [2], 'Or': [2, 3], 'And': [2, 3]}


def flatten(v, path=None):
    """string-valued term -> list of str | ('hole', i); None if not a
    template"""
    if isinstance(v, Const):
        return [str(v.v)] if not isinstance(v.v, str) else [v.v]
    if isinstance(v, App):
        if v.op == 'str':
            a = v.args[0]
            if isinstance(a, Sym) and a.meta and a.meta[0] == 'hole':
                return [('hole', a.meta[1])]
            if isinstance(a, Sym) and a.meta and a.meta[0] in ('apname',
                                                               'leaf'):
                return [('leaf', a.meta[0])]
            return None
        if v.op == 'concat':
            a = flatten(v.args[0])
            b = flatten(v.args[1])
            return None if a is None or b is None else a + b
        if v.op == 'fmt':
            style, tmpl, args = v.args[0].v, v.args[1].v, v.args[2].items
            fl = [flatten(a) for a in args]
            if any(f is None for f in fl):
                return None
            if style == '%':
                parts = re.split(r'(%s)', tmpl)
            else:
                parts = re.split(r'(\{\})', tmpl)
            out = []
            k = 0
            for p in parts:
                if p in ('%s', '{}'):
                    if k >= len(fl):
                        return None
                    out.extend(fl[k])
                    k += 1
                elif p:
                    out.append(p)
            return out
        if v.op == 'join':
            sep = v.args[0]
            items = v.args[1]
            if not isinstance(sep, Const) or not isinstance(items, Tup):
                return None
            out = []
            for i, it in enumerate(items.items):
                f = flatten(it)
                if f is None:
                    return None
                if i:
                    out.append(sep.v)
                out.extend(f)
            return out
    if isinstance(v, Sym) and v.meta and v.meta[0] in ('apname', 'leaf'):
        return [('leaf', v.meta[0])]
    return None


def merge(pieces):
    out = []
    for p in pieces:
        if isinstance(p, str) and out and isinstance(out[-1], str):
            out[-1] += p
        elif p != '':
            out.append(p)
    return out


def templates(prog, lang, with_unary=False):
    """[(class name, arity, pieces, FuncInfo of the resolved __str__)];
    with_unary: also And(x) / Or(x) with a single operand (they can be built
    through the constructors, not through the parsers)"""
    al = prog.alphabet(LANGS[lang])
    out = []
    for name, ci in sorted(al.items()):
        f = prog.method(ci, '__str__')
        if f is None:
            raise AnalysisError('no __str__ for %s' % ci.qn)
        if name == 'Bool':
            for b in (True, False):
                v = _print(prog, ci, [Const(b)], f)
                out.append((name, b, _pieces(v, ci.short(), f), f))
            continue
        if name == 'AtomicProposition':
            v = _print(prog, ci, [Sym('apname', ('b', 'str'), ('apname',))],
                       f)
            out.append((name, 0, _pieces(v, ci.short(), f), f))
            continue
        ns = ARITY.get(name, [1, 2])
        if with_unary and name in ('Or', 'And'):
            ns = [1] + list(ns)
        for n in ns:
            holes = [make_hole(prog, i, lang) for i in range(n)]
            v = _print(prog, ci, holes, f)
            out.append((name, n, _pieces(v, ci.short(), f), f))
    return out


def truncations(v):
    """slices of the printed form of an operand inside a printed value:
    [(operand index, text of the slice)]"""
    out = []
    for x in walk(v):
        if isinstance(x, App) and x.op == 'item' and len(x.args) == 2 and \
                isinstance(x.args[1], App) and x.args[1].op == 'slice':
            for y in walk(x.args[0]):
                if isinstance(y, Sym) and y.meta and y.meta[0] == 'hole':
                    out.append((y.meta[1], repr(x.args[1])))
    return out


def _print(prog, ci, args, f):
    hooks = FormulaHooks(prog, check_sorts=False)
    I = Interp(prog, hooks, rule='printer')
    path = I.new_path()
    res = I.call_function(FRef(f), [New(ci, args)], [], path, f.node)
    res = [(p, v) for (p, v) in res if not isinstance(v, Raise)]
    if len(res) != 1:
        # a printer that decides by looking at its operands: if one of its
        # outcomes cuts characters off an operand's printed form, that
        # outcome is the template reported
        for (p, v) in res:
            v = I.snapshot_deep(v, p)
            if truncations(v):
                return v
        raise Inconclusive('printer', '%d paths printing %s' % (len(res),
                                                                ci.short()),
                           f.where())
    return I.snapshot_deep(res[0][1], res[0][0])


def _pieces(v, what, f):
    """template pieces of a printed value; an operand whose printed form is
    cut gives a ('truncated', i, how) piece; anything else that is not
    understood is no verdict"""
    fl = flatten(v)
    if fl is not None:
        return merge(fl)
    tr = truncations(v)
    if tr:
        return [('truncated', tr[0][0], tr[0][1])]
    raise Inconclusive('printer', 'printed form of %s not understood: %s' % (
        what, repr(v)[:160]), f.where())


DELIMS = ' ()'


def delimiter_problems(pieces):
    """every child / atom must be delimited by a blank or a parenthesis so
    that token boundaries in the printed text are those of the template"""
    probs = []
    for i, p in enumerate(pieces):
        if isinstance(p, tuple) and p[0] == 'truncated':
            probs.append('the printed form of operand %d is cut (%s): a '
                         'nested operator loses its delimiters, so different '
                         'trees are printed alike and the text parses back '
                         'to another tree' % (p[1], p[2]))
            continue
        if isinstance(p, tuple):
            before = pieces[i - 1] if i > 0 else None
            after = pieces[i + 1] if i + 1 < len(pieces) else None
            if isinstance(before, str) and before[-1] not in DELIMS:
                probs.append('child %r directly follows %r' % (p, before))
            if isinstance(before, tuple):
                probs.append('two children are adjacent')
            if isinstance(after, str) and after[0] not in DELIMS:
                probs.append('child %r is directly followed by %r' % (p,
                                                                      after))
    return probs


WORD = re.compile(r'[A-Za-z_][A-Za-z_0-9]*|-->|\S')


def generic_tokens(text):
    return WORD.findall(text)


def inline_undelimited(tmpls, accepts=None):
    """a child printed without a delimiter (CTL's `A` + child) is replaced
    by each template the child can have, so that token boundaries of the
    printed text are decided"""
    by_name = {}
    for t in tmpls:
        by_name.setdefault(t[0], []).append(t)
    out = []
    inlined = []
    for (name, n, pieces, f) in tmpls:
        probs = delimiter_problems(pieces)
        if not probs:
            out.append((name, n, pieces, f))
            continue
        # which hole is glued?
        glued = [i for i, p in enumerate(pieces) if isinstance(p, tuple) and
                 p[0] == 'hole' and i > 0 and isinstance(pieces[i - 1], str)
                 and pieces[i - 1][-1] not in DELIMS]
        if len(glued) != 1 or len(probs) != 1:
            out.append((name, n, pieces, f))
            continue
        gi = glued[0]
        kids = sorted(accepts.get(name, by_name)) if accepts else \
            sorted(by_name)
        for kn in kids:
            for (cn, cnn, cp, cf) in by_name.get(kn, []):
                # renumber the child's holes after the parent's
                base = 10 * (1 + len(inlined))
                cp2 = [(q[0], q[1] + base) if isinstance(q, tuple) and
                       q[0] == 'hole' else q for q in cp]
                np_ = merge(pieces[:gi] + cp2 + pieces[gi + 1:])
                out.append(('%s.%s' % (name, cn), (n, cnn), np_, f))
                inlined.append((name, cn))
    return out, inlined


def printer_grammar(tmpls, reserved=None, accepts=None):
    """the printers read as a grammar over the canonical tokens of the
    printed text (maximal identifiers, parentheses, operator symbols): one
    production per class and arity branch, n-ary operators as a
    left-recursive list.  An identifier literal that is not a reserved word
    can also be the spelling of an atom."""
    tmpls, inlined = inline_undelimited(tmpls, accepts)
    rules = []
    problems = []
    by_name = {}
    for (name, n, pieces, f) in tmpls:
        for pr in delimiter_problems(pieces):
            problems.append('%s: %s' % (name, pr))
        by_name.setdefault(name, {})[n] = pieces
    lits = set()
    for name, d in sorted(by_name.items()):
        if name == 'AtomicProposition':
            rules.append(('F', ['ATOM'], name))
            continue
        if name == 'Bool':
            for b, pieces in d.items():
                toks = []
                for p in pieces:
                    toks.extend(generic_tokens(p) if isinstance(p, str)
                                else ['?'])
                rules.append(('F', ['<%s>' % t for t in toks],
                              'Bool:%s' % b))
                lits.update(toks)
            continue
        if any(isinstance(q, tuple) and q[0] == 'truncated'
               for pieces in d.values() for q in pieces):
            continue        # reported by delimiter_problems
        if set(d) == {2, 3}:
            p2, p3 = d[2], d[3]
            t2 = _toks(p2)
            t3 = _toks(p3)
            try:
                i0 = t2.index(('hole', 0))
                i1 = t2.index(('hole', 1))
                sep = t2[i0 + 1:i1]
                exp3 = t2[:i1 + 1] + sep + [('hole', 2)] + t2[i1 + 1:]
                if exp3 != t3:
                    problems.append('%s: the 3-ary print is not the 2-ary '
                                    'one with one more operand' % name)
                lst = 'L_' + name
                rules.append(('F', _sym(t2[:i0]) + ['F', lst] +
                              _sym(t2[i1 + 1:]), name))
                rules.append((lst, _sym(sep) + ['F'], name + ':list1'))
                rules.append((lst, [lst] + _sym(sep) + ['F'],
                              name + ':list+'))
                lits.update(t for t in t2 if isinstance(t, str))
            except ValueError:
                problems.append('%s: n-ary template without both children'
                                % name)
            continue
        for n, pieces in d.items():
            tk = _toks(pieces)
            rules.append(('F', _sym(tk), '%s/%s' % (name, n)))
            lits.update(t for t in tk if isinstance(t, str))
    # identifier literals that are not reserved words may be atoms as well
    if reserved is not None:
        for t in sorted(lits):
            if re.match(r'^[A-Za-z_][A-Za-z_0-9]*$', t) and \
                    t not in reserved:
                rules.append(('F', ['<%s>' % t], 'atom-spelled:' + t))
    return rules, problems, inlined


def _toks(pieces):
    out = []
    for p in pieces:
        if isinstance(p, str):
            out.extend(generic_tokens(p))
        else:
            out.append(p)
    return out


def _sym(toks):
    return ['F' if isinstance(t, tuple) and t[0] == 'hole'
            else ('ATOM' if isinstance(t, tuple) else '<%s>' % t)
            for t in toks]


def injectivity(tmpls, reserved=None, accepts=None):
    rules, problems, inlined = printer_grammar(tmpls, reserved, accepts)
    conflicts, nstates = lr1_conflicts(rules, 'F')
    return rules, problems, conflicts, nstates
