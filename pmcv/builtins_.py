"""expression evaluation and builtin semantics for the abstract interpreter"""
import ast

from .program import ClassInfo, ExtClass, FuncInfo, Inconclusive
from .values import (V, Const, Sym, CRef, FRef, MRef, ERef, BRef, Bound,
                     BoundB, Obj, Tup, App, New, Coll, Part, Raise, walk)

CMP = {ast.Eq: '==', ast.NotEq: '!=', ast.Lt: '<', ast.LtE: '<=',
       ast.Gt: '>', ast.GtE: '>=', ast.Is: 'is', ast.IsNot: 'is not',
       ast.In: 'in', ast.NotIn: 'not in'}
BIN = {ast.Add: '+', ast.Sub: '-', ast.Mult: '*', ast.Div: '/',
       ast.Mod: '%', ast.BitOr: '|', ast.BitAnd: '&', ast.BitXor: '^',
       ast.FloorDiv: '//', ast.Pow: '**', ast.LShift: '<<',
       ast.RShift: '>>'}
DUNDER = {'|': '__or__', '&': '__and__', '^': '__xor__', '-': '__sub__',
          '+': '__add__'}
RDUNDER = {'|': '__ror__', '&': '__rand__'}

SET_MUTATORS = ('add', 'update', 'discard', 'remove', 'clear', 'pop',
                'difference_update', 'intersection_update',
                'symmetric_difference_update')
LIST_MUTATORS = ('append', 'extend', 'pop', 'remove', 'insert', 'sort',
                 'reverse', 'clear')
DICT_MUTATORS = ('update', 'pop', 'clear', 'setdefault', 'popitem')
MUTATORS = set(SET_MUTATORS + LIST_MUTATORS + DICT_MUTATORS)


# documented hierarchy of the third-party exception classes the package
# handles (lark 0.12 `lark.exceptions`): name -> direct bases
EXT_EXC_BASES = {
    'lark.exceptions.LarkError': ('Exception',),
    'lark.exceptions.ParseError': ('lark.exceptions.LarkError',),
    'lark.exceptions.LexError': ('lark.exceptions.LarkError',),
    'lark.exceptions.UnexpectedInput': ('lark.exceptions.LarkError',),
    'lark.exceptions.UnexpectedEOF': ('lark.exceptions.ParseError',
                                      'lark.exceptions.UnexpectedInput'),
    'lark.exceptions.UnexpectedCharacters': (
        'lark.exceptions.LexError', 'lark.exceptions.UnexpectedInput'),
    'lark.exceptions.UnexpectedToken': ('lark.exceptions.ParseError',
                                        'lark.exceptions.UnexpectedInput'),
    'Exception': ('BaseException',),
}


def _ext_ancestors(name):
    out = set([name])
    todo = [name]
    while todo:
        n = todo.pop()
        for b in EXT_EXC_BASES.get(n, ()):
            if b not in out:
                out.add(b)
                todo.append(b)
    return out


def _exc_name(cv):
    if isinstance(cv, ERef):
        return cv.name
    if isinstance(cv, CRef) and isinstance(cv.ci, ExtClass):
        return cv.ci.name
    return None


def exc_isinstance(caught, cv):
    """is an exception caught by `except <caught>` an instance of cv?
    True / False / None (unknown)"""
    if caught == cv:
        return True
    if isinstance(caught, CRef) and isinstance(cv, CRef) and \
            isinstance(caught.ci, ClassInfo):
        if caught.ci.is_subclass_of(cv.ci):
            return True
        return None
    a, b = _exc_name(caught), _exc_name(cv)
    if a in EXT_EXC_BASES and b is not None:
        if b in _ext_ancestors(a):
            return True
        if b in EXT_EXC_BASES and a not in _ext_ancestors(b):
            # unrelated documented classes (no common subclass in lark)
            return False
    return None


OPERATOR_FUNCS = {
    'operator.and_': ast.BitAnd, 'operator.or_': ast.BitOr,
    'operator.xor': ast.BitXor, 'operator.add': ast.Add,
    'operator.sub': ast.Sub, 'operator.mul': ast.Mult,
    'operator.__and__': ast.BitAnd, 'operator.__or__': ast.BitOr,
}


class BuiltinsMixin(object):

    observer = None

    def obs(self, kind, operands, path, node):
        if self.observer is not None:
            self.observer(self, kind, operands, path, node)

    # ------------------------------------------------------------------
    def eval(self, node, fr, path):
        m = getattr(self, 'ex_' + node.__class__.__name__, None)
        if m is None:
            self.inconclusive('expression ' + node.__class__.__name__, node)
        return m(node, fr, path)

    def eval_one(self, node, fr, path):
        """value of an expression that must have exactly one outcome on
        `path` (defaults, slice bounds, keys): anything else is outside the
        interpreted fragment"""
        res = self.eval(node, fr, path)
        if len(res) != 1 or res[0][0] is not path or \
                isinstance(res[0][1], Raise):
            self.inconclusive('expression with several outcomes where one '
                              'is expected: %s' % ast.unparse(node)[:60],
                              node)
        return res[0][1]

    def eval_seq(self, nodes, fr, path):
        """-> list[(path, [values] | Raise)]"""
        cur = [(path, [])]
        for n in nodes:
            nxt = []
            for (p, vs) in cur:
                if isinstance(vs, Raise):
                    nxt.append((p, vs))
                    continue
                if isinstance(n, ast.Starred):
                    for (q, v) in self.eval(n.value, fr, p):
                        if isinstance(v, Raise):
                            nxt.append((q, v))
                            continue
                        items = self.concrete_iter(v, q)
                        if items is None:
                            nxt.append((q, vs + [App('star', v)]))
                        else:
                            nxt.append((q, vs + items))
                    continue
                for (q, v) in self.eval(n, fr, p):
                    if isinstance(v, Raise):
                        nxt.append((q, v))
                    else:
                        nxt.append((q, vs + [v]))
            cur = nxt
        return cur

    def ex_Constant(self, node, fr, path):
        return [(path, Const(node.value))]

    def ex_Name(self, node, fr, path):
        return [(path, self.lookup(node.id, fr, path, node))]

    def ex_Tuple(self, node, fr, path):
        return [(p, vs if isinstance(vs, Raise) else Tup(vs))
                for (p, vs) in self.eval_seq(node.elts, fr, path)]

    def _mk_coll(self, kind, vals, path, node):
        o = path.alloc(kind, site=node)
        h = path.heap[o.oid]
        for v in vals:
            if isinstance(v, App) and v.op == 'star':
                h.parts.append(Part('spread', v.args[0]))
            elif kind == 'set' and any(p.simple() and p.val == v
                                       for p in h.parts):
                pass
            else:
                h.parts.append(Part('elem', v))
        return o

    def ex_List(self, node, fr, path):
        return [(p, vs if isinstance(vs, Raise)
                 else self._mk_coll('list', vs, p, node))
                for (p, vs) in self.eval_seq(node.elts, fr, path)]

    def ex_Set(self, node, fr, path):
        return [(p, vs if isinstance(vs, Raise)
                 else self._mk_coll('set', vs, p, node))
                for (p, vs) in self.eval_seq(node.elts, fr, path)]

    def ex_Dict(self, node, fr, path):
        out = []
        for (p, ks) in self.eval_seq([k for k in node.keys], fr, path):
            if isinstance(ks, Raise):
                out.append((p, ks))
                continue
            for (q, vs) in self.eval_seq(node.values, fr, p):
                if isinstance(vs, Raise):
                    out.append((q, vs))
                    continue
                o = q.alloc('dict', site=node)
                for k, v in zip(ks, vs):
                    q.heap[o.oid].parts.append(Part('elem', v, key=k))
                out.append((q, o))
        return out

    def ex_Lambda(self, node, fr, path):
        module = path.heap[fr].module
        fi = FuncInfo(module, node, None, qual='<lambda>@%d' % node.lineno)
        fi.name = '<lambda>'
        return [(path, FRef(fi, closure=fr, node=node))]

    def ex_IfExp(self, node, fr, path):
        out = []
        for (p, c) in self.eval(node.test, fr, path):
            if isinstance(c, Raise):
                out.append((p, c))
                continue
            t = self.truth(c, p)
            if t is True:
                out.extend(self.eval(node.body, fr, p))
            elif t is False:
                out.extend(self.eval(node.orelse, fr, p))
            else:
                # keep as one symbolic value (no fork) when both arms are
                # simple; fork otherwise
                a = self.eval(node.body, fr, p.fork())
                b = self.eval(node.orelse, fr, p.fork())
                def pure(res):
                    # one outcome, no exception, nothing allocated, logged
                    # or assumed while evaluating the arm
                    if len(res) != 1 or isinstance(res[0][1], Raise):
                        return False
                    q, v = res[0]
                    if len(q.log) != len(p.log) or len(q.pc) != len(p.pc) \
                            or len(q.heap) != len(p.heap):
                        return False
                    return not any(isinstance(x, Obj) and x.oid not in p.heap
                                   for x in walk(v))
                if pure(a) and pure(b):
                    out.append((p, App('ite', c, a[0][1], b[0][1])))
                else:
                    for (q, tr) in self.branch(c, p):
                        out.extend(self.eval(node.body if tr
                                             else node.orelse, fr, q))
        return out

    def ex_BoolOp(self, node, fr, path):
        is_and = isinstance(node.op, ast.And)
        cur = [(path, [])]
        for vn in node.values:
            nxt = []
            for (p, acc) in cur:
                if isinstance(acc, (Raise, _Done)):
                    nxt.append((p, acc))
                    continue
                for (q, v) in self.eval(vn, fr, p):
                    if isinstance(v, Raise):
                        nxt.append((q, v))
                        continue
                    t = self.truth(v, q)
                    if t is None:
                        nxt.append((q, acc + [v]))
                    elif t == is_and:
                        # neutral element: drop unless last
                        nxt.append((q, acc + [v]) if vn is node.values[-1]
                                   and not acc else (q, acc))
                    else:
                        nxt.append((q, _Done(acc + [v])))
            cur = nxt
        out = []
        for (p, acc) in cur:
            if isinstance(acc, Raise):
                out.append((p, acc))
                continue
            vals = acc.vals if isinstance(acc, _Done) else acc
            if len(vals) == 0:
                out.append((p, Const(is_and)))
            elif len(vals) == 1:
                out.append((p, vals[0]))
            else:
                out.append((p, App('and' if is_and else 'or', *vals)))
        return out

    def ex_UnaryOp(self, node, fr, path):
        out = []
        for (p, v) in self.eval(node.operand, fr, path):
            if isinstance(v, Raise):
                out.append((p, v))
                continue
            if isinstance(node.op, ast.Not):
                t = self.truth(v, p)
                if t is not None:
                    out.append((p, Const(not t)))
                elif isinstance(v, App) and v.op == 'not':
                    out.append((p, App('bool', v.args[0])))
                elif isinstance(v, App) and v.op == 'cmp' and \
                        v.args[0].v in NEG_CMP:
                    out.append((p, App('cmp', Const(NEG_CMP[v.args[0].v]),
                                       v.args[1], v.args[2])))
                else:
                    # (a container is described as it is now)
                    out.append((p, App('not', self.snapshot(v, p)
                                       if isinstance(v, Obj) else v)))
            elif isinstance(node.op, ast.Invert):
                out.extend(self.call_dunder(v, '__invert__', [], p, node,
                                            App('invert', v)))
            elif isinstance(node.op, ast.USub):
                if isinstance(v, Const) and isinstance(v.v, (int, float)):
                    out.append((p, Const(-v.v)))
                else:
                    out.append((p, App('neg', v)))
            else:
                out.append((p, App('pos', v)))
        return out

    def call_dunder(self, v, name, args, path, node, default):
        ci = self.class_of(v, path)
        if isinstance(ci, ClassInfo):
            f = self.prog.method(ci, name)
            if f is not None:
                return self.call_value(Bound(v, FRef(f)), args, [], path,
                                       node)
        return [(path, default)]

    def ex_BinOp(self, node, fr, path):
        out = []
        for (p, vs) in self.eval_seq([node.left, node.right], fr, path):
            if isinstance(vs, Raise):
                out.append((p, vs))
            else:
                out.extend(self.binop(node.op, vs[0], vs[1], p, node))
        return out

    def binop(self, op, a, b, path, node, inplace=False):
        sym = BIN[type(op)]
        if sym in ('+', '-', '*', '/', '//', '**', '<<', '>>'):
            self.obs('arith', (a, b), path, node)
        if isinstance(a, Const) and isinstance(b, Const):
            try:
                return [(path, Const(eval('a %s b' % sym,
                                          {'a': a.v, 'b': b.v})))]
            except Exception:
                pass
        # string formatting / concatenation
        if sym == '%' and isinstance(a, Const) and isinstance(a.v, str):
            args = list(b.items) if isinstance(b, Tup) else [b]
            return [(path, self.str_format('%', a.v, args, path, node))]
        if sym == '+' and (self.is_strlike(a) or self.is_strlike(b)):
            return [(path, App('concat', a, b))]
        if sym == '+' and isinstance(a, Tup) and isinstance(b, Tup):
            return [(path, Tup(a.items + b.items))]
        if sym == '*' and isinstance(a, Const) and isinstance(a.v, str):
            return [(path, App('strrep', a, b))]
        # user defined operators
        ci = self.class_of(a, path)
        if isinstance(ci, ClassInfo) and sym in DUNDER:
            f = self.prog.method(ci, DUNDER[sym])
            if f is not None:
                return self.call_value(Bound(a, FRef(f)), [b], [], path, node)
        cb = self.class_of(b, path)
        if isinstance(cb, ClassInfo) and sym in RDUNDER and \
                not isinstance(ci, ClassInfo):
            f = self.prog.method(cb, RDUNDER[sym])
            if f is not None:
                return self.call_value(Bound(b, FRef(f)), [a], [], path, node)
        # lists:  xs += ys  extends xs in place;  xs + ys  is a new list
        if sym == '+' and isinstance(a, Obj) and \
                path.heap[a.oid].kind == 'list':
            if inplace:
                self.container_method(a, 'extend', [b], path, node)
                return [(path, a)]
            o = path.alloc('list', site=node)
            path.heap[o.oid].parts = list(path.heap[a.oid].parts)
            self.container_method(o, 'extend', [b], path, node)
            return [(path, o)]
        if sym == '+' and inplace and isinstance(a, (Sym, App)) and \
                self.is_setlike(a, path):
            self.event(path, 'mutate', a, 'extend', (b,), node)
            return [(path, a)]
        # sets
        if sym in ('|', '&', '-', '^') and (
                self.is_setlike(a, path) or self.is_setlike(b, path)):
            if inplace and isinstance(a, Obj) and \
                    path.heap[a.oid].kind == 'set':
                name = {'|': 'update', '&': 'intersection_update',
                        '-': 'difference_update',
                        '^': 'symmetric_difference_update'}[sym]
                self.container_method(a, name, [b], path, node)
                return [(path, a)]
            if inplace and isinstance(a, (Sym, App)) and \
                    self.is_setlike(a, path):
                # in-place operator on a set that is not ours
                name = {'|': 'update', '&': 'intersection_update',
                        '-': 'difference_update',
                        '^': 'symmetric_difference_update'}[sym]
                self.event(path, 'mutate', a, name, (b,), node)
                return [(path, a)]
            ca = self.concrete_iter(a, path) if self.is_set(a, path) else None
            cb_ = self.concrete_iter(b, path) if self.is_set(b, path) else None
            if ca is not None and cb_ is not None:
                if sym == '|':
                    r = ca + [x for x in cb_ if x not in ca]
                elif sym == '&':
                    r = [x for x in ca if x in cb_]
                elif sym == '-':
                    r = [x for x in ca if x not in cb_]
                else:
                    r = [x for x in ca if x not in cb_] + \
                        [x for x in cb_ if x not in ca]
                if all(isinstance(x, Const) for x in ca + cb_):
                    return [(path, self._mk_coll('set', r, path, node))]
            o = path.alloc('set', site=node)
            path.heap[o.oid].parts.append(
                Part('spread', App('setop', Const(sym),
                                   self.snapshot(a, path),
                                   self.snapshot(b, path))))
            return [(path, o)]
        if inplace and sym in ('|', '&', '-', '^', '+') and \
                isinstance(a, (Sym, App)) and \
                not (isinstance(a, Sym) and a.typ in (('b', 'int'),
                                                      ('b', 'bool'),
                                                      ('b', 'str'))):
            # x op= y on an object of unknown class: in place if the class
            # has __iop__ (set, list, ...); recorded for the purity clauses
            self.event(path, 'maybe-mutate', a, 'i' + sym, (b,), node)
        return [(path, App('binop', Const(sym), a, b))]

    def is_strlike(self, v):
        if isinstance(v, Const):
            return isinstance(v.v, str)
        if isinstance(v, App):
            return v.op in ('fmt', 'concat', 'str', 'join', 'strrep')
        if isinstance(v, Sym) and v.typ == ('b', 'str'):
            return True
        return False

    def is_setlike(self, v, path):
        if isinstance(v, Obj):
            return path.heap[v.oid].kind in ('set', 'dict', 'list')
        if isinstance(v, Coll):
            return True
        if isinstance(v, App) and v.op in ('setop', 'nodes', 'next', 'reach',
                                           'labels', 'alllabels', 'sources',
                                           'dictview', 'edges'):
            return True
        t = self.typeof(v, path) if isinstance(v, (Sym, App)) else None
        return t is not None and t[0] == 'b' and t[1] in ('set', 'dict',
                                                         'list')

    def is_set(self, v, path):
        if isinstance(v, Obj):
            return path.heap[v.oid].kind == 'set'
        return False

    def str_format(self, style, template, args, path, node, kw=()):
        """keep format strings symbolic but with inlined __str__ of package
        objects"""
        sargs = []
        for a in args:
            sargs.append(self.to_str(a, path, node))
        skw = [(k, self.to_str(a, path, node)) for (k, a) in (kw or ())]
        if all(isinstance(a, Const) for a in sargs) and \
                all(k is not None and isinstance(a, Const)
                    for (k, a) in skw):
            try:
                if style == '%':
                    return Const(template % tuple(a.v for a in sargs))
                return Const(template.format(
                    *[a.v for a in sargs], **{k: a.v for (k, a) in skw}))
            except Exception:
                return App('fmt-error', Const(template), Tup(sargs))
        if skw:
            return App('fmtkw', Const(template), Tup(sargs),
                       Tup([Tup((Const(k), a)) for (k, a) in skw]))
        return App('fmt', Const(style), Const(template), Tup(sargs))

    def to_str(self, v, path, node):
        self.obs('str', (v,), path, node)
        """str(v) as a value (single path; forks inside __str__ are not
        expected)"""
        if isinstance(v, Const):
            if isinstance(v.v, str):
                return v
            return Const(str(v.v))
        if self.is_strlike(v):
            return v
        ci = self.class_of(v, path)
        if isinstance(ci, ClassInfo):
            f = self.prog.method(ci, '__str__')
            if f is not None and len(self.stack) < self.max_depth and \
                    self.hooks.inline(self, f, [v]):
                trial = path.fork()
                n0 = len(trial.pc)
                try:
                    res = self.call_value(Bound(v, FRef(f)), [], [], trial,
                                          node)
                except Exception:
                    res = []
                res = [(p, r) for (p, r) in res if not isinstance(r, Raise)]
                if len(res) == 1 and len(res[0][0].pc) == n0 and \
                        not isinstance(res[0][1], Obj):
                    return res[0][1]
        return App('str', v)

    def ex_Compare(self, node, fr, path):
        out = []
        for (p, vs) in self.eval_seq([node.left] + node.comparators, fr,
                                     path):
            if isinstance(vs, Raise):
                out.append((p, vs))
                continue
            results = [(p, [])]
            for i, op in enumerate(node.ops):
                nxt = []
                for (q, acc) in results:
                    for (r, v) in self.compare(CMP[type(op)], vs[i],
                                               vs[i + 1], q, node):
                        if isinstance(v, Raise):
                            out.append((r, v))
                        else:
                            nxt.append((r, acc + [v]))
                results = nxt
            for (q, acc) in results:
                if len(acc) == 1:
                    out.append((q, acc[0]))
                else:
                    out.append((q, App('and', *acc)))
        return out

    def compare(self, op, a, b, path, node):
        if op in ('<', '>', '<=', '>='):
            self.obs('order', (a, b), path, node)
        elif op in ('==', '!='):
            self.obs('eq', (a, b), path, node)
        elif op in ('in', 'not in'):
            self.obs('in', (a,), path, node)
        if op in ('is', 'is not'):
            r = self.identical(a, b, path)
            if r is not None:
                return [(path, Const(r if op == 'is' else not r))]
            return [(path, App('cmp', Const(op), a, b))]
        if op in ('==', '!='):
            if isinstance(a, Const) and isinstance(b, Const):
                return [(path, Const((a.v == b.v) == (op == '==')))]
            ca = self.concrete_value(a, path)
            cb = self.concrete_value(b, path)
            if ca is not None and cb is not None:
                return [(path, Const((ca == cb) == (op == '==')))]
            ci = self.class_of(a, path)
            if isinstance(ci, ClassInfo):
                f = self.prog.method(ci, '__eq__')
                if f is not None and self.hooks.inline(self, f, [a, b]):
                    res = self.call_value(Bound(a, FRef(f)), [b], [], path,
                                          node)
                    if op == '!=':
                        res = [(p, v if isinstance(v, Raise) else
                                self._not(v, p)) for (p, v) in res]
                    return res
            if a == b and not isinstance(a, (App,)):
                return [(path, Const(op == '=='))]
            return [(path, App('cmp', Const(op), a, b))]
        if op in ('in', 'not in'):
            r = self.contains(b, a, path, node)
            if op == 'not in':
                r = [(p, v if isinstance(v, Raise) else self._not(v, p))
                     for (p, v) in r]
            return r
        if isinstance(a, Const) and isinstance(b, Const):
            try:
                return [(path, Const(eval('a %s b' % op,
                                          {'a': a.v, 'b': b.v})))]
            except Exception:
                pass
        if isinstance(a, App) and a.op == 'boolsum' and \
                isinstance(b, Const) and isinstance(b.v, int):
            anyv = App('or', *a.args) if len(a.args) > 1 else a.args[0]
            if (op, b.v) in (('>', 0), ('>=', 1), ('!=', 0)):
                return [(path, anyv)]
            if (op, b.v) in (('==', 0), ('<', 1), ('<=', 0)):
                return [(path, self._not(anyv, path))]
        return [(path, App('cmp', Const(op), a, b))]

    def concrete_value(self, v, path):
        """python value of a concrete container of constants (for ==)"""
        if isinstance(v, App) and v.op == 'dictview' and \
                isinstance(v.args[1], Obj):
            h = path.heap[v.args[1].oid]
            if h.kind == 'dict' and h.concrete() and all(
                    isinstance(p.key, Const) for p in h.parts):
                k = v.args[0].v
                if k == 'keys':
                    return ('keys', frozenset(p.key.v for p in h.parts))
                if k == 'values' and all(isinstance(p.val, Const)
                                         for p in h.parts):
                    return ('values', tuple(p.val.v for p in h.parts))
            return None
        if not isinstance(v, Obj):
            return None
        h = path.heap[v.oid]
        if h.kind not in ('list', 'set', 'dict') or not h.concrete():
            return None
        if h.kind == 'dict':
            if all(isinstance(p.key, Const) and isinstance(p.val, Const)
                   for p in h.parts):
                return ('dict', frozenset((p.key.v, p.val.v)
                                          for p in h.parts))
            return None
        if all(isinstance(p.val, Const) for p in h.parts):
            if h.kind == 'set':
                return ('set', frozenset(p.val.v for p in h.parts))
            return ('list', tuple(p.val.v for p in h.parts))
        return None

    def _not(self, v, path):
        if isinstance(v, Const):
            return Const(not v.v)
        if isinstance(v, App) and v.op == 'not':
            return v.args[0]
        if isinstance(v, App) and v.op == 'cmp' and v.args[0].v in NEG_CMP:
            return App('cmp', Const(NEG_CMP[v.args[0].v]), v.args[1],
                       v.args[2])
        return App('not', v)

    def identical(self, a, b, path):
        if isinstance(a, Const) and isinstance(b, Const):
            if a.v is None or b.v is None or isinstance(a.v, bool) or \
                    isinstance(b.v, bool):
                return a.v is b.v
            return None
        if isinstance(a, Const) and a.v is None:
            a, b = b, a
        if isinstance(b, Const) and b.v is None:
            if isinstance(a, (Obj, New, CRef, FRef, MRef, Tup, Coll, Bound)):
                return False
            if isinstance(a, Const):
                return a.v is None
            if isinstance(a, Sym) and a.typ is not None:
                return False
            if isinstance(a, App) and a.op in ('fmt', 'concat', 'str',
                                               'join', 'strrep', 'range',
                                               'len', 'cmp', 'not'):
                return False
            return None
        if isinstance(a, Obj) and isinstance(b, Obj):
            return a.oid == b.oid
        if isinstance(a, (CRef, MRef)) and isinstance(b, (CRef, MRef)):
            return a == b
        if a == b and isinstance(a, Sym):
            return True
        if a == b and isinstance(a, App) and a.op in ('attr', 'item'):
            return True
        return None

    def contains(self, container, item, path, node):
        if hasattr(self.hooks, 'contains'):
            r = self.hooks.contains(self, container, item, path, node)
            if r is not None:
                return r
        if isinstance(container, Obj) and \
                path.heap[container.oid].kind in ('dict', 'set'):
            fk = self.fork_on_key(container, item, path)
            if fk is not None and (len(fk) > 1 or fk[0][1] is not None):
                return [(q, Const(i is not None)) for (q, i) in fk]
        if isinstance(container, Obj) and \
                path.heap[container.oid].kind == 'inst':
            ci = self.class_of(container, path)
            if isinstance(ci, ClassInfo):
                f = self.prog.method(ci, '__contains__')
                if f is not None:
                    return self.call_value(Bound(container, FRef(f)), [item],
                                           [], path, node)
        if isinstance(container, Obj):
            h = path.heap[container.oid]
            if h.kind in ('list', 'set', 'dict') and h.concrete():
                keys = [p.key if h.kind == 'dict' else p.val
                        for p in h.parts]
                if item in keys:
                    return [(path, Const(True))]
                if all(isinstance(k, Const) for k in keys) and \
                        isinstance(item, Const):
                    return [(path, Const(False))]
                if not keys:
                    return [(path, Const(False))]
            return [(path, App('in', item, self.snapshot(container, path)))]
        if isinstance(container, Tup):
            if item in container.items:
                return [(path, Const(True))]
            if all(isinstance(k, Const) for k in container.items) and \
                    isinstance(item, Const):
                return [(path, Const(False))]
        if isinstance(container, App) and container.op == 'alphabet' and \
                isinstance(item, Const):
            al = self.prog.alphabet(container.args[0].v)
            return [(path, Const(item.v in al))]
        if isinstance(container, Const) and isinstance(item, Const):
            try:
                return [(path, Const(item.v in container.v))]
            except Exception:
                pass
        ci = self.class_of(container, path)
        if isinstance(ci, ClassInfo):
            f = self.prog.method(ci, '__contains__')
            if f is not None:
                return self.call_value(Bound(container, FRef(f)), [item], [],
                                       path, node)
        return [(path, App('in', item, container))]

    # -- attributes / subscripts ------------------------------------------
    def ex_Attribute(self, node, fr, path):
        out = []
        for (p, v) in self.eval(node.value, fr, path):
            if isinstance(v, Raise):
                out.append((p, v))
            else:
                r = self.get_attr(v, node.attr, p, node)
                if isinstance(v, MRef) and isinstance(r, App) and \
                        r.op == 'attr' and v.name in self.prog.modules:
                    # a package module without that name: AttributeError
                    r = Raise(New(ExtClass('AttributeError'), (Const(
                        'module %s has no attribute %s' % (v.name,
                                                           node.attr)),)),
                        node)
                out.append((p, r))
        return out

    def class_of(self, v, path):
        """ClassInfo / ExtClass of a value when known"""
        if isinstance(v, New):
            return v.ci
        if isinstance(v, Obj):
            h = path.heap[v.oid]
            if h.kind == 'inst':
                return h.ci
            return ExtClass(h.kind)
        if isinstance(v, (Sym, App)):
            t = self.typeof(v, path)
            if t is not None:
                if t[0] == 'inst':
                    return t[1]
                if t[0] == 'b':
                    return ExtClass(t[1])
                if t[0] == 'pair':
                    return ExtClass('tuple')
        if isinstance(v, Const):
            return ExtClass(type(v.v).__name__)
        if isinstance(v, Tup):
            return ExtClass('tuple')
        if isinstance(v, Coll):
            return ExtClass(v.kind)
        if isinstance(v, App) and v.op in ('fmt', 'concat', 'str', 'join'):
            return ExtClass('str')
        return None

    # -- light types for symbolic values ------------------------------------
    def typeof(self, v, path):
        if isinstance(v, Sym):
            if v.typ is not None:
                return v.typ
            if v.meta is not None and v.meta[0] == 'elem':
                return self.elemtype(self.typeof(v.meta[1], path))
            return None
        if isinstance(v, Obj):
            h = path.heap[v.oid]
            if h.kind == 'inst':
                return ('inst', h.ci)
            return ('b', h.kind)
        if isinstance(v, Coll):
            return ('b', v.kind)
        if isinstance(v, New):
            return ('inst', v.ci)
        if isinstance(v, App):
            if v.op == 'attr' and isinstance(v.args[1], Const):
                bc = self.class_of(v.args[0], path)
                if isinstance(bc, ClassInfo):
                    return self.field_type(bc, v.args[1].v)
                return self.field_type_by_name(v.args[1].v)
            if v.op == 'item':
                bt = self.typeof(v.args[0], path)
                if bt is None:
                    return None
                if bt[0] == 'pair' and isinstance(v.args[1], Const) and \
                        v.args[1].v in (0, 1):
                    return bt[1 + v.args[1].v]
                if bt[0] == 'b' and bt[1] == 'dict' and len(bt) > 3:
                    return bt[3]
                if bt[0] == 'b' and bt[1] == 'list' and len(bt) > 2:
                    return bt[2]
                return None
            if v.op == 'dictview':
                bt = self.typeof(v.args[1], path)
                kt = bt[2] if bt and len(bt) > 3 else None
                vt = bt[3] if bt and len(bt) > 3 else None
                k = v.args[0].v
                if k == 'keys':
                    return ('b', 'set', kt)
                if k == 'values':
                    return ('b', 'list', vt)
                return ('b', 'list', ('pair', kt, vt))
            if v.op == 'iter':
                return self.typeof(v.args[0], path)
            if v.op in ('fmt', 'concat', 'str', 'join'):
                return ('b', 'str')
            if v.op == 'setop':
                return ('b', 'set')
            if v.op == 'call' or v.op == 'mcall':
                return self.hooks.call_type(self, v, path) \
                    if hasattr(self.hooks, 'call_type') else None
        return None

    def elemtype(self, t):
        if t is None:
            return None
        if t[0] == 'b' and t[1] in ('set', 'list') and len(t) > 2:
            return t[2]
        if t[0] == 'b' and t[1] == 'dict' and len(t) > 2:
            return t[2]
        return None

    _fbyname = None

    def field_type_by_name(self, name):
        """receiver of unknown class: if every class that assigns a field of
        this name gives it the same container kind, use it"""
        if self._fbyname is None:
            self._fbyname = {}
        if name in self._fbyname:
            return self._fbyname[name]
        kinds = set()
        for c in self.prog.classes.values():
            if any(isinstance(fn, ast.FunctionDef) and
                   ('self.%s =' % name) in ast.unparse(fn)
                   for fn in c.attrs.values()):
                kinds.add(self.field_type(c, name))
        t = kinds.pop() if len(kinds) == 1 else None
        self._fbyname[name] = t
        return t

    _ftypes = None

    def field_type(self, ci, name):
        """container kind of instance fields, inferred from the assignments
        `self.F = dict()/set()/[]...` and `self.F[k] = set(...)` found in the
        methods of the classes along the MRO"""
        if self._ftypes is None:
            self._ftypes = {}
        key = (ci.qn, name)
        if key in self._ftypes:
            return self._ftypes[key]
        kind = None
        vkind = None
        for c in ci.mro:
            if not isinstance(c, ClassInfo):
                continue
            for mn, fn in c.attrs.items():
                if not isinstance(fn, ast.FunctionDef) or not fn.args.args:
                    continue
                selfn = fn.args.args[0].arg
                for n in ast.walk(fn):
                    if isinstance(n, ast.Assign):
                        for t in n.targets:
                            if isinstance(t, ast.Attribute) and \
                                    t.attr == name and \
                                    isinstance(t.value, ast.Name):
                                k = _literal_kind(n.value)
                                if k:
                                    kind = kind or k
                            if isinstance(t, ast.Subscript) and \
                                    isinstance(t.value, ast.Attribute) and \
                                    t.value.attr == name:
                                k = _literal_kind(n.value)
                                if k:
                                    vkind = vkind or k
        t = None
        if kind == 'dict':
            t = ('b', 'dict', None, ('b', vkind) if vkind else None)
        elif kind:
            t = ('b', kind)
        self._ftypes[key] = t
        return t

    def get_attr(self, v, name, path, node):
        self.obs('attr', (v, Const(name)), path, node)
        r = self.hooks.getattr(self, v, name, path, node)
        if r is not None:
            return r
        if isinstance(v, App) and v.op in ('super', 'super0'):
            return self.super_attr(v, name, path, node)
        if isinstance(v, MRef):
            b = self.prog.module_attr(v.name, name)
            if name == '__name__':
                return Const(v.name)
            if b is not None:
                bv = self.binding_value(b, path)
                if bv is not None:
                    return bv
            return App('attr', v, Const(name))
        if isinstance(v, ERef):
            return ERef(v.name + '.' + name)
        if isinstance(v, CRef):
            return self.class_getattr(v.ci, name, path, node)
        ci = self.class_of(v, path)
        if isinstance(v, Obj):
            h = path.heap[v.oid]
            if h.kind == 'inst':
                if name in h.fields:
                    return h.fields[name]
            else:
                return BoundB(v, name)
        exact = not isinstance(v, (Sym, App))
        if name == '__class__' and ci is not None and exact:
            return CRef(ci)
        if name == '__module__' and isinstance(ci, ClassInfo) and exact:
            return Const(ci.module.name)
        if name in ('__class__', '__module__') and not exact:
            return App('attr', v, Const(name))
        if isinstance(ci, ClassInfo):
            r = ci.lookup(name)
            if r is not None:
                owner, n = r
                if isinstance(n, ast.FunctionDef):
                    f = self.prog.method(ci, name)
                    if _is_property(n):
                        # a read-only property: the value its getter returns
                        res = [(q, x) for (q, x) in self.call_function(
                            FRef(f), [v], [], path, node)
                            if not isinstance(x, Raise)]
                        if len(res) != 1 or res[0][0] is not path:
                            self.inconclusive('property %s with several '
                                              'outcomes' % name, node)
                        return res[0][1]
                    if _is_static(n):
                        return FRef(f)
                    if _is_classmethod(n):
                        return Bound(CRef(ci) if exact else
                                     App('attr', v, Const('__class__')),
                                     FRef(f))
                    return Bound(v, FRef(f))
                return self.class_getattr(ci, name, path, node)
            # external base classes (set, Exception...)
            ext = [c for c in ci.mro if isinstance(c, ExtClass)
                   and c.name != 'object']
            if ext and not name.startswith('_'):
                return BoundB(v, name)
            return App('attr', v, Const(name))
        if isinstance(ci, ExtClass) or isinstance(v, (Const, Tup, Coll)):
            return BoundB(v, name)
        # unknown receiver
        return App('attr', v, Const(name))

    def super_attr(self, sv, name, path, node):
        start = sv.args[0].ci if isinstance(sv.args[0], CRef) else None
        obj = sv.args[1] if len(sv.args) > 1 else None
        if start is None or obj is None:
            return App('attr', sv, Const(name))
        oc = obj.ci if isinstance(obj, CRef) else self.class_of(obj, path)
        if oc is None or start not in oc.mro:
            return App('attr', sv, Const(name))
        rest = oc.mro[oc.mro.index(start) + 1:]
        for c in rest:
            if isinstance(c, ClassInfo) and name in c.attrs and \
                    isinstance(c.attrs[name], ast.FunctionDef):
                f = self.prog.method(c, name, own=True)
                if isinstance(obj, CRef) and name != '__new__':
                    return FRef(f)
                if name == '__new__':
                    return FRef(f)
                return Bound(obj, FRef(f))
            if isinstance(c, ExtClass):
                return BoundB(App('superext', CRef(c), obj), name)
        return App('attr', sv, Const(name))

    def class_getattr(self, ci, name, path, node):
        if name == '__name__':
            return Const(ci.name)
        if name == '__module__' and isinstance(ci, ClassInfo):
            return Const(ci.module.name)
        if isinstance(ci, ClassInfo):
            r = ci.lookup(name)
            if r is not None:
                owner, n = r
                if isinstance(n, ast.FunctionDef):
                    f = self.prog.method(ci, name)
                    if _is_classmethod(n):
                        return Bound(CRef(ci), FRef(f))
                    return FRef(f)
                # class level data attribute: evaluate in the owner's module
                key = ('classattr', owner.qn, name)
                fr = self.module_frame(owner.module, path)
                val = self.eval_one(n, fr, path)
                if isinstance(val, Obj):
                    # class attributes are shared mutable state
                    return App('classattr', CRef(owner), Const(name),
                               self.snapshot(val, path))
                return val
            if name == '__new__':
                # no user-defined __new__ in the hierarchy: object.__new__
                return BoundB(App('superext', CRef(ExtClass('object')),
                                  CRef(ci)), '__new__')
        return App('attr', CRef(ci), Const(name))

    def ex_Subscript(self, node, fr, path):
        out = []
        for (p, vs) in self.eval_seq([node.value, node.slice], fr, path):
            if isinstance(vs, Raise):
                out.append((p, vs))
                continue
            base, idx = vs
            fk = None
            if isinstance(base, Obj) and p.heap[base.oid].kind == 'dict':
                fk = self.fork_on_key(base, idx, p)
            if fk is not None and (len(fk) > 1 or fk[0][1] is not None):
                for (q, i) in fk:
                    if i is None:
                        out.append((q, Raise(New(ExtClass('KeyError'),
                                                 (idx,)), node)))
                    else:
                        out.append((q, q.heap[base.oid].parts[i].val))
            else:
                out.append((p, self.get_item(base, idx, p, node)))
        return out

    def ex_Slice(self, node, fr, path):
        parts = [n for n in (node.lower, node.upper, node.step)]
        vals = []
        for n in parts:
            if n is None:
                vals.append(Const(None))
            else:
                vals.append(self.eval_one(n, fr, path))
        return [(path, App('slice', *vals))]

    def get_item(self, base, idx, path, node):
        self.obs('subscript', (base,), path, node)
        if isinstance(base, App) and base.op == 'classattr':
            base = base.args[2]
        if isinstance(base, ERef) and base.name == 'sys.modules' and \
                isinstance(idx, Const):
            if idx.v in self.prog.modules:
                return MRef(idx.v)
            return ERef(idx.v)
        if isinstance(base, App) and base.op == 'alphabet' and \
                isinstance(idx, Const):
            al = self.prog.alphabet(base.args[0].v)
            if idx.v in al:
                return CRef(al[idx.v])
        if isinstance(idx, App) and idx.op == 'slice':
            if isinstance(base, Const) and all(isinstance(a, Const)
                                               for a in idx.args):
                return Const(base.v[slice(*[a.v for a in idx.args])])
            if all(isinstance(a, Const) for a in idx.args):
                items = None
                if isinstance(base, Obj) and \
                        path.heap[base.oid].kind == 'list' and \
                        path.heap[base.oid].concrete():
                    items = [p.val for p in path.heap[base.oid].parts]
                elif isinstance(base, Tup):
                    items = list(base.items)
                if items is not None:
                    sl = items[slice(*[a.v for a in idx.args])]
                    if isinstance(base, Tup):
                        return Tup(sl)
                    return self._mk_coll('list', sl, path, node)
            return App('item', base, idx)
        items = None
        if isinstance(base, Tup):
            items = list(base.items)
        elif isinstance(base, Obj):
            h = path.heap[base.oid]
            if h.kind == 'list' and h.concrete():
                items = [p.val for p in h.parts]
            elif h.kind == 'dict':
                for p in h.parts:
                    if p.simple() and p.key == idx:
                        return p.val
                return App('item', self.snapshot(base, path), idx)
        elif isinstance(base, Coll) and base.kind == 'dict':
            for p in base.parts:
                if p.simple() and p.key == idx:
                    return p.val
        elif isinstance(base, Coll) and base.kind == 'list' and \
                all(p.simple() for p in base.parts):
            items = [p.val for p in base.parts]
        elif isinstance(base, Const) and isinstance(idx, Const):
            try:
                return Const(base.v[idx.v])
            except Exception:
                pass
        if items is not None and isinstance(idx, Const) and \
                isinstance(idx.v, int):
            try:
                return items[idx.v]
            except IndexError:
                return App('index-error', base, idx)
        return App('item', self.snapshot(base, path), idx)

    # -- calls ------------------------------------------------------------
    def ex_Call(self, node, fr, path):
        out = []
        if isinstance(node.func, ast.Name) and node.func.id == 'super' and \
                not node.args and not node.keywords:
            # zero-argument super(): the class the method is defined in and
            # the method's first argument
            f = self.stack[-1] if self.stack else None
            h = path.heap[fr]
            while h is not None and h.fnode is not None and \
                    f is not None and h.fnode is not f.node and \
                    h.parent is not None:
                h = path.heap[h.parent]
            if f is not None and f.owner is not None and \
                    f.node.args.args:
                first = f.node.args.args[0].arg
                if first in h.vars:
                    return [(path, App('super', CRef(f.owner),
                                       h.vars[first]))]
        for (p, fv) in self.eval(node.func, fr, path):
            if isinstance(fv, Raise):
                out.append((p, fv))
                continue
            for (q, args) in self.eval_seq(node.args, fr, p):
                if isinstance(args, Raise):
                    out.append((q, args))
                    continue
                kws = [k for k in node.keywords]
                for (r, kvals) in self.eval_seq([k.value for k in kws], fr,
                                                q):
                    if isinstance(kvals, Raise):
                        out.append((r, kvals))
                        continue
                    kw = [(k.arg, v) for k, v in zip(kws, kvals)]
                    out.extend(self.call_value(fv, args, kw, r, node))
        return out

    def call_value(self, fv, args, kw, path, node):
        # x.add(a if c else b): the conditional value given to a mutator is
        # decided first (two paths), so that what is stored is a definite
        # value on each of them
        if isinstance(fv, (BoundB, Bound)) and \
                (fv.name if isinstance(fv, BoundB) else fv.f.fi.name) in \
                MUTATORS:
            for i, a in enumerate(args):
                if isinstance(a, App) and a.op == 'ite':
                    out = []
                    for (q, tr) in self.branch(a.args[0], path):
                        a2 = list(args)
                        a2[i] = a.args[1] if tr else a.args[2]
                        out.extend(self.call_value(fv, a2, kw, q, node))
                    return out
        # (f if c else g)(..): decided first, then the chosen one is called
        if isinstance(fv, App) and fv.op == 'ite' and len(fv.args) == 3:
            out = []
            for (q, tr) in self.branch(fv.args[0], path):
                out.extend(self.call_value(fv.args[1] if tr else fv.args[2],
                                           args, kw, q, node))
            return out
        # operator.methodcaller(name, *a)(obj) is obj.name(*a);
        # operator.attrgetter(name)(obj) is obj.name
        if isinstance(fv, App) and fv.op == 'global' and len(fv.args) == 3 \
                and isinstance(fv.args[2], App) and \
                fv.args[2].op in ('methodcaller', 'attrgetter'):
            fv = fv.args[2]
        if isinstance(fv, App) and fv.op == 'methodcaller' and \
                len(args) == 1 and not kw:
            out = []
            for (q, m) in [(path, self.get_attr(args[0], fv.args[0].v,
                                                  path, node))]:
                out.extend(self.call_value(m, list(fv.args[1].items),
                                           [(k.items[0].v, k.items[1])
                                            for k in fv.args[2].items],
                                           q, node))
            return out
        if isinstance(fv, App) and fv.op == 'attrgetter' and \
                len(args) == 1 and not kw:
            return [(path, self.get_attr(args[0], fv.args[0].v, path, node))]
        if isinstance(fv, ERef) and fv.name == 'operator.methodcaller' and \
                args and isinstance(args[0], Const) and \
                isinstance(args[0].v, str):
            return [(path, App('methodcaller', args[0], Tup(args[1:]),
                               Tup(Tup((Const(k), v)) for k, v in kw)))]
        if isinstance(fv, ERef) and fv.name == 'operator.attrgetter' and \
                len(args) == 1 and isinstance(args[0], Const) and \
                isinstance(args[0].v, str) and '.' not in args[0].v and \
                not kw:
            return [(path, App('attrgetter', args[0]))]
        r = self.hooks.call(self, fv, args, kw, path, node)
        if r is not None:
            return r
        if isinstance(fv, FRef) and getattr(fv.fi, 'owner', None) is not None \
                and args and isinstance(fv.node, ast.FunctionDef) and \
                not _is_static(fv.node) and not _is_classmethod(fv.node):
            # Class.method(obj, ..) with obj an instance of Class: the rules'
            # primitives are written for the bound form obj.method(..)
            ci = self.class_of(args[0], path)
            if isinstance(ci, ClassInfo) and ci.is_subclass_of(fv.fi.owner):
                r = self.hooks.call(self, Bound(args[0], fv), args[1:], kw,
                                    path, node)
                if r is not None:
                    return r
        if any(isinstance(a, App) and a.op == 'star' for a in args):
            # f(*xs) with xs a list / tuple whose members are all known:
            # the call with those members
            flat = []
            for a in args:
                if isinstance(a, App) and a.op == 'star':
                    src = a.args[0]
                    items = None
                    if isinstance(src, Tup):
                        items = list(src.items)
                    elif isinstance(src, Obj) and \
                            path.heap[src.oid].kind == 'list' and \
                            not getattr(path.heap[src.oid], 'havoc', False) \
                            and all(pt.kind == 'elem' and not pt.gens and
                                    not pt.conds
                                    for pt in path.heap[src.oid].parts):
                        items = [pt.val for pt in path.heap[src.oid].parts]
                    if items is None:
                        flat = None
                        break
                    flat.extend(items)
                else:
                    flat.append(a)
            if flat is not None:
                return self.call_value(fv, flat, kw, path, node)
            unb = fv
            if isinstance(unb, App) and unb.op == 'attr' and \
                    isinstance(unb.args[0], CRef) and \
                    isinstance(unb.args[1], Const):
                unb = BoundB(unb.args[0], unb.args[1].v)
            if isinstance(unb, BoundB) and isinstance(unb.recv, CRef) and \
                    getattr(unb.recv.ci, 'name', None) in ('set',
                                                           'frozenset') and \
                    unb.name in ('union', 'intersection') and \
                    len(args) == 1 and not kw:
                # set.union(*XS): XS[0].union(*XS[1:]); TypeError if empty
                return [(path, App('setfold', Const(unb.name),
                                   Const('$unbound'),
                                   self.snapshot_deep(args[0].args[0],
                                                      path)))]
            if isinstance(fv, BoundB) and len(args) == 1 and not kw and \
                    fv.name in ('intersection', 'union', 'difference') and \
                    self.is_setlike(fv.recv, path):
                # s.intersection(*Xs): s folded with every member of Xs
                return [(path, App('setfold', Const(fv.name),
                                   self.snapshot_deep(fv.recv, path),
                                   self.snapshot_deep(args[0].args[0],
                                                      path)))]
            if isinstance(fv, BoundB) and isinstance(fv.recv, Obj) and \
                    path.heap[fv.recv.oid].kind in ('set', 'list', 'dict'):
                h = path.heap[fv.recv.oid]
                if fv.name == 'update' and h.kind == 'set' and \
                        len(args) == 1 and not kw:
                    # s.update(*XS): every member of every X of XS
                    src = args[0].args[0]
                    if isinstance(src, App) and src.op == 'gen' and \
                            isinstance(src.args[0], Obj):
                        src = src.args[0]
                    srcs = self.snapshot_deep(src, path)
                    var = path.fresh('e', None, meta=('elem', srcs))
                    gens = path.loops[h.loops_len:]
                    h.parts.append(Part(
                        'spread', var,
                        gens=[(l.var, l.iterable) for l in gens] +
                        [(var, srcs)],
                        conds=tuple(path.pc[h.pc_len:]) if gens else ()))
                    return [(path, Const(None))]
                if fv.name in MUTATORS:
                    # a container modified through *args in a way that is
                    # not modelled: never a silently lost update
                    self.inconclusive('%s(*...) on a %s' % (fv.name, h.kind),
                                      node)
            self.event(path, 'call', fv, None, (tuple(args), tuple(kw)), node)
            return [(path, App('call', fv, Tup(args)))]
        if isinstance(fv, FRef):
            return self.call_function(fv, args, kw, path, node)
        if isinstance(fv, ERef) and fv.name in OPERATOR_FUNCS and \
                len(args) == 2 and not kw:
            # operator.and_(a, b) is a & b ...
            return self.binop(OPERATOR_FUNCS[fv.name](), args[0], args[1],
                              path, node)
        if isinstance(fv, ERef) and not kw and (
                (fv.name == 'itertools.chain.from_iterable' and
                 len(args) == 1) or fv.name == 'itertools.chain'):
            # chain.from_iterable(xss) is (x for xs in xss for x in xs)
            xss = args[0] if fv.name.endswith('from_iterable') else Tup(args)
            return self._synthetic_comp(
                '[__ch_x for __ch_xs in __ch_xss for __ch_x in __ch_xs]',
                {'__ch_xss': xss}, path, node)
        if isinstance(fv, App) and fv.op == 'attr' and \
                isinstance(fv.args[0], CRef) and \
                fv.args[1] == Const('fromkeys'):
            fv = BoundB(fv.args[0], 'fromkeys')
        if isinstance(fv, BoundB) and isinstance(fv.recv, CRef) and \
                getattr(fv.recv.ci, 'name', None) == 'dict' and \
                fv.name == 'fromkeys' and len(args) in (1, 2) and not kw:
            # dict.fromkeys(KS, v): every key of KS mapped to the *same* v
            o = path.alloc('dict', site=node)
            val = args[1] if len(args) == 2 else Const(None)
            items = self.concrete_iter(args[0], path)
            h = path.heap[o.oid]
            if items is not None:
                for k in items:
                    h.parts.append(Part('elem', val, key=k))
            else:
                src = self.snapshot_deep(args[0], path)
                var = path.fresh('e', None, meta=('elem', src))
                h.parts.append(Part('elem', val, key=var,
                                    gens=[(var, src)]))
            return [(path, o)]
        if isinstance(fv, ERef) and fv.name == 'itertools.product' and \
                not kw and len(args) in (2, 3):
            # product(a, b) is ((x, y) for x in a for y in b)
            names = ['__pr_%d' % i for i in range(len(args))]
            src = '[(%s) for %s]' % (
                ', '.join(n + '_x' for n in names),
                ' for '.join('%s_x in %s' % (n, n) for n in names))
            return self._synthetic_comp(src, dict(zip(names, args)), path,
                                        node)
        if isinstance(fv, ERef) and fv.name == 'functools.reduce' and \
                len(args) in (2, 3) and not kw:
            return self.bi_reduce(args, path, node)
        if isinstance(fv, ERef) and fv.name == 'collections.deque' and \
                len(args) <= 1 and not kw:
            # a double-ended queue is a list whose order is not modelled
            return self._coll_from('list', args, path, node)
        if isinstance(fv, Bound):
            return self.call_function(fv.f, [fv.recv] + list(args), kw, path,
                                      node)
        if isinstance(fv, CRef):
            return self.construct(fv.ci, args, kw, path, node)
        if isinstance(fv, BRef):
            m = getattr(self, 'bi_' + fv.name, None)
            if m is not None:
                return m(args, kw, path, node)
            return [(path, App('call', fv, Tup(args)))]
        if isinstance(fv, BoundB):
            return self.builtin_method(fv.recv, fv.name, args, kw, path,
                                       node)
        if isinstance(fv, App) and fv.op == 'attr' and \
                isinstance(fv.args[1], Const):
            # method call on a receiver whose class is unknown
            return self.builtin_method(fv.args[0], fv.args[1].v, args, kw,
                                       path, node)
        self.event(path, 'call', fv, None, (tuple(args), tuple(kw)), node)
        return [(path, App('call', fv, Tup(args),
                           Tup(Tup((Const(k), v)) for k, v in kw)))]

    def construct(self, ci, args, kw, path, node):
        r = self.hooks.construct(self, ci, args, kw, path, node)
        if r is not None:
            return r
        if isinstance(ci, ExtClass):
            if ci.name in ('set', 'list', 'dict', 'tuple', 'str', 'int',
                           'bool', 'frozenset', 'range'):
                return getattr(self, 'bi_' + ci.name)(args, kw, path, node)
            return [(path, New(ci, args, kw))]
        new = self.prog.method(ci, '__new__')
        if new is not None:
            res = self.call_function(FRef(new), [CRef(ci)] + list(args), kw,
                                     path, node)
            out = []
            for (p, v) in res:
                if isinstance(v, Raise):
                    out.append((p, v))
                    continue
                vc = self.class_of(v, p)
                init = self.prog.method(ci, '__init__')
                if isinstance(v, Obj) and isinstance(vc, ClassInfo) and \
                        vc.is_subclass_of(ci) and init is not None:
                    for (q, w) in self.call_function(
                            FRef(init), [v] + list(args), kw, p, node):
                        out.append((q, w if isinstance(w, Raise) else v))
                else:
                    out.append((p, v))
            return out
        o = path.alloc('inst', site=node)
        path.heap[o.oid].ci = ci
        self.event(path, 'alloc', o, ci.qn, (), node)
        init = self.prog.method(ci, '__init__')
        if init is None:
            return [(path, o)]
        out = []
        for (p, w) in self.call_function(FRef(init), [o] + list(args), kw,
                                         path, node):
            out.append((p, w if isinstance(w, Raise) else o))
        return out

    # -- comprehensions ---------------------------------------------------
    def _comp(self, node, kind, fr, path, elt, key=None):
        # new scope
        fo = path.alloc('frame')
        h = path.heap[fo.oid]
        h.module = path.heap[fr].module
        h.parent = fr
        h.fnode = path.heap[fr].fnode
        out = path.alloc(kind, site=node)
        res = self._comp_gen(node.generators, 0, fo.oid, path, out, elt, key,
                             (), ())
        return [(p, out if not isinstance(s, Raise) else s) for (p, s) in res]

    def _comp_gen(self, gens, i, fr, path, out, elt, key, g_acc, c_acc):
        if i == len(gens):
            if key is not None:
                kv = self.eval_one(key, fr, path)
            else:
                kv = None
            res = []
            for (p, v) in self.eval(elt, fr, path):
                if isinstance(v, Raise):
                    res.append((p, v))
                    continue
                part = Part('elem', v, key=kv, gens=g_acc, conds=c_acc)
                if part not in p.heap[out.oid].parts:
                    p.heap[out.oid].parts.append(part)
                res.append((p, None))
            return res
        g = gens[i]
        res = []
        for (p, it) in self.eval(g.iter, fr, path):
            if isinstance(it, Raise):
                res.append((p, it))
                continue
            items = self.concrete_iter(it, p)
            if items is not None and len(items) <= 8:
                cur = [(p, None)]
                for item in items:
                    nxt = []
                    for (q, s) in cur:
                        if isinstance(s, Raise):
                            nxt.append((q, s))
                            continue
                        self.assign(g.target, item, fr, q, g.target)
                        nxt.extend(self._comp_filtered(
                            g, gens, i, fr, q, out, elt, key, g_acc, c_acc))
                    cur = nxt
                res.extend(cur)
            else:
                et = self.hooks.iter_elem_type(self, it, p)
                its = self.snapshot(it, p)
                var = p.fresh('e', et, meta=('elem', its))
                self.assign(g.target, var, fr, p, g.target)
                base0 = len(p.pc)
                for (q, sg) in self._comp_filtered(
                        g, gens, i, fr, p, out, elt, key,
                        g_acc + ((var, its),), c_acc):
                    if isinstance(sg, Raise) and len(q.pc) > base0 and \
                            any(any(x == var for x in walk(c))
                                for (c, _) in q.pc[base0:]):
                        # raised while handling *some* element: what was
                        # assumed about that element is existential
                        delta = [(self.snapshot_deep(c, q), pol)
                                 for (c, pol) in q.pc[base0:]]
                        del q.pc[base0:]
                        q.pc.append((App('exists', var, its, Tup(
                            Tup((c, Const(pol))) for (c, pol) in delta)),
                            True))
                    res.append((q, sg))
        return res

    def _comp_ifs(self, ifs, k, fr, q, conds, base):
        """the `if` clauses of one generator, in order -> list of
        (path, conds | Raise) for the outcomes that are not surely false;
        conditions assumed while evaluating a clause (a forking callee) are
        part of the element's condition"""
        if k == len(ifs):
            extra = [(self.snapshot_deep(c, q), pol)
                     for (c, pol) in q.pc[base:]]
            return [(q, tuple(conds) + tuple(extra))]
        out = []
        for (q2, cv) in self.eval(ifs[k], fr, q):
            if isinstance(cv, Raise):
                out.append((q2, cv))
                continue
            t = self.truth(cv, q2)
            if t is False:
                continue
            cs = list(conds)
            if t is None:
                cs.append((self.snapshot_deep(cv, q2), True))
            out.extend(self._comp_ifs(ifs, k + 1, fr, q2, cs, base))
        return out

    def _comp_filtered(self, g, gens, i, fr, p, out, elt, key, g_acc, c_acc):
        if not g.ifs:
            return self._comp_gen(gens, i + 1, fr, p, out, elt, key, g_acc,
                                  tuple(c_acc))
        base = len(p.pc)
        outs = self._comp_ifs(g.ifs, 0, fr, p, list(c_acc), base)
        if len(outs) <= 1 and all(q is p for (q, _) in outs):
            del p.pc[base:]
            if not outs:
                return [(p, None)]
            if isinstance(outs[0][1], Raise):
                return outs
            return self._comp_gen(gens, i + 1, fr, p, out, elt, key, g_acc,
                                  outs[0][1])
        # the condition forked (a callee with several outcomes): run the
        # rest on each outcome and merge the contributed parts into p
        known = list(p.heap[out.oid].parts)
        heap_ids = set(p.heap.keys())
        merged = []
        res = []
        for (q, cs) in outs:
            if isinstance(cs, Raise):
                res.append((q, cs))
                continue
            for (q2, s2) in self._comp_gen(gens, i + 1, fr, q, out, elt, key,
                                           g_acc, cs):
                if isinstance(s2, Raise):
                    res.append((q2, s2))
                    continue
                for part in q2.heap[out.oid].parts:
                    if part not in known and part not in merged:
                        merged.append(part)
        del p.pc[base:]
        for part in merged:
            for x in walk(part.val):
                if isinstance(x, Obj) and x.oid not in heap_ids:
                    self.inconclusive('comprehension element allocates '
                                      'under a forking condition: %r in %r'
                                      % (x, part), elt)
        mine = p.heap[out.oid].parts
        for part in merged:
            if part not in mine:
                mine.append(part)
        res.append((p, None))
        return res

    def ex_ListComp(self, node, fr, path):
        return self._comp(node, 'list', fr, path, node.elt)

    def ex_SetComp(self, node, fr, path):
        return self._comp(node, 'set', fr, path, node.elt)

    def ex_GeneratorExp(self, node, fr, path):
        return self._comp(node, 'list', fr, path, node.elt)

    def ex_DictComp(self, node, fr, path):
        return self._comp(node, 'dict', fr, path, node.value, key=node.key)

    def ex_Yield(self, node, fr, path):
        out = []
        if node.value is None:
            self.st_YieldExpr(Const(None), fr, path)
            return [(path, Const(None))]
        for (p, v) in self.eval(node.value, fr, path):
            if not isinstance(v, Raise):
                self.st_YieldExpr(v, fr, p)
                out.append((p, Const(None)))
            else:
                out.append((p, v))
        return out

    def ex_YieldFrom(self, node, fr, path):
        # `yield from xs` yields every element of xs
        out = []
        for (p, v) in self.eval(node.value, fr, path):
            if isinstance(v, Raise):
                out.append((p, v))
                continue
            if isinstance(v, App) and v.op == 'gen' and \
                    isinstance(v.args[0], Obj):
                v = v.args[0]
            items = self.concrete_iter(v, p)
            if items is not None:
                for it in items:
                    self.st_YieldExpr(it, fr, p)
            else:
                self.st_YieldExpr(self.snapshot(v, p), fr, p, spread=True)
            out.append((p, Const(None)))
        return out

    def ex_JoinedStr(self, node, fr, path):
        """f'..{a}..{b!s}..' is the concatenation of the literal pieces and
        str() of the values (same summary as '..{}..{}..'.format(a, b))"""
        exprs = []
        for v in node.values:
            if isinstance(v, ast.FormattedValue):
                if v.format_spec is not None or v.conversion not in (-1, 115):
                    self.inconclusive('f-string with conversion / format '
                                      'spec', node)
                exprs.append(v.value)
        out = []
        for (p, vals) in self.eval_seq(exprs, fr, path):
            if isinstance(vals, Raise):
                out.append((p, vals))
                continue
            vals = list(vals)
            pieces = []
            for v in node.values:
                if isinstance(v, ast.FormattedValue):
                    pieces.append(self.to_str(vals.pop(0), p, node))
                else:
                    pieces.append(Const(v.value))
            if all(isinstance(x, Const) for x in pieces):
                out.append((p, Const(''.join(str(x.v) for x in pieces))))
                continue
            tmpl = ''
            args = []
            simple = True
            for x, v in zip(pieces, node.values):
                if isinstance(v, ast.FormattedValue):
                    tmpl += '{}'
                    args.append(x)
                else:
                    if '{' in x.v or '}' in x.v:
                        simple = False
                    tmpl += x.v
            if simple:
                out.append((p, App('fmt', Const('{}'), Const(tmpl),
                                   Tup(args))))
                continue
            acc = None
            for x in pieces:
                acc = x if acc is None else App('concat', acc, x)
            out.append((p, acc if acc is not None else Const('')))
        return out

    def ex_NamedExpr(self, node, fr, path):
        out = []
        for (p, v) in self.eval(node.value, fr, path):
            if isinstance(v, Raise):
                out.append((p, v))
                continue
            for (q, sig) in self.assign(node.target, v, fr, p, node):
                out.append((q, v if sig is None else sig))
        return out

    def ex_Starred(self, node, fr, path):
        self.inconclusive('starred expression', node)

    # -- builtin functions --------------------------------------------------
    def bi_isinstance(self, args, kw, path, node):
        self.obs('isinstance', tuple(args[:1]), path, node)
        if len(args) != 2:
            return [(path, App('call', BRef('isinstance'), Tup(args)))]
        v, c = args
        classes = list(c.items) if isinstance(c, Tup) else [c]
        results = []
        for cv in classes:
            if isinstance(v, Sym) and v.meta and v.meta[0] == 'exc-class':
                results.append(exc_isinstance(v.meta[1], cv))
                continue
            if not isinstance(cv, CRef):
                results.append(None)
                continue
            r = self.isinstance_one(v, cv.ci, path)
            results.append(r)
        if any(r is True for r in results):
            return [(path, Const(True))]
        if all(r is False for r in results):
            return [(path, Const(False))]
        unk = [cv for cv, r in zip(classes, results) if r is None]
        if len(unk) == 1:
            return [(path, App('isinstance', v, unk[0]))]
        return [(path, App('or', *[App('isinstance', v, cv) for cv in unk]))]

    def isinstance_one(self, v, ci, path):
        r = self.hooks.isinstance(self, v, ci, path)
        if r is not None:
            return r
        vc = self.class_of(v, path)
        if vc is not None and ((isinstance(v, Sym) and v.typ is not None and
                                v.typ[0] == 'inst') or
                               (isinstance(v, App) and
                                v.op in ('item', 'attr', 'dictget'))):
            # known lower bound only: instance of typ (or subclass)
            if vc.is_subclass_of(ci):
                return True
            if isinstance(vc, ClassInfo) and isinstance(ci, ExtClass):
                # an instance of a package class is a bool/str/... only if
                # some subclass derives from that builtin
                for c in self.prog.classes.values():
                    if c.is_subclass_of(vc) and ci in c.mro:
                        return None
                return False
            if isinstance(vc, ClassInfo) and isinstance(ci, ClassInfo):
                # could a subclass of vc also be a subclass of ci?
                for c in self.prog.classes.values():
                    if c.is_subclass_of(vc) and c.is_subclass_of(ci):
                        return None
                return False
            return None
        if vc is not None:
            if isinstance(ci, ExtClass) and ci.name == 'int' and \
                    isinstance(vc, ExtClass) and vc.name == 'bool':
                return True
            return vc.is_subclass_of(ci)
        if isinstance(v, (CRef, FRef, MRef, Bound, BoundB)):
            return False
        for (c, pol) in path.pc:
            if isinstance(c, App) and c.op == 'isinstance' and \
                    c.args[0] == v and isinstance(c.args[1], CRef):
                k = c.args[1].ci
                if pol and k.is_subclass_of(ci):
                    return True
                if (not pol) and ci.is_subclass_of(k):
                    return False
        return None

    def _synthetic_comp(self, src, bindings, path, node):
        """evaluate a comprehension written over synthetic names"""
        fr = self.stack_frame_for_synthetic(path)
        h = path.heap[fr]
        h.vars.update(bindings)
        e = ast.parse(src, mode='eval').body
        for n in ast.walk(e):
            ast.copy_location(n, node)
        return self.eval(e, fr, path)

    def bi_map(self, args, kw, path, node):
        # map(f, xs) is (f(x) for x in xs)
        if len(args) != 2 or kw:
            return [(path, App('call', BRef('map'), Tup(tuple(args))))]
        return self._synthetic_comp('[__map_f(__map_x) for __map_x in '
                                    '__map_xs]',
                                    {'__map_f': args[0], '__map_xs': args[1]},
                                    path, node)

    def bi_filter(self, args, kw, path, node):
        if len(args) != 2 or kw:
            return [(path, App('call', BRef('filter'), Tup(tuple(args))))]
        if args[0] == Const(None):
            return self._synthetic_comp(
                '[__flt_x for __flt_x in __flt_xs if __flt_x]',
                {'__flt_xs': args[1]}, path, node)
        return self._synthetic_comp(
            '[__flt_x for __flt_x in __flt_xs if __flt_f(__flt_x)]',
            {'__flt_f': args[0], '__flt_xs': args[1]}, path, node)

    def bi_reduce(self, args, path, node):
        """functools.reduce(f, xs, init) is the loop
               acc = init
               for x in xs: acc = f(acc, x)
        interpreted as that loop (so that it gets the same summary)"""
        fr = self.stack_frame_for_synthetic(path)
        h = path.heap[fr]
        if len(args) == 2:
            # no initial value: the first member starts the fold
            #     it = iter(xs); acc = next(it); for x in it: acc = f(acc, x)
            h.vars['__red_f'], h.vars['__red_xs'] = args
            src = ('__red_it = iter(__red_xs)\n'
                   '__red_acc = next(__red_it)\n'
                   'for __red_x in __red_it:\n'
                   '    __red_acc = __red_f(__red_acc, __red_x)')
        else:
            h.vars['__red_f'], h.vars['__red_xs'], h.vars['__red_acc'] = args
            src = ('for __red_x in __red_xs:\n'
                   '    __red_acc = __red_f(__red_acc, __red_x)')
        stmts = ast.parse(src).body
        for st in stmts:
            for n in ast.walk(st):
                ast.copy_location(n, node)
        out = []
        for (q, sig) in self.exec_block(stmts, fr, path):
            if isinstance(sig, Raise):
                out.append((q, sig))
            else:
                out.append((q, q.heap[fr].vars['__red_acc']))
        return out

    def stack_frame_for_synthetic(self, path):
        fo = path.alloc('frame')
        h = path.heap[fo.oid]
        f = self.stack[-1] if self.stack else None
        h.module = f.module if f is not None else None
        h.parent = None
        h.fnode = f.node if f is not None else None
        return fo.oid

    def bi_enumerate(self, args, kw, path, node):
        start = dict(kw).get('start', args[1] if len(args) > 1 else Const(0))
        items = self.concrete_iter(args[0], path) if args else None
        if items is not None and isinstance(start, Const) and \
                isinstance(start.v, int):
            return [(path, Tup(tuple(Tup((Const(start.v + i), x))
                                     for i, x in enumerate(items))))]
        return [(path, App('call', BRef('enumerate'), Tup(tuple(args))))]

    def bi_zip(self, args, kw, path, node):
        lists = [self.concrete_iter(a, path) for a in args]
        if args and all(l is not None for l in lists):
            return [(path, Tup(tuple(Tup(tuple(t)) for t in zip(*lists))))]
        return [(path, App('call', BRef('zip'), Tup(tuple(args))))]

    def bi_issubclass(self, args, kw, path, node):
        a, b = args
        if isinstance(a, CRef) and isinstance(b, CRef):
            return [(path, Const(a.ci.is_subclass_of(b.ci)))]
        return [(path, App('issubclass', a, b))]

    def bi_len(self, args, kw, path, node):
        v = args[0]
        items = self.concrete_iter(v, path)
        if items is not None:
            return [(path, Const(len(items)))]
        ci = self.class_of(v, path)
        if isinstance(ci, ClassInfo):
            f = self.prog.method(ci, '__len__')
            if f is not None:
                return self.call_value(Bound(v, FRef(f)), [], [], path, node)
        return [(path, App('len', self.snapshot(v, path)))]

    def _coll_from(self, kind, args, path, node):
        o = path.alloc(kind, site=node)
        if args:
            src = args[0]
            items = self.concrete_iter(src, path)
            if isinstance(src, App) and src.op == 'gen':
                src = src.args[0]
                items = self.concrete_iter(src, path)
            if items is not None:
                for it in items:
                    if kind == 'set' and any(p.val == it for p in
                                             path.heap[o.oid].parts):
                        continue
                    path.heap[o.oid].parts.append(Part('elem', it))
            elif isinstance(src, Obj) and \
                    path.heap[src.oid].kind in ('list', 'set') and \
                    not path.heap[src.oid].havoc:
                # copy of a comprehension-built container: copy the parts
                path.heap[o.oid].parts = list(path.heap[src.oid].parts)
            else:
                path.heap[o.oid].parts.append(
                    Part('spread', self.snapshot(src, path)))
        return [(path, o)]

    def bi_set(self, args, kw, path, node):
        return self._coll_from('set', args, path, node)

    bi_frozenset = bi_set

    def bi_list(self, args, kw, path, node):
        return self._coll_from('list', args, path, node)

    def bi_sorted(self, args, kw, path, node):
        res = self._coll_from('list', args[:1], path, node)
        kwd = dict(kw)
        if 'key' not in kwd:
            self.obs('sort', (args[0],), path, node)
        else:
            self._obs_sort_keys(args[0], kwd['key'], path, node)
        self.event(path, 'sorted', args[0], None,
                   (kwd.get('key', Const(None)),), node)
        for (q, v) in res:
            if isinstance(v, Obj):
                q.heap[v.oid].reorder += ('sorted',)
        return res

    def bi_reversed(self, args, kw, path, node):
        items = self.concrete_iter(args[0], path)
        if items is not None:
            return [(path, self._mk_coll('list', list(reversed(items)), path,
                                         node))]
        o = path.alloc('list', site=node)
        path.heap[o.oid].parts.append(
            Part('spread', App('reversed', self.snapshot(args[0], path))))
        return [(path, o)]

    def bi_tuple(self, args, kw, path, node):
        if not args:
            return [(path, Tup(()))]
        items = self.concrete_iter(args[0], path)
        if items is not None:
            return [(path, Tup(items))]
        return self._coll_from('list', args, path, node)

    def bi_dict(self, args, kw, path, node):
        o = path.alloc('dict', site=node)
        if args:
            src = args[0]
            if isinstance(src, Obj) and path.heap[src.oid].kind == 'dict':
                path.heap[o.oid].parts = list(path.heap[src.oid].parts)
            else:
                path.heap[o.oid].parts.append(
                    Part('spread', self.snapshot(src, path)))
        for k, v in kw:
            path.heap[o.oid].parts.append(Part('elem', v, key=Const(k)))
        return [(path, o)]

    def bi_str(self, args, kw, path, node):
        if not args:
            return [(path, Const(''))]
        return [(path, self.to_str(args[0], path, node))]

    bi_repr = bi_str

    def bi_int(self, args, kw, path, node):
        if args and isinstance(args[0], Const):
            try:
                return [(path, Const(int(args[0].v)))]
            except Exception:
                pass
        return [(path, App('int', *args))]

    def bi_bool(self, args, kw, path, node):
        if not args:
            return [(path, Const(False))]
        t = self.truth(args[0], path)
        if t is not None:
            return [(path, Const(t))]
        return [(path, App('bool', args[0]))]

    def bi_range(self, args, kw, path, node):
        return [(path, App('range', *args))]

    def bi_iter(self, args, kw, path, node):
        src = args[0] if args else None
        ordered = isinstance(src, Tup) or (
            isinstance(src, Coll) and src.kind == 'list') or (
            isinstance(src, Obj) and path.heap[src.oid].kind == 'list')
        items = self.concrete_iter(src, path) if ordered and len(args) == 1 \
            else None
        if items is not None:
            # an iterator over a sequence whose members are all known:
            # next() takes them in order, a loop takes what is left
            o = path.alloc('iterator', site=node)
            h = path.heap[o.oid]
            h.fields = {'$items': Tup(items), '$pos': Const(0)}
            return [(path, o)]
        return [(path, App('iter', self.snapshot(args[0], path)))]

    def bi_next(self, args, kw, path, node):
        it = args[0]
        if isinstance(it, Obj) and path.heap[it.oid].kind == 'iterator' and \
                len(args) in (1, 2) and not kw:
            h = path.heap[it.oid]
            items, pos = h.fields['$items'].items, h.fields['$pos'].v
            if pos < len(items):
                h.fields['$pos'] = Const(pos + 1)
                return [(path, items[pos])]
            if len(args) == 2:
                return [(path, args[1])]
            return [(path, Raise(New(ExtClass('StopIteration'), ()), node))]
        if isinstance(it, Obj) and path.heap[it.oid].kind == 'list' and \
                len(args) in (1, 2):
            h = path.heap[it.oid]
            if len(h.parts) == 1 and len(h.parts[0].gens) == 1 and \
                    h.parts[0].kind == 'elem' and \
                    h.parts[0].val == h.parts[0].gens[0][0] and \
                    not path.loops[h.loops_len:]:
                # next(x for x in XS if c(x)): the first x of XS with c(x);
                # what is known about it: it comes from XS and c holds
                # (StopIteration when there is none is an implicit raise).
                # With a default: the same search as the loop
                #     for x in XS:  if c(x): return x
                #     return default
                part = h.parts[0]
                var, src = part.gens[0]
                from .values import subst_value
                out = []
                if len(args) == 2:
                    q = path.fork()
                    ex = App('exists', var, src,
                             Tup(Tup((c, Const(pol)))
                                 for (c, pol) in part.conds))
                    q.pc.append((ex, False))
                    out.append((q, args[1]))
                e = path.fresh('nx', var.typ, meta=('elem', src))
                found = []

                def conjuncts(c, pol):
                    if pol and isinstance(c, App) and c.op == 'and':
                        for a in c.args:
                            for x in conjuncts(a, True):
                                yield x
                    else:
                        yield (c, pol)
                for (c, pol) in part.conds:
                    for (c2, pol2) in conjuncts(subst_value(c, {var: e}),
                                                pol):
                        found.append((c2, pol2))
                        self.assume(c2, pol2, path)
                path.notes.append(('exit-conds', tuple(found)))
                return [(path, e)] + out
        if isinstance(it, App) and it.op == 'iter':
            src = it.args[0]
            return [(path, path.fresh('nx', self.hooks.iter_elem_type(
                self, src, path), meta=('elem', src)))]
        if isinstance(it, BoundB) and it.name == '__iter__':
            pass
        return [(path, path.fresh('nx', None, meta=('next', it)))]

    def bi_id(self, args, kw, path, node):
        return [(path, App('id', args[0]))]

    def bi_hash(self, args, kw, path, node):
        return [(path, App('hash', args[0]))]

    def bi_print(self, args, kw, path, node):
        self.event(path, 'print', None, None, tuple(args), node)
        return [(path, Const(None))]

    def bi_type(self, args, kw, path, node):
        ci = self.class_of(args[0], path)
        if ci is not None and not (isinstance(args[0], Sym)):
            return [(path, CRef(ci))]
        return [(path, App('type', args[0]))]

    def _obs_sort_keys(self, xs, key, path, node):
        """sorted(xs, key=k) orders the values k(x): they are what is
        compared (observed like the operands of a sort without key)"""
        if getattr(self, 'observer', None) is None or key == Const(None):
            return
        try:
            q = path.fork()
            res = self._synthetic_comp(
                '[__sk_f(__sk_x) for __sk_x in __sk_xs]',
                {'__sk_f': key, '__sk_xs': xs}, q, node)
            for (q2, v) in res:
                if not isinstance(v, Raise):
                    self.obs('sort', (self.snapshot(v, q2),), q2, node)
        except Inconclusive:
            pass

    def bi_min(self, args, kw, path, node):
        if 'key' not in dict(kw):
            self.obs('sort', tuple(args), path, node)
        elif len(args) == 1:
            self._obs_sort_keys(args[0], dict(kw)['key'], path, node)
        return [(path, App('min', *[self.snapshot(a, path) for a in args]))]

    def bi_max(self, args, kw, path, node):
        if 'key' not in dict(kw):
            self.obs('sort', tuple(args), path, node)
        elif len(args) == 1:
            self._obs_sort_keys(args[0], dict(kw)['key'], path, node)
        if all(isinstance(a, Const) for a in args) and len(args) > 1:
            return [(path, Const(max(a.v for a in args)))]
        return [(path, App('max', *[self.snapshot(a, path) for a in args]))]

    def bi_sum(self, args, kw, path, node):
        items = self.concrete_iter(args[0], path) if args else None
        if items is not None and items and all(
                (isinstance(x, App) and x.op in ('in', 'cmp', 'not', 'and',
                                                 'or', 'isinstance', 'feq'))
                or (isinstance(x, Const) and isinstance(x.v, bool))
                for x in items):
            return [(path, App('boolsum', *items))]
        return [(path, App('sum', *[self.snapshot(a, path) for a in args]))]

    def _boolish(self, x):
        return (isinstance(x, App) and x.op in (
            'in', 'cmp', 'not', 'and', 'or', 'isinstance', 'feq')) or \
            (isinstance(x, Const) and isinstance(x.v, bool))

    def bi_any(self, args, kw, path, node):
        items = self.concrete_iter(args[0], path) if len(args) == 1 else None
        if items is not None and all(self._boolish(x) for x in items):
            # any([c1, .., cn]) over boolean conditions is their disjunction
            if any(isinstance(x, Const) and x.v for x in items):
                return [(path, Const(True))]
            rest = [x for x in items if not isinstance(x, Const)]
            if not rest:
                return [(path, Const(False))]
            return [(path, rest[0] if len(rest) == 1 else App('or', *rest))]
        return [(path, App('any', *[self.snapshot_deep(a, path)
                                    for a in args]))]

    def bi_all(self, args, kw, path, node):
        items = self.concrete_iter(args[0], path) if len(args) == 1 else None
        if items is not None and all(self._boolish(x) for x in items):
            if any(isinstance(x, Const) and not x.v for x in items):
                return [(path, Const(False))]
            rest = [x for x in items if not isinstance(x, Const)]
            if not rest:
                return [(path, Const(True))]
            return [(path, rest[0] if len(rest) == 1 else App('and', *rest))]
        return [(path, App('all', *[self.snapshot_deep(a, path)
                                    for a in args]))]

    def bi_getattr(self, args, kw, path, node):
        if len(args) >= 2 and isinstance(args[1], Const):
            return [(path, self.get_attr(args[0], args[1].v, path, node))]
        return [(path, App('getattr', *args))]

    def bi_hasattr(self, args, kw, path, node):
        # hasattr(<package module>, 'Name'): the static namespace decides
        if len(args) == 2 and isinstance(args[0], MRef) and \
                isinstance(args[1], Const) and isinstance(args[1].v, str):
            nm = args[0].name
            short = nm[len(self.prog.pkg) + 1:] if hasattr(
                self.prog, 'pkg') and nm.startswith(
                    self.prog.pkg + '.') else nm
            for cand in (nm, short):
                if cand in self.prog.modules:
                    r = self.prog.module_attr(cand, args[1].v)
                    return [(path, Const(r is not None))]
        return [(path, App('call', BRef('hasattr'), Tup(args)))]

    def bi_super(self, args, kw, path, node):
        if len(args) == 2 and isinstance(args[0], CRef):
            return [(path, App('super', args[0], args[1]))]
        if not args:
            # zero-argument form: class of the enclosing method
            f = self.stack[-1] if self.stack else None
            if f is not None and f.owner is not None:
                fo = None
                return [(path, App('super0', CRef(f.owner)))]
        return [(path, App('super', *args))]

    # -- methods of builtin containers / strings ------------------------------
    def builtin_method(self, recv, name, args, kw, path, node):
        if isinstance(recv, Obj):
            h = path.heap[recv.oid]
            if h.kind in ('list', 'set', 'dict'):
                return self.container_method(recv, name, args, path, node)
        if isinstance(recv, Const) and isinstance(recv.v, str):
            return self.str_method(recv, name, args, path, node, kw)
        if isinstance(recv, App) and recv.op == 'superext':
            base, obj = recv.args
            if name == '__new__' and args and isinstance(args[0], CRef):
                o = path.alloc('inst', site=node)
                path.heap[o.oid].ci = args[0].ci
                self.event(path, 'alloc', o, args[0].ci.qn, (), node)
                return [(path, o)]
            if name == '__init__':
                self.event(path, 'ext-init', obj, base.ci.name, tuple(args),
                           node)
                if isinstance(obj, Obj):
                    path.heap[obj.oid].fields['$base_init'] = Tup(
                        [self.snapshot(a, path) for a in args])
                return [(path, Const(None))]
            return [(path, App('extmethod', base, Const(name), obj,
                               Tup([self.snapshot(a, path) for a in args])))]
        if isinstance(recv, Tup) and name == '__iter__':
            return [(path, App('iter', recv))]
        if name == '__new__' and isinstance(recv, App) and \
                recv.op == 'attr' and recv.args[1] == Const('__class__') and \
                len(args) == 1 and args[0] == recv:
            # x.__class__.__new__(x.__class__): a bare instance of the class
            # of x (its declared class: the analysis is done for that one)
            ci = self.class_of(recv.args[0], path)
            if isinstance(ci, ClassInfo) and \
                    self.prog.method(ci, '__new__') is None:
                o = path.alloc('inst', site=node)
                path.heap[o.oid].ci = ci
                self.event(path, 'alloc', o, ci.qn, (), node)
                return [(path, o)]
        sargs = tuple(self.snapshot(a, path) for a in args)
        if name in MUTATORS:
            b = recv
            while isinstance(b, App) and b.op in ('item', 'dictget') and \
                    b.args:
                b = b.args[0]
            parts = ()
            if isinstance(b, Coll):
                parts = b.parts
            elif isinstance(b, Obj) and path.heap[b.oid].kind in (
                    'dict', 'list'):
                parts = path.heap[b.oid].parts
            via_get = isinstance(recv, App) and recv.op == 'dictget' and \
                isinstance(b, (Coll, Obj))
            if via_get or (b is not recv and any(
                    pt.gens or pt.kind == 'spread' for pt in parts)):
                # d[k].add(x) where d is a container made in this call and
                # d[k] is not one definite member: the summary of d would
                # silently miss the update
                self.inconclusive('%s() on a member of a container that is '
                                  'summarised by parts' % name, node)
            self.event(path, 'mutate', recv, name, sargs, node)
        else:
            self.event(path, 'mcall', recv, name, sargs, node)
        if name in ('keys', 'values', 'items'):
            return [(path, App('dictview', Const(name), recv))]
        if name == 'get' and len(args) in (1, 2) and \
                isinstance(recv, App) and recv.op == 'alphabet' and \
                isinstance(args[0], Const):
            # alphabet.get(name): the class table of the language
            al = self.prog.alphabet(recv.args[0].v)
            if args[0].v in al:
                return [(path, CRef(al[args[0].v]))]
            return [(path, args[1] if len(args) == 2 else Const(None))]
        if name == 'get' and len(args) in (1, 2) and \
                isinstance(recv, (Sym, App)):
            return [(path, App('dictget', recv, *args))]
        if name == '__iter__':
            return [(path, App('iter', recv))]
        if name == 'format' and self.is_strlike(recv):
            return [(path, App('fmt', Const('{}'), recv, Tup(
                [self.to_str(a, path, node) for a in args])))]
        return [(path, App('mcall', recv, Const(name), Tup(args)))]

    def str_method(self, recv, name, args, path, node, kw=()):
        if name == 'format':
            return [(path, self.str_format('{}', recv.v, args, path, node,
                                           kw))]
        if name == 'join' and len(args) == 1:
            items = self.concrete_iter(args[0], path)
            if items is not None:
                sitems = [self.to_str(i, path, node) for i in items]
                if all(isinstance(s, Const) for s in sitems):
                    return [(path, Const(recv.v.join(s.v for s in sitems)))]
                return [(path, App('join', recv, Tup(sitems)))]
            return [(path, App('join', recv, self.snapshot(args[0], path)))]
        if name == '__hash__':
            return [(path, App('hash', recv))]
        if all(isinstance(a, Const) for a in args):
            try:
                return [(path, Const(getattr(recv.v, name)(
                    *[a.v for a in args])))]
            except Exception:
                pass
        return [(path, App('mcall', recv, Const(name), Tup(args)))]

    def container_method(self, recv, name, args, path, node):
        name = {'popleft': 'pop', 'appendleft': 'append',
                'extendleft': 'extend'}.get(name, name)
        h = path.heap[recv.oid]
        gens = path.loops[h.loops_len:]
        conds = tuple(path.pc[h.pc_len:]) if gens else ()
        gl = [(l.var, l.iterable) for l in gens]
        kind = h.kind

        def add(v, spread=False, key=None):
            p = Part('spread' if spread else 'elem', v, key=key, gens=gl,
                     conds=conds)
            if kind == 'set' and p in h.parts:
                return
            h.parts.append(p)

        if name in ('add', 'append') and len(args) == 1:
            add(args[0])
            return [(path, Const(None))]
        if name in ('update', 'extend') and kind != 'dict' and \
                len(args) == 1:
            items = self.concrete_iter(args[0], path)
            if items is not None:
                for it in items:
                    add(it)
            else:
                add(self.snapshot(args[0], path), spread=True)
            return [(path, Const(None))]
        if name == 'update' and kind == 'dict' and len(args) == 1:
            src = args[0]
            if isinstance(src, App) and src.op == 'gen' and \
                    isinstance(src.args[0], Obj):
                src = src.args[0]
            if isinstance(src, Obj) and path.heap[src.oid].kind == 'list':
                # an iterable of (key, value) pairs
                pairs = path.heap[src.oid].parts
                if all(q.kind == 'elem' and isinstance(q.val, Tup) and
                       len(q.val.items) == 2 for q in pairs):
                    for q in pairs:
                        h.parts.append(Part(
                            'elem', q.val.items[1], key=q.val.items[0],
                            gens=tuple(gl) + tuple(q.gens),
                            conds=tuple(conds) + tuple(q.conds)))
                    return [(path, Const(None))]
                self.inconclusive('dict.update with an iterable that is '
                                  'not a sequence of pairs', node)
            add(self.snapshot(src, path), spread=True)
            return [(path, Const(None))]
        if name == 'setdefault' and kind == 'dict' and not gens and \
                len(args) in (1, 2):
            # d.setdefault(k, x)  ==  d[k] if k in d else (d[k] := x)
            default = args[1] if len(args) == 2 else Const(None)
            fk = self.fork_on_key(recv, args[0], path)
            if fk is not None:
                out = []
                for (q, i) in fk:
                    hq = q.heap[recv.oid]
                    if i is None:
                        hq.parts.append(Part('elem', default, key=args[0]))
                        out.append((q, default))
                    else:
                        out.append((q, hq.parts[i].val))
                return out
        if name == 'pop' and kind == 'list':
            if h.concrete() and not gens and h.parts and (
                    not args or (isinstance(args[0], Const))):
                i = args[0].v if args else -1
                try:
                    return [(path, h.parts.pop(i).val)]
                except Exception:
                    pass
            snap = self.snapshot(recv, path)
            h.havoc = True
            return [(path, path.fresh('pop', self.hooks.iter_elem_type(
                self, snap, path), meta=('elem', snap)))]
        if name in ('difference_update', 'intersection_update') and \
                kind == 'set' and len(args) == 1 and not gens and \
                not h.havoc and \
                getattr(h, 'loops_at', None) is not None and \
                len(h.loops_at) == len(path.loops) and \
                all(a is b for a, b in zip(h.loops_at, path.loops)):
            # s &= t / s -= t on a set created in this very iteration (or
            # outside every loop): exactly the set operation on what s was
            snap = self.snapshot(recv, path)
            h.parts = [Part('spread', App(
                'setop', Const('&' if name == 'intersection_update' else '-'),
                snap, self.snapshot(args[0], path)))]
            return [(path, Const(None))]
        if name in ('pop', 'remove', 'discard', 'clear', 'insert', 'sort',
                    'reverse', 'difference_update', 'intersection_update',
                    'symmetric_difference_update', 'popitem', 'setdefault'):
            snap = self.snapshot(recv, path)
            if name in ('sort', 'reverse') and not gens:
                h.reorder += (name,)     # the order itself is not modelled
            elif name == 'clear' and not gens:
                h.parts = []
            else:
                h.havoc = True
                h.parts.append(Part('spread', App('after', Const(name), snap,
                                                  Tup(args))))
            if name in ('pop', 'popitem'):
                return [(path, path.fresh('pop', None, meta=('elem', snap)))]
            return [(path, Const(None))]
        if name in ('keys', 'values', 'items'):
            return [(path, App('dictview', Const(name), recv))]
        if name == 'get' and kind == 'dict':
            for p in h.parts:
                if p.simple() and p.key == args[0]:
                    return [(path, p.val)]
            # d.get(k[, default]) on a dict whose members are all known:
            # the member itself (it may be modified through the result),
            # one path per key the symbolic k can denote
            fk = self.fork_on_key(recv, args[0], path) \
                if len(args) in (1, 2) else None
            if fk is not None:
                dflt = args[1] if len(args) == 2 else Const(None)
                return [(q, dflt if i is None else
                         q.heap[recv.oid].parts[i].val) for (q, i) in fk]
            return [(path, App('dictget', self.snapshot(recv, path),
                               *args))]
        if name == 'copy':
            o = path.alloc(kind, site=node)
            path.heap[o.oid].parts = list(h.parts)
            return [(path, o)]
        if name in ('union', 'intersection', 'difference') and args:
            op = {'union': ast.BitOr(), 'intersection': ast.BitAnd(),
                  'difference': ast.Sub()}[name]
            cur = [(path, recv)]
            for a in args:          # s.union(a, b, ..) folds every operand
                nxt = []
                for (q, acc) in cur:
                    if isinstance(acc, Raise):
                        nxt.append((q, acc))
                    else:
                        nxt.extend(self.binop(op, acc, a, q, node))
                cur = nxt
            return cur
        if name in ('__iter__',):
            return [(path, App('iter', self.snapshot(recv, path)))]
        if name in ('issubset', 'issuperset', 'isdisjoint', 'index',
                    'count'):
            return [(path, App('mcall', self.snapshot(recv, path),
                               Const(name), Tup(args)))]
        self.inconclusive('container method ' + name, node)


class _Done(object):
    def __init__(self, vals):
        self.vals = vals


def _literal_kind(n):
    if isinstance(n, ast.Dict) or isinstance(n, ast.DictComp):
        return 'dict'
    if isinstance(n, (ast.Set, ast.SetComp)):
        return 'set'
    if isinstance(n, (ast.List, ast.ListComp)):
        return 'list'
    if isinstance(n, ast.Call) and isinstance(n.func, ast.Name) and \
            n.func.id in ('dict', 'set', 'list', 'WeakSet', 'frozenset'):
        return {'WeakSet': 'set', 'frozenset': 'set'}.get(n.func.id,
                                                          n.func.id)
    return None


def kw_free(args):
    return True


NEG_CMP = {'==': '!=', '!=': '==', 'is': 'is not', 'is not': 'is',
           '<': '>=', '>=': '<', '>': '<=', '<=': '>'}


def _is_property(fnode):
    for d in fnode.decorator_list:
        if isinstance(d, ast.Name) and d.id == 'property':
            return True
    return False


def _is_classmethod(fnode):
    for d in fnode.decorator_list:
        if isinstance(d, ast.Name) and d.id == 'classmethod':
            return True
    return False


def _is_static(fnode):
    for d in fnode.decorator_list:
        if isinstance(d, ast.Name) and d.id == 'staticmethod':
            return True
    return False
