"""E7 -- validity of *extracted rewrite templates* (closed term schemas; never
repository code).

(i)  definitional normal form: both sides are normalised with the defining
     equations of doc/source/logics.rst and compared syntactically
     -> 'proved'
(ii) otherwise the two terms are evaluated with this module's own evaluator of
     the documented semantics: state-level schemas on every total Kripke
     structure up to n states (holes = fresh atoms; exact for state-formula
     holes), path-level schemas on every lasso up to a length bound
     -> 'bounded(n)' or a countermodel.
"""
import itertools


class NotEvaluable(Exception):
    pass


TEMPORAL = ('X', 'F', 'G', 'U', 'R')

# ---------------------------------------------------------------------------
# (i) normal form
# ---------------------------------------------------------------------------


def _kids(t):
    return t[2:]


def norm(t):
    """term -> core term over not/or/X/U/E/true/hole/atom"""
    k = t[0]
    if k in ('hole', 'raw'):
        return ('hole', t[1])
    if k == 'atom':
        return t
    if k == 'bool':
        return ('true',) if t[1] else neg(('true',))
    if k == 'LNot':
        return neg(norm(t[1]))
    ks = [norm(x) for x in _kids(t)]
    if k == 'Not':
        return neg(ks[0])
    if k == 'Or':
        return mk_or(ks)
    if k == 'And':
        return neg(mk_or([neg(x) for x in ks]))
    if k == 'Imply':
        return mk_or([neg(ks[0]), ks[1]])
    if k == 'X':
        return ('X', ks[0])
    if k == 'F':
        return ('U', ('true',), ks[0])
    if k == 'G':
        return neg(('U', ('true',), neg(ks[0])))
    if k == 'U':
        return ('U', ks[0], ks[1])
    if k == 'R':
        return neg(('U', neg(ks[0]), neg(ks[1])))
    if k == 'E':
        return ('E', ks[0])
    if k == 'A':
        return neg(('E', neg(ks[0])))
    raise NotEvaluable('unknown operator %s' % k)


def neg(t):
    if t[0] == 'not':
        return t[1]
    return ('not', t)


def mk_or(ks):
    flat = []
    for x in ks:
        if x[0] == 'or':
            flat.extend(x[1])
        else:
            flat.append(x)
    flat = sorted(set(flat), key=repr)
    if len(flat) == 1:
        return flat[0]
    return ('or', tuple(flat))


# ---------------------------------------------------------------------------
# (ii) semantics
# ---------------------------------------------------------------------------

class K(object):
    """tiny total Kripke structure: states 0..n-1"""

    def __init__(self, n, succ, lab):
        self.n = n
        self.succ = succ          # tuple of frozensets
        self.lab = lab            # tuple of frozensets of atom names
        self.S = frozenset(range(n))

    def pre(self, X):
        return frozenset(s for s in self.S if self.succ[s] & X)

    def describe(self):
        return {'states': self.n,
                'R': sorted((s, d) for s in range(self.n)
                            for d in self.succ[s]),
                'L': {s: sorted(self.lab[s]) for s in range(self.n)}}


def all_structures(n, atoms):
    subsets = [frozenset(c) for r in range(1, n + 1)
               for c in itertools.combinations(range(n), r)]
    labs = [frozenset(c) for r in range(len(atoms) + 1)
            for c in itertools.combinations(atoms, r)]
    for succ in itertools.product(subsets, repeat=n):
        for lab in itertools.product(labs, repeat=n):
            yield K(n, succ, lab)


def lfp(f):
    Z = frozenset()
    while True:
        Z2 = f(Z)
        if Z2 == Z:
            return Z
        Z = Z2


def gfp(f, top):
    Z = top
    while True:
        Z2 = f(Z)
        if Z2 == Z:
            return Z
        Z = Z2


def hole_atom(i):
    return 'abcdefg'[i]


def push_neg(p):
    """path term with a negation on top of a temporal operator -> dual"""
    k = p[0]
    if k in ('Not', 'LNot'):
        q = p[2] if k == 'Not' else p[1]
        q = strip(q)
        qk = q[0]
        L = q[1] if len(q) > 1 and isinstance(q[1], str) else None
        if qk == 'X':
            return ('X', L, ('LNot', q[2]))
        if qk == 'F':
            return ('G', L, ('LNot', q[2]))
        if qk == 'G':
            return ('F', L, ('LNot', q[2]))
        if qk == 'U':
            return ('R', L, ('LNot', q[2]), ('LNot', q[3]))
        if qk == 'R':
            return ('U', L, ('LNot', q[2]), ('LNot', q[3]))
        if qk in ('Not', 'LNot'):
            return push_neg(q[2] if qk == 'Not' else q[1])
        if qk == 'Or':
            return ('And', L) + tuple(('LNot', x) for x in q[2:])
        if qk == 'And':
            return ('Or', L) + tuple(('LNot', x) for x in q[2:])
        if qk == 'Imply':
            return ('And', L, q[2], ('LNot', q[3]))
    return p


def strip(p):
    return p


def is_state_term(t):
    k = t[0]
    if k in ('hole', 'raw', 'atom', 'bool'):
        return True
    if k == 'LNot':
        return is_state_term(t[1])
    if k in ('A', 'E'):
        return True
    if k in TEMPORAL:
        return False
    return all(is_state_term(x) for x in t[2:])


class Sem(object):
    """CTL-shaped evaluation of a state-level term on M.
    F is None: ordinary semantics.  F = list of state sets: fair semantics of
    Clarke-Grumberg-Peled (quantifiers range over fair paths, an atom holds
    where it labels the state and a fair path starts)."""

    def __init__(self, M, F=None):
        self.M = M
        self.F = F
        self.fair = None
        if F is not None:
            self.fair = self.fair_eg(M.S)

    def eu(self, f, g):
        M = self.M
        return lfp(lambda Z: g | (f & M.pre(Z)))

    def fair_eg(self, f):
        M = self.M
        if not self.F:
            return gfp(lambda Z: f & M.pre(Z), M.S)

        def step(Z):
            r = f
            for P in self.F:
                r = r & M.pre(self.eu(f, Z & P))
            return r
        return gfp(step, M.S)

    def state(self, t):
        M = self.M
        k = t[0]
        if k in ('hole', 'raw'):
            a = hole_atom(t[1])
            return frozenset(s for s in M.S if a in M.lab[s])
        if k == 'atom':
            r = frozenset(s for s in M.S if t[1] in M.lab[s])
            return r & self.fair if self.fair is not None else r
        if k == 'bool':
            return M.S if t[1] else frozenset()
        if k == 'LNot':
            return M.S - self.state(t[1])
        ks = t[2:]
        if k == 'Not':
            return M.S - self.state(ks[0])
        if k == 'Or':
            r = frozenset()
            for x in ks:
                r |= self.state(x)
            return r
        if k == 'And':
            r = M.S
            for x in ks:
                r &= self.state(x)
            return r
        if k == 'Imply':
            return (M.S - self.state(ks[0])) | self.state(ks[1])
        if k in ('A', 'E'):
            return self.quant(k, ks[0])
        raise NotEvaluable('path operator %s where a state formula is '
                           'needed' % k)

    def quant(self, q, p):
        M = self.M
        S = M.S
        if q == 'A':
            # A p == not E not p (also under fairness)
            return S - self.quant('E', ('LNot', p))
        p = push_neg(p)
        k = p[0]
        if is_state_term(p):
            r = self.state(p)
            # E p for a state formula p: p holds and a (fair) path starts
            return r & self.fair if self.fair is not None else r
        ks = p[2:]
        if k == 'Or':
            r = frozenset()
            for x in ks:
                r |= self.quant('E', x)
            return r
        if k == 'And':
            st = [x for x in ks if is_state_term(x)]
            pt = [x for x in ks if not is_state_term(x)]
            if len(pt) == 1:
                r = self.quant('E', pt[0])
                for x in st:
                    r &= self.state(x)
                return r
            raise NotEvaluable('E over a conjunction of path formulas')
        if k not in TEMPORAL:
            raise NotEvaluable('E over %s is not CTL-shaped' % k)
        for x in ks:
            if not is_state_term(x):
                raise NotEvaluable('E%s over a path formula' % k)
        v = [self.state(x) for x in ks]
        fair = self.fair if self.fair is not None else S
        if k == 'X':
            return M.pre(v[0] & fair)
        if k == 'F':
            return self.eu(S, v[0] & fair)
        if k == 'G':
            return self.fair_eg(v[0])
        if k == 'U':
            return self.eu(v[0], v[1] & fair)
        if k == 'R':
            return self.eu(v[1], v[0] & v[1] & fair) | self.fair_eg(v[1])
        raise NotEvaluable(k)


def ev_state(t, M, F=None):
    return Sem(M, F).state(t)


def check_state_schema(lhs, rhs, nmax, atoms):
    """compare two state-level terms on every total structure with at most
    nmax states.  -> ('bounded', n_structures) | ('counter', model, l, r)"""
    count = 0
    for n in range(1, nmax + 1):
        for M in all_structures(n, atoms):
            count += 1
            a = ev_state(lhs, M)
            b = ev_state(rhs, M)
            if a != b:
                return ('counter', M.describe(), sorted(a), sorted(b))
    return ('bounded', count)


# -- path level (lassos) ------------------------------------------------------

def ev_path(t, word, loop):
    """truth value of the path term at every position of the lasso
    word[0..n-1] with word[n-1] -> word[loop]; letters are frozensets"""
    n = len(word)
    nxt = [i + 1 if i + 1 < n else loop for i in range(n)]

    def go(t):
        k = t[0]
        if k in ('hole', 'raw'):
            a = hole_atom(t[1])
            return [a in word[i] for i in range(n)]
        if k == 'atom':
            return [t[1] in word[i] for i in range(n)]
        if k == 'bool':
            return [t[1]] * n
        if k == 'LNot':
            return [not x for x in go(t[1])]
        ks = [go(x) for x in t[2:]]
        if k == 'Not':
            return [not x for x in ks[0]]
        if k == 'Or':
            return [any(c[i] for c in ks) for i in range(n)]
        if k == 'And':
            return [all(c[i] for c in ks) for i in range(n)]
        if k == 'Imply':
            return [(not ks[0][i]) or ks[1][i] for i in range(n)]
        if k == 'X':
            return [ks[0][nxt[i]] for i in range(n)]
        if k in ('F', 'U'):
            f = ks[0] if k == 'U' else [True] * n
            g = ks[1] if k == 'U' else ks[0]
            v = [False] * n
            for _ in range(n + 1):
                v = [g[i] or (f[i] and v[nxt[i]]) for i in range(n)]
            return v
        if k in ('G', 'R'):
            f = ks[0] if k == 'R' else [False] * n
            g = ks[1] if k == 'R' else ks[0]
            v = [True] * n
            for _ in range(n + 1):
                v = [g[i] and (f[i] or v[nxt[i]]) for i in range(n)]
            return v
        raise NotEvaluable('path evaluation of %s' % k)
    return go(t)


def all_lassos(maxlen, atoms):
    letters = [frozenset(c) for r in range(len(atoms) + 1)
               for c in itertools.combinations(atoms, r)]
    for n in range(1, maxlen + 1):
        for word in itertools.product(letters, repeat=n):
            for loop in range(n):
                yield word, loop


def check_path_schema(lhs, rhs, maxlen, atoms):
    count = 0
    for word, loop in all_lassos(maxlen, atoms):
        count += 1
        a = ev_path(lhs, word, loop)
        b = ev_path(rhs, word, loop)
        if a != b:
            i = [x != y for x, y in zip(a, b)].index(True)
            return ('counter', {'word': [sorted(w) for w in word],
                                'loop_to': loop, 'position': i}, a[i], b[i])
    return ('bounded', count)


def has_quantifier(t):
    if t[0] in ('A', 'E'):
        return True
    if t[0] == 'LNot':
        return has_quantifier(t[1])
    if t[0] in ('hole', 'raw', 'atom', 'bool'):
        return False
    return any(has_quantifier(x) for x in t[2:])


def holes_of(t, acc=None):
    acc = set() if acc is None else acc
    if t[0] in ('hole', 'raw'):
        acc.add(t[1])
    elif t[0] == 'LNot':
        holes_of(t[1], acc)
    elif t[0] not in ('atom', 'bool'):
        for x in t[2:]:
            holes_of(x, acc)
    return acc


def subst(t, m):
    """replace hole i by term m[i]"""
    if t[0] in ('hole', 'raw'):
        return m.get(t[1], t)
    if t[0] == 'LNot':
        return ('LNot', subst(t[1], m))
    if t[0] in ('atom', 'bool'):
        return t
    return t[:2] + tuple(subst(x, m) for x in t[2:])


# instantiations of path holes used when a quantifier schema has to be
# evaluated (holes of A/E rules in CTL* range over path formulas)
PATH_INSTANCES = [
    lambda i: ('X', None, ('atom', hole_atom(i))),
    lambda i: ('F', None, ('atom', hole_atom(i))),
    lambda i: ('G', None, ('atom', hole_atom(i))),
    lambda i: ('U', None, ('atom', hole_atom(i)), ('atom', 'z')),
    lambda i: ('R', None, ('atom', hole_atom(i)), ('atom', 'z')),
    lambda i: ('atom', hole_atom(i)),
]


def decide(lhs, rhs, level, tier, state_holes):
    """-> dict(verdict='proved'|'bounded'|'counter'|'unknown', ...)"""
    try:
        if norm(lhs) == norm(rhs):
            return {'verdict': 'proved', 'how': 'definitional normal form'}
    except NotEvaluable:
        pass
    hs = sorted(holes_of(lhs) | holes_of(rhs))
    atoms = [hole_atom(i) for i in hs]
    extra = sorted(set(_atoms(lhs) | _atoms(rhs)))
    try:
        if not has_quantifier(lhs) and not has_quantifier(rhs) and \
                level == 'path':
            ml = 4 if tier == 'quick' else 6
            if len(atoms + extra) > 2:
                ml -= 1
            r = check_path_schema(lhs, rhs, ml, atoms + extra)
            if r[0] == 'counter':
                return {'verdict': 'counter', 'model': r[1],
                        'lhs_value': r[2], 'rhs_value': r[3]}
            return {'verdict': 'bounded', 'how': 'all %d lassos of length '
                    '<= %d over %s' % (r[1], ml, atoms + extra)}
        nmax = 2 if tier == 'quick' else 3
        if state_holes:
            r = check_state_schema(lhs, rhs, nmax, atoms + extra)
            if r[0] == 'counter':
                return {'verdict': 'counter', 'model': r[1],
                        'lhs_value': r[2], 'rhs_value': r[3]}
            return {'verdict': 'bounded', 'how': 'all %d total structures '
                    'with <= %d states over %s' % (r[1], nmax,
                                                   atoms + extra)}
        # quantifier schema with path holes: instantiate
        total = 0
        for inst in PATH_INSTANCES:
            m = {i: inst(i) for i in hs}
            l2, r2 = subst(lhs, m), subst(rhs, m)
            at = sorted(set(_atoms(l2) | _atoms(r2)))
            r = check_state_schema(l2, r2, nmax, at)
            if r[0] == 'counter':
                return {'verdict': 'counter', 'model': r[1],
                        'instance': {('c%d' % i): _show(m[i]) for i in hs},
                        'lhs_value': r[2], 'rhs_value': r[3]}
            total += r[1]
        return {'verdict': 'bounded', 'how': 'path holes instantiated by '
                'X a, F a, G a, a U z, a R z, a; %d structure evaluations '
                'with <= %d states' % (total, nmax)}
    except NotEvaluable as e:
        return {'verdict': 'unknown', 'why': str(e)}


def _atoms(t, acc=None):
    acc = set() if acc is None else acc
    if t[0] == 'atom':
        acc.add(t[1])
    elif t[0] == 'LNot':
        _atoms(t[1], acc)
    elif t[0] not in ('hole', 'raw', 'bool'):
        for x in t[2:]:
            _atoms(x, acc)
    return acc


def _show(t):
    from .templates import show
    return show(t)
