"""E5 -- grammar analyser.

The Lark grammar text of each parser is obtained by abstractly interpreting
`init_submodule` (the `.format` call over the alphabet's symbols is constant
folded from the class attributes) -- the repository is not imported.  The text
is handed to the third-party `lark` package only to expand EBNF into plain
productions (`Lark(..).rules`); everything else (callback semantics, sort
typing, canonical LR(1) conflicts, recogniser over sentential forms) is done
here.
"""
import re

from .program import AnalysisError, Inconclusive, ClassInfo
from .values import (Const, Sym, CRef, FRef, MRef, ERef, Bound, Obj, Tup,
                     App, New, Raise, Coll)
from .interp import Interp, Hooks
from .formulas import FormulaHooks, LANGS

PARSER_MODS = {'PL': 'PL.parser', 'CTLS': 'CTLS.parser', 'CTL': 'CTL.parser',
               'LTL': 'LTL.parser'}


class Rule(object):
    def __init__(self, idx, origin, rhs, alias):
        self.idx = idx
        self.origin = origin
        self.rhs = rhs                # list of (name, is_term, filter_out)
        self.alias = alias

    def helper(self):
        return self.origin.startswith('_')

    def __repr__(self):
        return '%s -> %s%s' % (self.origin, ' '.join(n for n, _, _ in
                                                     self.rhs),
                               ' -> ' + self.alias if self.alias else '')


class Grammar(object):
    def __init__(self, lang):
        self.lang = lang
        self.text = None
        self.start = None
        self.rules = []
        self.terminals = {}           # name -> ('str'|'re', value)
        self.ignore = []
        self.transformer = None       # ClassInfo
        self.language = None          # module name the parser defaults to
        self.parser_cls = None
        self.callbacks = {}           # alias/rule name -> callback summary
        self.lark_kw = {}

    def nonterminals(self):
        return sorted(set(r.origin for r in self.rules))

    def by_origin(self, n):
        return [r for r in self.rules if r.origin == n]


class _CaptureHooks(FormulaHooks):
    def __init__(self, prog):
        FormulaHooks.__init__(self, prog, check_sorts=False)
        self.lark_calls = []

    def call(self, I, fv, args, kw, path, node):
        if isinstance(fv, ERef) and fv.name.endswith('Lark'):
            self.lark_calls.append((args, dict(kw)))
            return [(path, Sym('lark_parser'))]
        return None


def extract(prog, lang):
    g = Grammar(lang)
    mod = prog.module(PARSER_MODS[lang])
    if 'Parser' not in mod.classes:
        raise AnalysisError('class Parser not found in %s' % mod.name)
    pc = mod.classes['Parser']
    g.parser_cls = pc
    # 1. grammar text: interpret init_submodule
    if 'init_submodule' in mod.funcs:
        f = mod.funcs['init_submodule']
        I = Interp(prog, Hooks(), rule='E5')
        path = I.new_path()
        res = I.call_function(FRef(f), [], [], path, f.node)
        texts = [e.args[0] for (p, v) in res for e in p.log
                 if e.kind == 'setattr' and e.name == 'grammar']
        if len(texts) != 1 or not isinstance(texts[0], Const):
            raise Inconclusive('E5', 'grammar text of %s is not a constant '
                               'after formatting: %r' % (lang, texts[:1]),
                               f.where())
        g.text = texts[0].v
    else:
        r = pc.lookup('grammar')
        if r is None or not hasattr(r[1], 'value'):
            raise AnalysisError('no grammar text in %s' % mod.name)
        g.text = r[1].value
    # 2. Parser.__init__ -> language default, transformer, Lark options
    init = prog.method(pc, '__init__')
    hooks = _CaptureHooks(prog)
    I = Interp(prog, hooks, rule='E5')
    path = I.new_path()
    o = path.alloc('inst')
    path.heap[o.oid].ci = pc
    I.call_function(FRef(init), [o, Const(None)], [], path, init.node)
    if len(hooks.lark_calls) != 1:
        raise Inconclusive('E5', '%d Lark(...) constructions in %s.Parser' % (
            len(hooks.lark_calls), lang), init.where())
    args, kw = hooks.lark_calls[0]
    gt = args[0] if args else kw.get('grammar')
    if isinstance(gt, App) and gt.op == 'classattr':
        pass
    g.lark_kw = {k: (v.v if isinstance(v, Const) else v) for k, v in
                 kw.items() if k != 'transformer'}
    g.start = g.lark_kw.get('start', 'start')
    tr = kw.get('transformer')
    if isinstance(tr, Obj) and path.heap[tr.oid].kind == 'inst':
        h = path.heap[tr.oid]
        g.transformer = h.ci
        lv = h.fields.get('__lang__')
        g.language = lv.name if isinstance(lv, MRef) else repr(lv)
        # containers of the transformer become immutable snapshots: the
        # callbacks are interpreted later, on other paths
        g.transformer_fields = {k: I.snapshot_deep(v, path)
                                for k, v in h.fields.items()}
    else:
        raise Inconclusive('E5', 'transformer of %s.Parser is %r' % (lang,
                                                                     tr),
                           init.where())
    # 3. productions
    try:
        from lark import Lark
    except Exception as e:
        raise AnalysisError('lark is not importable: %s' % e)
    try:
        L = Lark(g.text, start=g.start, parser='lalr')
    except Exception as e:
        raise Inconclusive('E5', 'lark rejects the grammar of %s: %s' % (
            lang, str(e)[:200]), mod.relpath)
    for i, r in enumerate(L.rules):
        rhs = [(s.name, s.is_term, bool(getattr(s, 'filter_out', False)))
               for s in r.expansion]
        g.rules.append(Rule(i, r.origin.name, rhs, r.alias))
    # lark splices the children of a rule whose name starts with `_` into
    # its parent: a non-recursive helper with a single production is the
    # same grammar (language and values) with the helper written out
    changed = True
    while changed:
        changed = False
        by_origin = {}
        for ru in g.rules:
            by_origin.setdefault(ru.origin, []).append(ru)
        for H, prods in by_origin.items():
            if not H.startswith('_') or len(prods) != 1 or \
                    prods[0].alias is not None or H == g.start:
                continue
            body = prods[0].rhs
            if any(n == H for (n, _, _) in body):
                continue
            used = False
            for ru in g.rules:
                if ru is prods[0]:
                    continue
                if any(n == H for (n, _, _) in ru.rhs):
                    new = []
                    for sym in ru.rhs:
                        if sym[0] == H:
                            new.extend(body)
                        else:
                            new.append(sym)
                    ru.rhs = new
                    used = True
            if used:
                g.rules = [ru for ru in g.rules if ru is not prods[0]]
                for i, ru in enumerate(g.rules):
                    ru.idx = i
                changed = True
                break
    for t in L.terminals:
        kind = 'str' if t.pattern.type == 'str' else 're'
        g.terminals[t.name] = (kind, t.pattern.value)
    g.ignore = list(L.ignore_tokens)
    # 4. callbacks
    names = set()
    for r in g.rules:
        if r.alias:
            names.add(r.alias)
        elif not r.helper():
            names.add(r.origin)
    g.prog = prog
    for n in sorted(names):
        g.callbacks[n] = callback_summary(prog, g, n)
    return g


def callback_summary(prog, g, name):
    """('missing',) | ('pass', i) | ('construct', ClassInfo, 'star')
    | ('const', ClassInfo, value) | ('atom', ClassInfo, how) | ('other', v)"""
    f = prog.method(g.transformer, name)
    if f is None:
        return ('missing',)
    hooks = FormulaHooks(prog, check_sorts=False)
    I = Interp(prog, hooks, rule='E5')
    path = I.new_path()
    o = path.alloc('inst')
    path.heap[o.oid].ci = g.transformer
    for k, v in getattr(g, 'transformer_fields', {}).items():
        path.heap[o.oid].fields[k] = v
    try:
        fbase = prog.cls('%s.Formula' % LANGS[g.lang])
        ch = Sym('children', ('b', 'list', ('inst', fbase)))
    except Exception:
        ch = Sym('children', ('b', 'list'))
    res = I.call_function(FRef(f), [o, ch], [], path, f.node)
    res = [(p, v) for (p, v) in res if not isinstance(v, Raise)]
    if len(res) != 1:
        # several outcomes: what do they depend on?  If every condition is
        # about the children themselves (their class, their operands) the
        # callback *inspects* its operands: its value is not a function of
        # the children's values alone
        conds = [c for (p, v) in res for (c, pol) in p.pc]
        from .values import walk as _walk
        on_kids = bool(conds) and all(
            any(x == ch for x in _walk(c)) for c in conds)
        return ('other', 'paths=%d' % len(res), f,
                'inspects-children' if on_kids else None,
                [repr(c)[:80] for c in conds[:3]])
    v = res[0][1]
    if isinstance(v, App) and v.op == 'item' and v.args[0] == ch and \
            isinstance(v.args[1], Const):
        return ('pass', v.args[1].v, f)
    if isinstance(v, App) and v.op == 'call' and \
            isinstance(v.args[0], CRef) and \
            isinstance(v.args[0].ci, ClassInfo) and \
            v.args[1] == Tup([App('star', ch)]):
        return ('construct', v.args[0].ci, f)
    if isinstance(v, App) and v.op == 'call' and \
            isinstance(v.args[0], CRef) and \
            isinstance(v.args[0].ci, ClassInfo):
        return ('construct-other', v.args[0].ci, repr(v.args[1])[:80], f)
    if isinstance(v, App) and v.op == 'call' and \
            isinstance(v.args[0], FRef):
        return ('function', v.args[0].fi, repr(v.args[1])[:80], f)
    if isinstance(v, New) and isinstance(v.ci, ClassInfo):
        if len(v.args) == 1 and v.args[0] == App('star', ch):
            return ('construct', v.ci, f)
        if len(v.args) == 1 and isinstance(v.args[0], Const):
            return ('const', v.ci, v.args[0].v, f)
        if len(v.args) == 1:
            a = v.args[0]
            if a == App('str', App('item', ch, Const(0))):
                return ('atom', v.ci, 'token', f)
            if isinstance(a, App) and a.op == 'item' and \
                    a.args[0] == App('str', App('item', ch, Const(0))):
                return ('atom', v.ci, 'token' + repr(a.args[1]), f)
        return ('other', repr(v), f)
    return ('other', repr(v), f)


# ---------------------------------------------------------------------------
# derivation values
# ---------------------------------------------------------------------------

def production_value(g, rule, kid_vals):
    """value of one production given the values of its (unfiltered) children
    kid_vals: list aligned with rule.rhs: value | None for filtered tokens |
    ('splice', [vals]) for helper rules"""
    flat = []
    for (sym, v) in zip(rule.rhs, kid_vals):
        if v is None:
            continue
        if isinstance(v, tuple) and v and v[0] == 'splice':
            flat.extend(v[1])
        else:
            flat.append(v)
    if rule.helper():
        return ('splice', tuple(flat))
    name = rule.alias or rule.origin
    cb = g.callbacks.get(name, ('missing',))
    if cb[0] == 'pass':
        if cb[1] < len(flat):
            return flat[cb[1]]
        return ('error', 'pass-through of child %d of %d' % (cb[1],
                                                            len(flat)))
    if cb[0] == 'construct':
        return (cb[1].name,) + tuple(flat)
    if cb[0] == 'function':
        return ('via:' + cb[1].name,) + tuple(flat)
    if cb[0] == 'construct-other':
        return (cb[1].name, ('rearranged',) + tuple(flat))
    if cb[0] == 'const':
        return ('bool', cb[2]) if cb[1].name == 'Bool' \
            else (cb[1].name, cb[2])
    if cb[0] == 'atom':
        return ('atom',) + tuple(flat)
    if cb[0] == 'missing':
        return ('tree', name) + tuple(flat)
    # a callback that is not one of the generic shapes: interpreted on
    # exactly this many children (reduce / loops over the children fold
    # concretely), the built tree is read off the result
    shape = callback_on(g, name, len(flat))
    if shape is not None:
        def fill(t):
            if t[0] == 'hole':
                return flat[t[1]]
            return (t[0],) + tuple(fill(x) for x in t[1:])
        return fill(shape)
    return ('opaque', name) + tuple(flat)


_CB_CACHE = {}


def callback_on(g, name, n):
    """tree built by callback `name` of grammar g from n children, as
    (ClassName, sub..) over ('hole', i) leaves; None when not understood"""
    prog = getattr(g, 'prog', None)
    if prog is None:
        return None
    key = (id(g), name, n)
    if key in _CB_CACHE:
        return _CB_CACHE[key]
    out = None
    try:
        from .formulas import LANGS
        f = prog.method(g.transformer, name)
        al = prog.alphabet(LANGS[g.lang])
        hooks = FormulaHooks(prog, check_sorts=False)
        I = Interp(prog, hooks, rule='E5')
        path = I.new_path()
        o = path.alloc('inst')
        path.heap[o.oid].ci = g.transformer
        for k, v in getattr(g, 'transformer_fields', {}).items():
            path.heap[o.oid].fields[k] = v
        kids = [New(al['AtomicProposition'], (Const('$child%d' % i),))
                for i in range(n)]
        lst = I._mk_coll('list', kids, path, None)
        res = I.call_function(FRef(f), [o, lst], [], path, f.node)
        res = [(p, v) for (p, v) in res if not isinstance(v, Raise)]
        if len(res) == 1:
            def conv(v):
                if isinstance(v, New) and isinstance(v.ci, ClassInfo):
                    if v.ci.name == 'AtomicProposition' and \
                            len(v.args) == 1 and \
                            isinstance(v.args[0], Const) and \
                            str(v.args[0].v).startswith('$child'):
                        return ('hole', int(str(v.args[0].v)[6:]))
                    sub = [conv(a) for a in v.args]
                    if any(x is None for x in sub):
                        return None
                    return (v.ci.name,) + tuple(sub)
                return None
            out = conv(res[0][1])
    except Exception:
        out = None
    _CB_CACHE[key] = out
    return out


class Recogniser(object):
    """all values of all derivations of a sentential form (sequence of
    terminal names and ('hole', i) placeholders) from a nonterminal"""

    def __init__(self, g, hole_nts):
        self.g = g
        self.hole_nts = hole_nts      # nonterminals a child may stand for
        self.memo = {}
        self.active = set()

    def derive(self, nt, form):
        self.form = form
        self.memo = {}
        return self.nt(nt, 0, len(form))

    def nt(self, N, i, j):
        key = (N, i, j)
        if key in self.memo:
            return self.memo[key]
        if key in self.active:
            return set()
        self.active.add(key)
        out = set()
        if j == i + 1 and isinstance(self.form[i], tuple) and \
                self.form[i][0] == 'hole' and N in self.hole_nts:
            out.add(self.form[i])
        for r in self.g.by_origin(N):
            for vals in self.seq(r.rhs, 0, i, j):
                out.add(production_value(self.g, r, list(vals)))
        self.active.discard(key)
        self.memo[key] = out
        return out

    def seq(self, rhs, k, i, j):
        if k == len(rhs):
            if i == j:
                yield ()
            return
        name, is_term, filt = rhs[k]
        rest = len(rhs) - k - 1
        if is_term:
            if i < j and self.form[i] == name:
                for tail in self.seq(rhs, k + 1, i + 1, j):
                    yield ((None if filt else ('tok', name)),) + tail
            elif i < j and isinstance(self.form[i], tuple) and \
                    self.form[i][0] == 'tokval' and self.form[i][1] == name:
                for tail in self.seq(rhs, k + 1, i + 1, j):
                    yield ((None if filt else self.form[i][2]),) + tail
            return
        for m in range(i + 1, j - rest + 1):
            vs = self.nt(name, i, m)
            if not vs:
                continue
            for tail in self.seq(rhs, k + 1, m, j):
                for v in vs:
                    yield (v,) + tail


def tokenise(g, text):
    """split printer literal text into terminal names (maximal munch over
    the string terminals, identifiers by the regex terminals)"""
    out = []
    i = 0
    strs = sorted(((v, n) for n, (k, v) in g.terminals.items() if k == 'str'),
                  key=lambda x: -len(x[0]))
    regs = [(re.compile(v), n) for n, (k, v) in g.terminals.items()
            if k == 're' and n not in g.ignore]
    ws = [re.compile(g.terminals[n][1]) for n in g.ignore
          if n in g.terminals]
    while i < len(text):
        m = None
        for w in ws:
            m = w.match(text, i)
            if m and m.end() > i:
                break
            m = None
        if m:
            i = m.end()
            continue
        best = None
        for (s, n) in strs:
            if text.startswith(s, i):
                best = (len(s), n, s)
                break
        for (rx, n) in regs:
            m = rx.match(text, i)
            if m and m.end() > i and (best is None or
                                      m.end() - i > best[0]):
                best = (m.end() - i, ('tokval', n, m.group(0)), m.group(0))
        if best is None:
            return None
        out.append(best[1])
        i += best[0]
    return out


# ---------------------------------------------------------------------------
# canonical LR(1)
# ---------------------------------------------------------------------------

def lr1_conflicts(rules, start, max_states=6000):
    """rules: list of (origin, [symbols], tag); terminals are the symbols
    that are no origin.  -> list of conflicts (kind, state, symbol, a, b)"""
    nts = set(o for (o, _, _) in rules)
    prods = [('$S', [start], None)] + [(o, list(r), t) for (o, r, t) in rules]
    by = {}
    for idx, (o, r, t) in enumerate(prods):
        by.setdefault(o, []).append(idx)
    # FIRST sets (no epsilon productions expected; handled anyway)
    nullable = set()
    changed = True
    while changed:
        changed = False
        for (o, r, t) in prods:
            if o not in nullable and all(s in nullable for s in r):
                nullable.add(o)
                changed = True
    first = {n: set() for n in nts | {'$S'}}
    changed = True
    while changed:
        changed = False
        for (o, r, t) in prods:
            for s in r:
                add = first[s] if s in first else {s}
                if not add <= first[o]:
                    first[o] |= add
                    changed = True
                if s not in nullable:
                    break

    def first_seq(seq, la):
        out = set()
        for s in seq:
            out |= first[s] if s in first else {s}
            if s not in nullable:
                return out
        out.add(la)
        return out

    def closure(items):
        items = set(items)
        todo = list(items)
        while todo:
            (p, d, la) = todo.pop()
            r = prods[p][1]
            if d < len(r) and r[d] in by:
                for la2 in first_seq(r[d + 1:], la):
                    for q in by[r[d]]:
                        it = (q, 0, la2)
                        if it not in items:
                            items.add(it)
                            todo.append(it)
        return frozenset(items)

    I0 = closure([(0, 0, '$end')])
    states = {I0: 0}
    order = [I0]
    conflicts = []
    k = 0
    while k < len(order):
        I = order[k]
        k += 1
        if len(order) > max_states:
            raise Inconclusive('E5', 'LR(1) automaton too large', '')
        trans = {}
        reduces = {}
        for (p, d, la) in I:
            r = prods[p][1]
            if d < len(r):
                trans.setdefault(r[d], set()).add((p, d + 1, la))
            else:
                reduces.setdefault(la, set()).add(p)
        for la, ps in reduces.items():
            if len(ps) > 1:
                ps = sorted(ps)
                conflicts.append(('reduce/reduce', states[I], la,
                                  prods[ps[0]], prods[ps[1]]))
            if la in trans and la not in by:
                sh = sorted(set(p for (p, d, _) in trans[la]))
                conflicts.append(('shift/reduce', states[I], la,
                                  prods[sorted(ps)[0]], prods[sh[0]]))
        for s, items in trans.items():
            J = closure(items)
            if J not in states:
                states[J] = len(order)
                order.append(J)
    return conflicts, len(order)
