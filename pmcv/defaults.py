"""R-DEF-1 -- a mutable default argument that the function modifies is state
kept across calls (the default is evaluated once, when the function is
defined, and shared by every call -- and, for a method of a base class, by
every subclass and every instance)."""
import ast

MUTATORS = ('append', 'extend', 'insert', 'add', 'update', 'setdefault',
            'pop', 'popitem', 'remove', 'discard', 'clear', 'sort',
            'reverse', '__setitem__', '__delitem__')


def _mutable_default(d):
    if isinstance(d, (ast.Dict, ast.List, ast.Set, ast.ListComp, ast.DictComp,
                      ast.SetComp)):
        return True
    return isinstance(d, ast.Call) and isinstance(d.func, ast.Name) and \
        d.func.id in ('dict', 'list', 'set', 'defaultdict', 'OrderedDict',
                      'WeakValueDictionary', 'WeakKeyDictionary', 'WeakSet',
                      'deque', 'Counter')


def written_defaults(fnode):
    """[(parameter name, default source, line of the write, how)]"""
    a = fnode.args
    pos = a.posonlyargs + a.args
    pairs = list(zip(pos[len(pos) - len(a.defaults):], a.defaults)) + \
        [(k, d) for k, d in zip(a.kwonlyargs, a.kw_defaults) if d is not None]
    out = []
    for (arg, d) in pairs:
        if not _mutable_default(d):
            continue
        name = arg.arg
        rebinds = [n for n in ast.walk(fnode)
                   if isinstance(n, ast.Assign) and any(
                       isinstance(t, ast.Name) and t.id == name
                       for t in n.targets)]
        if rebinds:
            continue        # rebound inside: not (only) the shared object
        for n in ast.walk(fnode):
            how = None
            if isinstance(n, ast.Subscript) and isinstance(n.value, ast.Name) \
                    and n.value.id == name and \
                    isinstance(n.ctx, (ast.Store, ast.Del)):
                how = '%s[...] is assigned' % name
            elif isinstance(n, ast.Call) and \
                    isinstance(n.func, ast.Attribute) and \
                    isinstance(n.func.value, ast.Name) and \
                    n.func.value.id == name and n.func.attr in MUTATORS:
                how = '%s.%s(...)' % (name, n.func.attr)
            elif isinstance(n, ast.AugAssign) and \
                    isinstance(n.target, ast.Name) and n.target.id == name:
                how = '%s %s= ...' % (name, type(n.op).__name__)
            if how:
                out.append((name, ast.unparse(d), n.lineno, how))
                break
    return out


_POS = "def string(self, s, known={}):\n    if s not in known:\n        known[s] = make(s)\n    return known[s]\n"
_NEG = "def f(self, s, table=None, seen=()):\n    table = {} if table is None else table\n    table[s] = 1\n    return table\n"


def rule(prog, prop, files=None):
    from .report import Finding, RuleResult, floor
    from .program import Inconclusive
    r = RuleResult('R-DEF-1', 'no function modifies a mutable default '
                   'argument (state shared by all calls)')
    if not written_defaults(ast.parse(_POS).body[0]) or \
            written_defaults(ast.parse(_NEG).body[0]):
        raise Inconclusive('R-DEF-1', 'matcher self-test failed', '')
    n = 0
    for f in prog.all_functions():
        if files is not None and not any(f.module.relpath.endswith(x)
                                         for x in files):
            continue
        nodes = [f.node] + [m for m in ast.walk(f.node)
                            if isinstance(m, ast.FunctionDef) and
                            m is not f.node]
        for node in nodes:
            n += 1
            for (name, dflt, line, how) in written_defaults(node):
                r.fail(Finding(
                    prop, 'R-DEF-1', '%s:%d' % (f.module.relpath, line),
                    f.short(), 'default:%s=%s' % (name, dflt),
                    '%s has the mutable default `%s=%s` and modifies it '
                    '(%s): the object is created once and shared by every '
                    'call (for a method: by every instance and subclass), so '
                    'what one call stores is seen by all later ones' % (
                        f.short(), name, dflt, how)))
    r.inst(functions_scanned=n)
    if not r.findings:
        r.ok()
    floor('R-DEF-1', 'functions scanned', n, 3)
    r.notes.append('matcher self-test: positive example reported, negative '
                   'example silent')
    return r
