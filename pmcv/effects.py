"""E6 -- interprocedural effect / alias summaries.

For every function of the package (interpreted on symbolic parameters, no
inlining of package callees):

  mutates[f]   parameter indices whose reachable state f may modify
  ralias[f]    parameter indices a value returned by f may alias (or contain)
  stores[f]    j -> parameter indices whose values f may store into the
               reachable state of parameter j
  gwrites[f]   writes to module / class attributes
  calls[f]     resolved callees (for reachability)

Unknown receivers are resolved by method name over the whole class table
(class-hierarchy analysis); constructors return fresh objects (that the
constructors of DiGraph / Kripke copy their arguments is decided by C13/C14).
A least fixpoint closes the summaries over the call graph.
"""
import ast

from .program import ClassInfo, ExtClass, FuncInfo, Inconclusive
from .values import (Const, Sym, CRef, FRef, MRef, ERef, BRef, Bound, BoundB,
                     Obj, Tup, App, New, Coll, Raise, walk)
from .interp import Interp, Hooks

# methods of builtin containers / views through which the receiver's
# internals stay reachable (result aliases or contains parts of receiver)
PASS_THROUGH = ('keys', 'values', 'items', '__iter__', 'get', 'setdefault',
                'pop', 'popitem')
FRESH_BUILTINS = ('copy', 'union', 'intersection', 'difference', 'format',
                  'join', 'split', 'strip', '__hash__', 'index', 'count',
                  'issubset', 'issuperset', 'isdisjoint', '__str__')


class _SummaryHooks(Hooks):
    def __init__(self, fi):
        self.fi = fi

    def inline(self, I, fi, args):
        # nested functions / lambdas of the analysed function are part of it
        return fi.qual.startswith(self.fi.qual + '.<locals>') or \
            fi.name == '<lambda>'

    def construct(self, I, ci, args, kw, path, node):
        if isinstance(ci, ClassInfo):
            I.event(path, 'construct', CRef(ci), ci.qn, (tuple(args),
                                                         tuple(kw)), node)
            return [(path, New(ci, args, kw))]
        return None


def _higher_order(fv):
    """a callee that is a computed function value: the result of a call, an
    element taken from a container / iterator, a loop variable"""
    if isinstance(fv, App) and fv.op in ('call', 'mcall', 'ite'):
        return True
    if isinstance(fv, Sym) and fv.meta and fv.meta[0] in (
            'elem', 'next', 'loopvar', 'widened'):
        return True
    return False


# method names that change a standard container, whatever its class is
GLOBAL_MUTATORS = ('setdefault', 'add', 'append', 'update', 'pop', 'popitem',
                   'clear', 'remove', 'discard', 'extend', 'insert',
                   '__setitem__', '__delitem__', 'appendleft', 'popleft',
                   'sort', 'reverse')


class ArgRoots(list):
    """roots per argument of one call site, with two facts per argument"""
    fresh = None
    exact = None


class Summary(object):
    def __init__(self, fi, nparams):
        self.fi = fi
        self.nparams = nparams
        self.mutates = {}       # idx -> list of reasons
        self.ralias = set()
        self.stores = {}        # j -> set(i)
        self.gwrites = []
        self.callsites = []     # (callee key, [roots per arg], node, recvroot)
        self.ret_calls = []     # callsite indices whose result is returned
        self.ambient = []
        self.failed = None
        self.raw_writes = []    # (kind, name, target, where, roots)
        self.rkinds = set()
        self.deep = set()       # parameters mutated *below* the object
                                # itself (a field / member / element of it);
                                # a parameter in mutates but not here is only
                                # changed as a container (append/pop/add/..)
        self.opaque = []        # calls of a function *value* (result of a
                                # call, element of a container) with
                                # argument-rooted operands: effects unknown

    def __repr__(self):
        return 'Summary(%s mut=%s ralias=%s stores=%s)' % (
            self.fi.short(), sorted(self.mutates), sorted(self.ralias),
            {k: sorted(v) for k, v in self.stores.items()})


class Effects(object):
    def __init__(self, prog, modules=None):
        self.prog = prog
        self.funcs = [f for f in prog.all_functions()
                      if modules is None or any(
                          f.module.name.startswith(prog.module(m).name)
                          for m in modules)]
        self.by_name = {}
        for f in prog.all_functions():
            self.by_name.setdefault(f.name, []).append(f)
        self.summ = {}
        self.by_node = {}
        for f in prog.all_functions():
            self.by_node[id(f.node)] = f
        # least fixpoint: callee summaries start empty and grow
        self.passes = 0
        for f in self.funcs:
            s0 = Summary(f, 0)
            s0.pnames = []
            self.summ[f.qn] = s0
        while self.passes < 8:
            self.passes += 1
            changed = False
            for f in self.funcs:
                new = self.local_summary(f)
                old = self.summ[f.qn]
                sig_old = (sorted(old.mutates), sorted(old.ralias),
                           sorted((k, tuple(sorted(v)))
                                  for k, v in old.stores.items()))
                for k, v in old.mutates.items():
                    new.mutates.setdefault(k, v)
                new.ralias |= old.ralias
                for k, v in old.stores.items():
                    new.stores.setdefault(k, set()).update(v)
                self.summ[f.qn] = new
                sig_new = (sorted(new.mutates), sorted(new.ralias),
                           sorted((k, tuple(sorted(v)))
                                  for k, v in new.stores.items()))
                if sig_new != sig_old:
                    changed = True
            self.fixpoint()
            if not changed:
                break

    # ------------------------------------------------------------------
    def roots(self, v, params, depth=0):
        """parameter indices the value may alias / be a component of"""
        out = set()
        if depth > 12:
            return out
        if isinstance(v, Sym):
            if v in params:
                out.add(params[v])
            elif v.meta and v.meta[0] in ('elem', 'next'):
                out |= self.roots(v.meta[1], params, depth + 1)
            elif v.meta and v.meta[0] in ('widened', 'loopvar', 'loopfield'):
                xs = [v.meta[2]] if v.meta[0] == 'loopvar' else [v.meta[-1]]
                if v.meta[0] == 'loopvar' and len(v.meta) > 3:
                    xs.extend(v.meta[3])
                for x in xs:
                    if isinstance(x, (Sym, App, Coll, Tup)):
                        out |= self.roots(x, params, depth + 1)
            return out
        if isinstance(v, App):
            if v.op in ('global', 'classattr'):
                return {-1}
            if v.op in ('attr', 'item', 'iter', 'dictget', 'gen', 'star'):
                return self.roots(v.args[0], params, depth + 1)
            if v.op == 'dictview':
                return self.roots(v.args[1], params, depth + 1)
            if v.op == 'ite':
                return self.roots(v.args[1], params, depth + 1) | \
                    self.roots(v.args[2], params, depth + 1)
            if v.op in ('and', 'or'):
                for a in v.args:
                    out |= self.roots(a, params, depth + 1)
                return out
            if v.op == 'mcall':
                name = v.args[1].v
                recv = v.args[0]
                if name in FRESH_BUILTINS:
                    return out
                cands = self.resolve_name(name, recv)
                if not cands:
                    if name in PASS_THROUGH:
                        return self.roots(recv, params, depth + 1)
                    return out
                args = [recv] + list(v.args[2].items)
                for f in cands:
                    s = self.summ.get(f.qn)
                    if s is None:
                        out |= self.roots(recv, params, depth + 1)
                        continue
                    for j in s.ralias:
                        if j < len(args):
                            out |= self.roots(args[j], params, depth + 1)
                return out
            if v.op == 'call':
                fv = v.args[0]
                args = list(v.args[1].items)
                if isinstance(fv, ERef) and fv.name == 'copy.deepcopy':
                    return out          # a deep copy shares nothing
                f = None
                if isinstance(fv, FRef):
                    f = fv.fi
                elif isinstance(fv, Bound):
                    f = fv.f.fi
                    args = [fv.recv] + args
                if f is not None:
                    s = self.summ.get(self._key(f))
                    if s is not None:
                        for j in s.ralias:
                            if j < len(args):
                                out |= self.roots(args[j], params, depth + 1)
                        return out
                for a in args:
                    out |= self.roots(a, params, depth + 1)
                return out
            return out
        if isinstance(v, Coll):
            # a container built here: it can alias an argument only through
            # mutable members; set members / dict keys are hashable values
            if v.kind == 'set':
                for p in v.parts:
                    if p.kind == 'spread' and isinstance(p.val, App) and \
                            p.val.op == 'after':
                        continue
                return out
            for p in v.parts:
                if p.kind == 'elem':
                    out |= self.roots(p.val, params, depth + 1)
            return out
        if isinstance(v, Tup):
            for x in v.items:
                out |= self.roots(x, params, depth + 1)
            return out
        if isinstance(v, (Bound, BoundB)):
            return self.roots(v.recv, params, depth + 1)
        if isinstance(v, New):
            return out          # fresh (constructors copy: C13/C14)
        return out

    def _key(self, f):
        g = self.by_node.get(id(f.node))
        return (g or f).qn

    def resolve_name(self, name, recv=None):
        """class-hierarchy analysis: package methods called `name`"""
        return [f for f in self.by_name.get(name, []) if f.owner is not None]

    # ------------------------------------------------------------------
    def local_summary(self, f):
        node = f.node
        a = node.args
        pnames = [x.arg for x in a.posonlyargs + a.args]
        if a.vararg:
            pnames.append(a.vararg.arg)
        pnames += [x.arg for x in a.kwonlyargs]
        s = Summary(f, len(pnames))
        from .interp import user_decorators
        if isinstance(node, ast.FunctionDef) and user_decorators(node):
            # the name is bound to what the decorator returns: the effects
            # of that wrapper (a table it fills, ...) are not in the body
            s.opaque.append('%s is decorated by %s: effects of the wrapper '
                            'unknown' % (f.short(), ', '.join(
                                ast.unparse(d) for d in
                                user_decorators(node))))
        hooks = _SummaryHooks(f)
        I = Interp(self.prog, hooks, rule='E6', max_paths=3000)
        path = I.new_path()
        params = {}
        args = []
        npos = len(a.posonlyargs + a.args)
        for i, n in enumerate(pnames):
            typ = None
            if i == 0 and f.owner is not None and not _is_static(node) and \
                    n in ('self',):
                typ = ('inst', f.owner)
            v = Sym('p_' + n, typ)
            params[v] = i
            args.append(v)
        s.param_syms = params
        s.pnames = pnames
        try:
            if a.vararg:
                # bind *args explicitly
                call_args = args[:npos] + [App('star', args[npos])]
                res = I.call_function(FRef(f), args[:npos], [], path, node) \
                    if False else None
            fo = path.alloc('frame')
            h = path.heap[fo.oid]
            h.module = f.module
            h.fnode = node
            h.self_cls = f.owner
            for n, v in zip(pnames, args):
                h.vars[n] = v
            I.stack.append(f)
            try:
                if _is_gen(node):
                    lst = path.alloc('list', site=node)
                    h.vars['$yield'] = lst
                res = I.exec_block(node.body, fo.oid, path)
            finally:
                I.stack.pop()
        except Inconclusive as e:
            s.failed = str(e)
            return s
        except RecursionError:
            s.failed = 'recursion'
            return s
        for (p, sig) in res:
            self._collect(s, I, p, sig, params, f)
        return s

    def _collect(self, s, I, p, sig, params, f):
        def note_mut(i, why, node):
            s.mutates.setdefault(i, [])
            w = '%s at %s' % (why, I.where(node, f.module))
            if w not in s.mutates[i]:
                s.mutates[i].append(w)

        for e in p.log:
            if e.kind in ('mutate', 'setattr', 'setitem', 'delete'):
                tgt = e.target
                if isinstance(tgt, (MRef, CRef)) or (
                        isinstance(tgt, App) and tgt.op == 'classattr') or (
                        isinstance(tgt, App) and tgt.op in ('attr', 'item')
                        and isinstance(_base(tgt), (MRef, CRef))):
                    s.gwrites.append('%s.%s at %s' % (
                        tgt, e.name, I.where(e.node, f.module)))
                    continue
                rts = self.roots(tgt, params)
                s.raw_writes.append((e.kind, e.name, tgt,
                                     I.where(e.node, f.module),
                                     tuple(sorted(rts))))
                for i in rts:
                    if i == -1:
                        s.gwrites.append('%s %s on module/class level '
                                         'object %r at %s' % (
                                             e.kind, e.name or '', _base(tgt),
                                             I.where(e.node, f.module)))
                        continue
                    note_mut(i, '%s %s' % (e.kind, e.name or ''), e.node)
                    if not (isinstance(tgt, Sym) and params.get(tgt) == i
                            and e.kind in ('mutate', 'setitem', 'delete')):
                        s.deep.add(i)
                # stores: values put into the state of a parameter
                if e.kind == 'setitem':
                    cand = e.args[1:]          # the key is a hashable value
                elif e.kind == 'mutate' and e.name in ('add', 'discard',
                                                       'remove'):
                    cand = ()                  # set members are hashable
                else:
                    cand = e.args
                vals = [x for x in cand if isinstance(x, (Sym, App, Coll,
                                                          Tup, Obj))]
                for j in self.roots(tgt, params):
                    for x in vals:
                        for i in self.roots(I.snapshot(x, p) if
                                            isinstance(x, Obj) else x,
                                            params):
                            s.stores.setdefault(j, set()).add(i)
            elif e.kind in ('call', 'mcall', 'construct'):
                if e.kind == 'mcall' and e.name in GLOBAL_MUTATORS and \
                        -1 in self.roots(e.target, params):
                    g = '%s on module/class level object %r at %s' % (
                        e.name, _base(e.target), I.where(e.node, f.module))
                    if g not in s.gwrites:
                        s.gwrites.append(g)
                if e.kind == 'mcall':
                    key = ('name', e.name)
                    args = [e.target] + list(e.args)
                elif e.kind == 'construct':
                    ci = e.target.ci
                    init = self.prog.method(ci, '__init__')
                    key = ('func', self._key(init)) if init else None
                    args = [Const(None)] + list(e.args[0])
                else:
                    fv = e.target
                    args = list(e.args[0])
                    kws = list(e.args[1]) if len(e.args) > 1 else []
                    callee = None
                    if isinstance(fv, FRef):
                        key = ('func', self._key(fv.fi))
                        callee = fv.fi
                    elif isinstance(fv, Bound):
                        key = ('func', self._key(fv.f.fi))
                        args = [fv.recv] + args
                        callee = fv.f.fi
                    if callee is not None and kws:
                        ca = callee.node.args
                        names = [x.arg for x in ca.posonlyargs + ca.args]
                        for (kn, kv) in kws:
                            if kn in names:
                                idx = names.index(kn)
                                while len(args) <= idx:
                                    args.append(Const(None))
                                args[idx] = kv
                    if isinstance(fv, (FRef, Bound)):
                        pass
                    else:
                        key = ('unknown', repr(fv)[:60])
                        if _higher_order(fv):
                            rs0 = set()
                            for x in args:
                                if isinstance(x, (Sym, App, Coll, Tup, Obj)):
                                    rs0 |= self.roots(
                                        I.snapshot(x, p) if isinstance(
                                            x, Obj) else x, params)
                            if rs0:
                                s.opaque.append('%s called at %s' % (
                                    repr(fv)[:80], I.where(e.node,
                                                           f.module)))
                        if isinstance(fv, ERef) and any(
                                fv.name.startswith(x) for x in
                                ('random', 'time', 'os.', 'uuid')):
                            s.ambient.append('%s at %s' % (
                                fv.name, I.where(e.node, f.module)))
                if key is None:
                    continue
                rs = [self.roots(I.snapshot(x, p) if isinstance(x, Obj)
                                 else x, params) if isinstance(
                    x, (Sym, App, Coll, Tup, Obj, Bound, BoundB)) else set()
                      for x in args]
                rs = ArgRoots(rs)
                # an argument that is a container made in this call (only
                # its members can belong to a parameter), or a parameter
                # handed on as it is
                rs.fresh = [isinstance(x, Obj) and p.heap[x.oid].kind in (
                    'list', 'set', 'dict') for x in args]
                rs.exact = [params.get(x) if isinstance(x, Sym) else None
                            for x in args]
                s.callsites.append((key, rs, e.node, f))
        # returned value
        if isinstance(sig, tuple) and sig[0] == 'ret':
            v = sig[1]
            if isinstance(v, Obj):
                s.rkinds.add(p.heap[v.oid].kind if p.heap[v.oid].kind !=
                             'inst' else 'inst:' + p.heap[v.oid].ci.short())
            elif isinstance(v, App) and v.op == 'call' and \
                    isinstance(v.args[0], (FRef, Bound)):
                fx = v.args[0].fi if isinstance(v.args[0], FRef) \
                    else v.args[0].f.fi
                s.rkinds.add('call:' + self._key(fx))
            elif isinstance(v, Const):
                s.rkinds.add('const:' + type(v.v).__name__)
            elif isinstance(v, App) and v.op == 'call' and \
                    _higher_order(v.args[0]):
                # the result of calling a function value: nothing is known
                # about what it aliases
                s.rkinds.add('opaque-call:' + repr(v.args[0])[:60])
                s.opaque.append('result of %s returned' % repr(
                    v.args[0])[:80])
                v = None
            else:
                s.rkinds.add('other:' + repr(v)[:80])
            if isinstance(v, Obj):
                hv = p.heap[v.oid]
                if hv.kind in ('list', 'set', 'dict'):
                    # a fresh container: aliasing only through mutable
                    # members (see roots)
                    s.ralias |= self.roots(I.snapshot(v, p), params)
                    v = None
            if v is not None:
                s.ralias |= self.roots(v, params)
        if '$yield' in p.heap[min(p.heap)].vars if p.heap else False:
            pass

    # ------------------------------------------------------------------
    def callees(self, key):
        if key[0] == 'func':
            s = self.summ.get(key[1])
            return [s] if s is not None else []
        if key[0] == 'name':
            return [self.summ[f.qn] for f in self.resolve_name(key[1])
                    if f.qn in self.summ]
        return []

    def fixpoint(self):
        changed = True
        rounds = 0
        while changed and rounds < 50:
            changed = False
            rounds += 1
            for s in self.summ.values():
                for (key, rs, node, f) in s.callsites:
                    for cs in self.callees(key):
                        for j, why in list(cs.mutates.items()):
                            if j < len(rs):
                                shallow = j not in cs.deep
                                if shallow and getattr(rs, 'fresh', None) \
                                        and rs.fresh[j]:
                                    # the callee only changes the container
                                    # it is given, and that one is ours
                                    continue
                                for i in rs[j]:
                                    if i == -1:
                                        g = ('module/class level object '
                                             'passed to %s (parameter %s), '
                                             'which modifies it, at %s:%s'
                                             % (cs.fi.short(),
                                                cs.pnames[j] if j < len(
                                                    cs.pnames) else j,
                                                f.module.relpath,
                                                getattr(node, 'lineno', '?')))
                                        if g not in s.gwrites:
                                            s.gwrites.append(g)
                                            changed = True
                                        continue
                                    if not (shallow and getattr(
                                            rs, 'exact', None) and
                                            rs.exact[j] == i) and \
                                            i not in s.deep:
                                        s.deep.add(i)
                                        changed = True
                                    if i not in s.mutates:
                                        s.mutates[i] = [
                                            'passes it to %s (parameter %s) '
                                            'at %s:%s' % (
                                                cs.fi.short(),
                                                cs.pnames[j] if j < len(
                                                    cs.pnames) else j,
                                                f.module.relpath,
                                                getattr(node, 'lineno', '?'))]
                                        changed = True
                        for j, srcs in list(cs.stores.items()):
                            if j < len(rs):
                                for tj in list(rs[j]):
                                    for i0 in list(srcs):
                                        if i0 < len(rs):
                                            for i in list(rs[i0]):
                                                if i not in s.stores.get(
                                                        tj, ()):
                                                    s.stores.setdefault(
                                                        tj, set()).add(i)
                                                    changed = True
                # values read back from a parameter into which others were
                # stored
                for j in list(s.ralias):
                    for i in s.stores.get(j, ()):
                        if i not in s.ralias:
                            s.ralias.add(i)
                            changed = True
            # ralias depends on callee ralias: recompute lazily
            for s in self.summ.values():
                if s.failed:
                    continue
        self.rounds = rounds

    # ------------------------------------------------------------------
    def reachable(self, entry_qns):
        seen = set()
        todo = list(entry_qns)
        while todo:
            q = todo.pop()
            if q in seen or q not in self.summ:
                continue
            seen.add(q)
            for (key, rs, node, f) in self.summ[q].callsites:
                for cs in self.callees(key):
                    todo.append(cs.fi.qn)
                    # an object of a package class is created: its methods
                    # (operators, dunders) can be invoked implicitly
                    if cs.fi.name == '__init__' and cs.fi.owner is not None:
                        for c in cs.fi.owner.mro:
                            if not isinstance(c, ClassInfo):
                                continue
                            for mn, mnode in c.attrs.items():
                                if isinstance(mnode, ast.FunctionDef):
                                    m = self.prog.method(c, mn, own=True)
                                    if m.qn in self.summ:
                                        todo.append(m.qn)
        return seen


def _base(v):
    while isinstance(v, App) and v.op in ('attr', 'item', 'mcall'):
        v = v.args[0]
    return v


def _is_static(fnode):
    return any(isinstance(d, ast.Name) and d.id == 'staticmethod'
               for d in fnode.decorator_list)


def _is_gen(fnode):
    todo = list(ast.iter_child_nodes(fnode))
    while todo:
        n = todo.pop()
        if isinstance(n, (ast.Yield, ast.YieldFrom)):
            return True
        if isinstance(n, (ast.FunctionDef, ast.Lambda, ast.ClassDef)):
            continue
        todo.extend(ast.iter_child_nodes(n))
    return False
