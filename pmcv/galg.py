"""E4 -- set/graph algebra summaries.

GraphHooks: the operations of DiGraph / Kripke are *primitives* with the
semantics documented in graph.py / kripke.py (that graph.py implements them
is C13's business).  A function that composes them (CTL handlers, fair
states, ...) is summarised by the abstract interpreter as a closed term over
these primitives, set operators and comprehension parts.

Evaluator: decides equality of such an extracted term with a specification on
every small model (the term is this module's own IR, not repository code).
"""
import itertools

from .program import ClassInfo, Inconclusive
from .values import (FoldInfo, V, Const, Sym, CRef, FRef, Bound, BoundB, Obj, Tup, App,
                     New, Coll, Part, Raise)
from .interp import Hooks

GRAPH_FIELDS = ('$base', '$edges', '$nodes')


def ctor_params(prog, ci, documented):
    """names of the constructor's parameters, by position (the documented
    names unless the source calls them differently)"""
    f = prog.method(ci, '__init__', own=True)
    if f is None:
        return list(documented)
    names = [a.arg for a in f.node.args.args[1:1 + len(documented)]]
    return names if len(names) == len(documented) else list(documented)


class GraphHooks(Hooks):
    """mix-in: intercepts graph primitives"""

    def graph_init(self, prog):
        self.gprog = prog
        self.digraph = prog.cls('graph.DiGraph')
        self.kripke = prog.cls('kripke.Kripke')
        self.sccs = prog.func('graph.compute_SCCs')
        self.param_mutations = []

    def is_graph(self, I, v, path):
        ci = I.class_of(v, path)
        return isinstance(ci, ClassInfo) and ci.is_subclass_of(self.digraph)

    def snap_graph(self, I, g, path):
        if isinstance(g, Obj):
            h = path.heap[g.oid]
            if h.kind == 'inst' and '$base' in h.fields:
                return App('graph', h.fields['$base'],
                           I.snapshot(h.fields['$edges'], path),
                           I.snapshot(h.fields['$nodes'], path),
                           I.snapshot(h.fields['$sedges'], path))
        return g

    def new_graph(self, I, base, path, node, ci=None):
        o = path.alloc('inst', site=node)
        h = path.heap[o.oid]
        h.ci = ci or self.digraph
        h.fields['$base'] = base
        h.fields['$edges'] = path.alloc('set', site=node)
        h.fields['$nodes'] = path.alloc('set', site=node)
        h.fields['$sedges'] = path.alloc('list', site=node)
        return o

    adjacency_field = '_next'

    def getattr(self, I, val, name, path, node):
        # the adjacency dictionary of a graph that exists only as a
        # constructor primitive: materialised when it is the empty graph,
        # otherwise outside the fragment (never a silently lost update)
        if isinstance(val, Obj) and name == self.adjacency_field:
            h = path.heap.get(val.oid)
            if h is not None and h.kind == 'inst' and h.fields is not None \
                    and '$base' in h.fields and name not in h.fields:
                base = h.fields['$base']
                untouched = all(
                    not path.heap[h.fields[k].oid].parts
                    for k in ('$edges', '$nodes', '$sedges')
                    if isinstance(h.fields.get(k), Obj))
                if base == App('mkgraph', Const(None), Const(None)) and \
                        untouched:
                    d = path.alloc('dict', site=node)
                    h.fields[name] = d
                    return d
                I.inconclusive('direct access to the adjacency of a graph '
                               'built by the constructor', node)
        return None

    def graph_call(self, I, fv, args, kw, path, node):
        if isinstance(fv, FRef) and fv.fi is self.sccs and len(args) == 1:
            return [(path, App('sccs', self.snap_graph(I, args[0], path)))]
        if not isinstance(fv, Bound):
            return None
        owner = fv.f.fi.owner
        if owner is None or not owner.is_subclass_of(self.digraph):
            return None
        g = fv.recv
        name = fv.f.fi.name
        sg = self.snap_graph(I, g, path)
        a = [I.snapshot(x, path) for x in args]
        if name in ('nodes', 'states') and not a:
            return [(path, App('nodes', sg))]
        if name == 'next' and len(a) == 1:
            return [(path, App('next', sg, a[0]))]
        if name in ('edges', 'edges_iter', 'transitions',
                    'transitions_iter') and not a:
            return [(path, App('edges', sg))]
        if name == 'sources' and not a:
            return [(path, App('sources', sg))]
        if name == 'labelling_function' and not a:
            return [(path, App('labeldict', sg))]
        if name == 'labels':
            if a and a[0] != Const(None):
                return [(path, App('labels', sg, a[0]))]
            return [(path, App('alllabels', sg))]
        if name == 'get_subgraph' and len(a) == 1:
            return [(path, self.new_graph(I, App('subgraph', sg, a[0]), path,
                                          node))]
        if name == 'clone' and not a:
            gci = I.class_of(g, path)
            return [(path, self.new_graph(I, App('gcopy', sg), path, node,
                                          ci=gci))]
        if name == 'get_reversed_graph' and not a:
            return [(path, self.new_graph(I, App('reversed', sg), path,
                                          node))]
        if name == 'get_reachable_set_from' and len(a) == 1:
            o = path.alloc('set', site=node)
            path.heap[o.oid].parts.append(Part('spread',
                                               App('reach', sg, a[0])))
            return [(path, o)]
        if name in ('add_edge', 'add_node'):
            if isinstance(g, Obj) and '$base' in path.heap[g.oid].fields:
                h = path.heap[g.oid]
                catches = [any(('Exception' in t or 'RuntimeError' in t or
                                'BaseException' in t) for t in ts)
                           for ts in I.try_stack]
                depth = len(path.loops)
                tl = getattr(I, 'try_loops', [0] * len(catches))
                # tolerated per call: a handler entered inside the
                # innermost loop; a handler around a loop does catch the
                # RuntimeError but the rest of the loop is skipped
                guarded = any(c and tl[i] >= depth
                              for i, c in enumerate(catches))
                outer = any(c and tl[i] < depth
                            for i, c in enumerate(catches))
                if name == 'add_node':
                    fld, meth = '$nodes', 'add'
                elif guarded:
                    fld, meth = '$edges', 'add'
                else:
                    # add_edge raises RuntimeError on an existing edge
                    fld, meth = '$sedges', 'append'
                    if outer:
                        I.event(path, 'loop-abort', g, name, tuple(args),
                                node)
                tgt = h.fields[fld]
                val = Tup(args) if name == 'add_edge' else args[0]
                I.container_method(tgt, meth, [val], path, node)
                I.event(path, name, g, name, tuple(args), node)
                return [(path, Const(None))]
            self.param_mutations.append((g, name, node))
            I.event(path, 'mutate', g, name, tuple(args), node)
            return [(path, Const(None))]
        return None

    def call(self, I, fv, args, kw, path, node):
        return self.graph_call(I, fv, args, kw, path, node)

    def graph_construct(self, I, ci, args, kw, path, node):
        """DiGraph(V, E) / Kripke(S, S0, R, L) built directly"""
        if not (isinstance(ci, ClassInfo) and
                ci.is_subclass_of(self.digraph)):
            return None
        kwd = dict(kw)
        a = list(args)
        none = Const(None)
        if ci.is_subclass_of(self.kripke):
            names = ctor_params(self.gprog, self.kripke,
                                ['S', 'S0', 'R', 'L'])
        else:
            names = ctor_params(self.gprog, self.digraph, ['V', 'E'])
        vals = {}
        for i, n in enumerate(names):
            vals[n] = a[i] if i < len(a) else kwd.get(n, none)
        V = I.snapshot(vals[names[0]], path)
        # the edges: third parameter of Kripke, second of DiGraph
        E = I.snapshot(vals[names[2] if len(names) == 4 else names[1]], path)
        op = 'mkkripke' if ci.is_subclass_of(self.kripke) else 'mkgraph'
        return [(path, self.new_graph(I, App(op, V, E), path, node, ci=ci))]

    def construct(self, I, ci, args, kw, path, node):
        return self.graph_construct(I, ci, args, kw, path, node)

    def iter_elem_type(self, I, iterable, path):
        return None


# ---------------------------------------------------------------------------
# concrete models and evaluation of extracted terms
# ---------------------------------------------------------------------------

class NotEvaluable(Exception):
    pass


class CG(object):
    """concrete digraph"""
    __slots__ = ('nodes', 'succ')

    def __init__(self, nodes, succ):
        self.nodes = frozenset(nodes)
        self.succ = {n: frozenset(succ.get(n, ())) for n in self.nodes}

    def edges(self):
        return frozenset((s, d) for s in self.nodes for d in self.succ[s])

    def key(self):
        return (self.nodes, self.edges())

    def __eq__(self, o):
        return isinstance(o, CG) and self.key() == o.key()

    def __hash__(self):
        return hash(self.key())

    def __repr__(self):
        return 'G(V=%s,E=%s)' % (sorted(self.nodes, key=repr),
                                 sorted(self.edges(), key=repr))


def _as_graph(g):
    """a Kripke structure value is its transition graph here (DiGraph-level
    operations on the subclass)"""
    return g.g if not hasattr(g, 'nodes') and hasattr(g, 'g') else g


def g_subgraph(g, X):
    g = _as_graph(g)
    V = g.nodes & frozenset(X)
    return CG(V, {s: g.succ[s] & V for s in V})


def g_reversed(g):
    g = _as_graph(g)
    succ = {n: set() for n in g.nodes}
    for s in g.nodes:
        for d in g.succ[s]:
            succ[d].add(s)
    return CG(g.nodes, succ)


def g_reach(g, X):
    g = _as_graph(g)
    X = frozenset(X)
    if not X <= g.nodes:
        raise GraphError('reachability from a non-node %s' % sorted(
            X - g.nodes, key=repr))
    R = set(X)
    todo = list(X)
    while todo:
        s = todo.pop()
        for d in g.succ[s]:
            if d not in R:
                R.add(d)
                todo.append(d)
    return frozenset(R)


def g_sccs(g):
    g = _as_graph(g)
    out = []
    seen = set()
    rg = g_reversed(g)
    for n in sorted(g.nodes, key=repr):
        if n in seen:
            continue
        c = g_reach(g, [n]) & g_reach(rg, [n])
        seen |= c
        out.append(frozenset(c))
    return tuple(out)


class GraphError(Exception):
    """the documented precondition of a graph primitive is violated"""


class Evaluator(object):
    def __init__(self, env):
        self.env = dict(env)          # Sym -> concrete value

    def truth(self, x):
        return bool(x)

    def ev(self, v):
        m = getattr(self, 'ev_' + v.__class__.__name__, None)
        if m is None:
            raise NotEvaluable('value %r' % (v,))
        return m(v)

    def ev_Const(self, v):
        return v.v

    def ev_Sym(self, v):
        if v in self.env:
            return self.env[v]
        if v.meta and v.meta[0] == 'elem':
            raise NeedChoice(v)
        raise NotEvaluable('free symbol %r' % (v,))

    def ev_Tup(self, v):
        return tuple(self.ev(x) for x in v.items)

    fold_state = None

    def ev_Coll(self, v):
        if self.fold_state is not None and v.oid in self.fold_state:
            cur = self.fold_state[v.oid]
            if isinstance(cur, dict):
                return dict(cur)
            return frozenset(cur) if v.kind == 'set' else tuple(cur)
        if isinstance(v.havoc, FoldInfo):
            return self.eval_fold(v.havoc)[v.oid]
        if v.havoc:
            raise NotEvaluable('container with removals')
        if v.kind == 'dict':
            d = {}
            for k, val in self.parts(v.parts, True):
                d[k] = val
            return d
        items = [x for x in self.parts(v.parts, False)]
        if v.kind == 'set':
            return frozenset(items)
        return tuple(items)

    def eval_fold(self, fi):
        cache = getattr(self, '_fold_cache', None)
        if cache is None:
            cache = self._fold_cache = {}
        if id(fi) in cache:
            return cache[id(fi)]
        gens_sig = None
        for (seq, oid, p) in fi.steps:
            g = tuple(p.gens)
            if gens_sig is None:
                gens_sig = g
            elif g != gens_sig:
                raise NotEvaluable('stateful loop with steps at different '
                                   'nesting depths')
            if any(v is None for (v, _) in g):
                raise NotEvaluable('stateful while loop')
        results = []
        for order in ('asc', 'desc'):
            state = {}
            for oid, (kind, eparts) in fi.entry.items():
                if kind == 'dict':
                    state[oid] = dict(self.parts(eparts, True))
                else:
                    state[oid] = list(self.parts(eparts, False))
            saved = self.fold_state
            self.fold_state = state
            try:
                self._fold_iter(fi, gens_sig or (), 0, order, state)
            finally:
                self.fold_state = saved
            res = {}
            for oid, (kind, _) in fi.entry.items():
                if kind == 'dict':
                    res[oid] = dict(state[oid])
                elif kind == 'set':
                    res[oid] = frozenset(state[oid])
                else:
                    res[oid] = tuple(state[oid])
            results.append(res)
        a, b = results
        same = all(_freeze(a[o]) == (_freeze(b[o]) if fi.entry[o][0] != 'list'
                                    else _freeze(a[o])) for o in a) and \
            all(frozenset(map(_freeze, a[o])) == frozenset(map(_freeze, b[o]))
                for o in a if fi.entry[o][0] == 'list')
        if not same:
            raise GraphError('the result of a loop depends on the iteration '
                             'order of a set')
        cache[id(fi)] = a
        return a

    def _fold_iter(self, fi, gens, gi, order, state):
        if gi == len(gens):
            for (seq, oid, p) in fi.steps:
                ok = True
                for (c, pol) in p.conds:
                    if self.is_marker(c):
                        ok = False
                        break
                    if bool(self.ev(c)) != pol:
                        ok = False
                        break
                if not ok:
                    continue
                kind = fi.entry[oid][0]
                if p.kind == 'spread':
                    items = list(self.ev(p.val))
                else:
                    items = [self.ev(p.val)]
                for it in items:
                    if kind == 'dict':
                        state[oid][self.ev(p.key)] = it
                    elif kind == 'set':
                        if it not in state[oid]:
                            state[oid].append(it)
                    else:
                        state[oid].append(it)
            return
        var, it = gens[gi]
        coll = self.ev(it)
        if isinstance(coll, dict):
            coll = list(coll.keys())
        coll = sorted(coll, key=repr, reverse=(order == 'desc'))
        for e in coll:
            self.env[var] = e
            try:
                self._fold_iter(fi, gens, gi + 1, order, state)
            finally:
                del self.env[var]

    def parts(self, parts, isdict):
        for p in parts:
            for it in self.part(p, isdict, 0):
                yield it

    def part(self, p, isdict, gi):
        if gi == len(p.gens):
            try:
                for (c, pol) in p.conds:
                    if self.is_marker(c):
                        return        # implicit-exception path: not modelled
                    if bool(self.ev(c)) != pol:
                        return
                if p.kind == 'spread':
                    x = self.ev(p.val)
                    if isinstance(x, dict):
                        for kv in x.items():
                            yield kv if isdict else kv[0]
                    else:
                        for e in x:
                            yield e
                elif isdict:
                    yield (self.ev(p.key), self.ev(p.val))
                else:
                    yield self.ev(p.val)
            except NeedChoice as nc:
                src = self.ev(nc.sym.meta[1])
                src = list(src.keys()) if isinstance(src, dict) else list(src)
                if not src:
                    return
                self.choice_points += 1
                results = []
                for e in src:
                    self.env[nc.sym] = e
                    try:
                        results.append(list(self.part(p, isdict, gi)))
                    finally:
                        del self.env[nc.sym]
                mode = self.choice_mode
                sets = [frozenset(map(_freeze, r)) for r in results]
                if any(s != sets[0] for s in sets):
                    self.choice_dependent = True
                if mode == 'union':
                    seen = set()
                    for r in results:
                        for x in r:
                            if _freeze(x) not in seen:
                                seen.add(_freeze(x))
                                yield x
                else:
                    common = frozenset.intersection(*sets)
                    for x in results[0]:
                        if _freeze(x) in common:
                            yield x
            return
        var, it = p.gens[gi]
        if var is None:
            raise NotEvaluable('while-loop contribution')
        coll = self.ev(it)
        if isinstance(coll, dict):
            coll = list(coll.keys())
        for e in coll:
            self.env[var] = e
            try:
                for x in self.part(p, isdict, gi + 1):
                    yield x
            finally:
                del self.env[var]

    choice_mode = 'union'
    choice_dependent = False
    choice_points = 0

    def is_marker(self, c):
        return isinstance(c, App) and c.op == 'implicit_exc'

    def ev_Obj(self, v):
        raise NotEvaluable('heap reference %r (missing snapshot)' % (v,))

    def ev_New(self, v):
        raise NotEvaluable('constructed object %r' % (v,))

    def ev_App(self, v):
        if v in self.env:
            return self.env[v]
        m = getattr(self, 'op_' + v.op.replace('-', '_'), None)
        if m is None:
            raise NotEvaluable('operator %s' % v.op)
        return m(*v.args)

    # -- operators ------------------------------------------------------------
    def op_setop(self, op, a, b):
        a = self.ev(a)
        b = self.ev(b)
        a = frozenset(a.keys() if isinstance(a, dict) else a)
        b = frozenset(b.keys() if isinstance(b, dict) else b)
        return {'|': a | b, '&': a & b, '-': a - b, '^': a ^ b}[op.v]

    def op_setfold(self, name, recv, others):
        rest = list(self.ev(others))
        if recv == Const('$unbound'):
            # set.union(*xs): the first of xs is the receiver
            if not rest:
                raise GraphError("TypeError: unbound method set.%s() needs "
                                 "an argument" % name.v)
            acc, rest = rest[0], rest[1:]
        else:
            acc = self.ev(recv)
        acc = frozenset(acc.keys() if isinstance(acc, dict) else acc)
        for o in rest:
            o = frozenset(o.keys() if isinstance(o, dict) else o)
            acc = {'intersection': acc & o, 'union': acc | o,
                   'difference': acc - o}[name.v]
        return acc

    def op_in(self, item, cont):
        c = self.ev(cont)
        return self.ev(item) in c

    def op_not(self, a):
        return not self.ev(a)

    def op_bool(self, a):
        return bool(self.ev(a))

    def op_and(self, *a):
        return all(self.ev(x) for x in a)

    def op_or(self, *a):
        return any(self.ev(x) for x in a)

    def op_ite(self, c, a, b):
        return self.ev(a) if self.ev(c) else self.ev(b)

    def op_cmp(self, op, a, b):
        a = self.ev(a)
        b = self.ev(b)
        o = op.v
        if o == '==':
            return a == b
        if o == '!=':
            return a != b
        if o == 'is':
            return a is b or (a == b and isinstance(a, (bool, type(None))))
        if o == 'is not':
            return not (a is b)
        if o == '<':
            return a < b
        if o == '<=':
            return a <= b
        if o == '>':
            return a > b
        if o == '>=':
            return a >= b
        raise NotEvaluable('comparison ' + o)

    def op_exists(self, var, it, conds):
        if isinstance(var, Const):
            raise NotEvaluable('exit condition of a while loop')
        coll = self.ev(it)
        if isinstance(coll, dict):
            coll = list(coll.keys())
        for e in coll:
            self.env[var] = e
            try:
                ok = True
                for cp in conds.items:
                    c, pol = cp.items
                    if self.is_marker(c):
                        ok = False
                        break
                    if bool(self.ev(c)) != pol.v:
                        ok = False
                        break
                if ok:
                    return True
            finally:
                del self.env[var]
        return False

    def op_len(self, a):
        return len(self.ev(a))

    def op_item(self, a, i):
        a = self.ev(a)
        i = self.ev(i)
        if isinstance(a, (set, frozenset)):
            # the model has no order for this value (a component, a set of
            # successors): which member is "number i" is not decided here
            raise NotEvaluable('member number %r of the unordered %r' % (
                i, sorted(a, key=repr)[:4]))
        try:
            return a[i]
        except (KeyError, IndexError, TypeError):
            raise GraphError('subscript %r of %r' % (i, a))

    def op_dictget(self, d, k, default=None):
        d = self.ev(d)
        k = self.ev(k)
        if not isinstance(d, dict):
            raise NotEvaluable('get on %r' % (d,))
        if k in d:
            return d[k]
        return None if default is None else self.ev(default)

    def op_iter(self, a):
        return self.ev(a)

    def op_gen(self, a):
        return self.ev(a)

    def op_range(self, *a):
        return tuple(range(*[self.ev(x) for x in a]))

    def op_dictview(self, k, d):
        d = self.ev(d)
        if k.v == 'keys':
            return tuple(d.keys())
        if k.v == 'values':
            return tuple(d.values())
        return tuple(d.items())

    def op_binop(self, op, a, b):
        a, b = self.ev(a), self.ev(b)
        if isinstance(a, dict):
            a = frozenset(a)
        if isinstance(b, dict):
            b = frozenset(b)
        return {'+': lambda: a + b, '-': lambda: a - b,
                '*': lambda: a * b, '&': lambda: a & b,
                '|': lambda: a | b, '^': lambda: a ^ b}[op.v]()

    def op_max(self, *a):
        vals = [self.ev(x) for x in a]
        if len(vals) == 1:
            return max(vals[0])
        return max(vals)

    def op_min(self, *a):
        vals = [self.ev(x) for x in a]
        if len(vals) == 1:
            return min(vals[0])
        return min(vals)

    def op_sum(self, a):
        return sum(self.ev(a))

    def op_any(self, a):
        return any(self.ev(a))

    def op_all(self, a):
        return all(self.ev(a))

    # graph primitives
    def op_nodes(self, g):
        return self.ev(g).nodes

    def op_next(self, g, v):
        g = self.ev(g)
        v = self.ev(v)
        if v not in g.nodes:
            raise GraphError('next of a non-node %r' % (v,))
        return g.succ[v]

    def op_edges(self, g):
        return self.ev(g).edges()

    def op_sources(self, g):
        g = self.ev(g)
        return frozenset(n for n in g.nodes if g.succ[n])

    def op_subgraph(self, g, X):
        return g_subgraph(self.ev(g), self.ev(X))

    def op_reversed(self, g):
        return g_reversed(self.ev(g))

    def op_reach(self, g, X):
        return g_reach(self.ev(g), self.ev(X))

    def op_inst(self, cref, oid, fields):
        d = {kv.items[0].v: kv.items[1] for kv in fields.items}
        adj = self.env.get('$adjfield', '_next')
        if adj in d:
            nx = self.ev(d[adj])
            if not isinstance(nx, dict):
                raise NotEvaluable('adjacency field is %r' % (nx,))
            nodes = set(nx.keys())
            for k, vs in nx.items():
                for x in vs:
                    if x not in nodes:
                        raise GraphError('edge to a non-node %r' % (x,))
            return CG(nodes, nx)
        if '$base' in d:
            return self.op_graph(d['$base'], d['$edges'], d['$nodes'],
                                 d.get('$sedges'))
        raise NotEvaluable('instance without adjacency')

    def op_gcopy(self, g):
        return self.ev(g)

    def op_mkgraph(self, V, E):
        V = self.ev(V)
        E = self.ev(E)
        succ = {}
        for n in (V or ()):
            succ[n] = set()
        for (s, d) in (E or ()):
            succ.setdefault(s, set()).add(d)
            succ.setdefault(d, set())
        return CG(succ.keys(), succ)

    def op_mkkripke(self, V, E):
        g = self.op_mkgraph(V, E)
        for n in g.nodes:
            if not g.succ[n]:
                raise GraphError('Kripke structure with a non-total '
                                 'transition relation (state %r)' % (n,))
        return g

    def op_sccs(self, g):
        return g_sccs(self.ev(g))

    def op_graph(self, base, edges, nodes, sedges=None):
        g = self.ev(base)
        if not hasattr(g, 'nodes') and hasattr(g, 'g'):
            g = g.g         # the graph part of a Kripke value
        succ = {n: set(g.succ[n]) for n in g.nodes}
        if sedges is not None:
            for (s, d) in self.ev(sedges):
                if s in succ and d in succ[s]:
                    raise GraphError('add_edge of an existing edge %r '
                                     'outside try/except' % ((s, d),))
                succ.setdefault(s, set())
                succ.setdefault(d, set())
                succ[s].add(d)
        for n in self.ev(nodes):
            if n in succ:
                raise GraphError('add_node of an existing node %r' % (n,))
            succ[n] = set()
        for (s, d) in self.ev(edges):
            succ.setdefault(s, set())
            succ.setdefault(d, set())
            succ[s].add(d)
        return CG(succ.keys(), succ)

    def op_labels(self, g, s):
        g = self.ev(g)
        s = self.ev(s)
        if s not in g.nodes:
            raise GraphError('labels of a non-state %r' % (s,))
        return self.env['$labels'][s]

    def op_labeldict(self, g):
        # the labelling dictionary may carry keys that are not states
        # (replace_labelling_function keeps them)
        return dict(self.env.get('$labeldict', self.env['$labels']))

    def op_alllabels(self, g):
        r = set()
        for v in self.env['$labels'].values():
            r |= v
        return frozenset(r)


def deep_snapshot(I, v, path, seen=None):
    """immutable description of a value including the heap objects it
    reaches: containers -> Coll with snapshotted parts, instances ->
    App('inst', CRef, Tup((name, value)..))"""
    seen = seen or ()
    if isinstance(v, Obj):
        if v.oid in seen:
            return App('cycle', Const(v.oid))
        h = path.heap[v.oid]
        seen = seen + (v.oid,)
        if h.kind in ('list', 'set', 'dict'):
            parts = []
            for p in h.parts:
                parts.append(Part(
                    p.kind, deep_snapshot(I, p.val, path, seen),
                    key=None if p.key is None else
                    deep_snapshot(I, p.key, path, seen),
                    gens=[(g, deep_snapshot(I, it, path, seen))
                          for (g, it) in p.gens],
                    conds=[(deep_snapshot(I, c, path, seen), pol)
                           for (c, pol) in p.conds]))
            return Coll(v.oid, h.kind, parts, h.havoc)
        if h.kind == 'inst':
            items = [Tup((Const(k), deep_snapshot(I, x, path, seen)))
                     for k, x in sorted(h.fields.items())]
            return App('inst', CRef(h.ci), Const(v.oid), Tup(items))
        return v
    if isinstance(v, Coll):
        return Coll(v.oid, v.kind, [Part(
            p.kind, deep_snapshot(I, p.val, path, seen),
            key=None if p.key is None else deep_snapshot(I, p.key, path,
                                                         seen),
            gens=[(g, deep_snapshot(I, it, path, seen))
                  for (g, it) in p.gens],
            conds=[(deep_snapshot(I, c, path, seen), pol)
                   for (c, pol) in p.conds]) for p in v.parts], v.havoc)
    if isinstance(v, Tup):
        return Tup([deep_snapshot(I, x, path, seen) for x in v.items])
    if isinstance(v, App):
        return App(v.op, *[deep_snapshot(I, x, path, seen)
                           if isinstance(x, V) else x for x in v.args])
    return v


class NeedChoice(Exception):
    def __init__(self, sym):
        self.sym = sym


def _freeze(x):
    if isinstance(x, (set, frozenset)):
        return frozenset(_freeze(e) for e in x)
    if isinstance(x, (list, tuple)):
        return tuple(_freeze(e) for e in x)
    if isinstance(x, dict):
        return frozenset((_freeze(k), _freeze(v)) for k, v in x.items())
    return x


def evaluate_set(v, env):
    """value of the set-valued term under every resolution of arbitrary
    choices (`next(iter(X))`): returns (lower, upper) -- equal unless the
    term depends on the choice"""
    out = []
    for mode in ('union', 'inter'):
        e = Evaluator(env)
        e.choice_mode = mode
        r = e.ev(v)
        out.append(_freeze(r))
        if not e.choice_points:
            out.append(out[0])
            break
    return out[0], out[1]


def all_graphs(n, total=False):
    """all digraphs on nodes 0..n-1 (total: every node has a successor)"""
    subsets = [frozenset(c) for r in range(0 if not total else 1, n + 1)
               for c in itertools.combinations(range(n), r)]
    for succ in itertools.product(subsets, repeat=n):
        yield CG(range(n), {i: succ[i] for i in range(n)})


def all_subsets(n):
    for r in range(n + 1):
        for c in itertools.combinations(range(n), r):
            yield frozenset(c)
