"""R-MEMO-1 -- `functools.lru_cache` / `functools.cache` on a function of the
package remembers its answers for the life of the process, under the hash /
== of its arguments.  When an argument is an object of the package that can
change after the call (a Kripke structure or graph: hashed by identity,
edited in place by add_edge / labels(s).add ..; a formula: hashed by its
printed form, its operands re-assignable), a later call with the same object
is answered from the table: the answer of a structure that no longer exists.

Reported only with a positive witness: the decorator resolves to functools'
cache and some parameter is *used as a package object* -- an attribute or
method of a package class is read on it, in the function itself or in a
package function / constructor it is handed to (followed three calls deep).
A cached function of strings / numbers only, or without parameters, is left
alone."""
import ast

_CACHES = ('functools.lru_cache', 'functools.cache')


def _cache_decorator(prog, fi):
    for d in fi.node.decorator_list:
        f = d.func if isinstance(d, ast.Call) else d
        x = prog.eval_static(fi.module, f)
        if getattr(x, 'name', None) in _CACHES:
            return ast.unparse(d)
    return None


def _package_member_names(prog):
    names = set()
    for c in prog.classes.values():
        for k, v in c.attrs.items():
            if not (k.startswith('__') and k.endswith('__')):
                names.add(k)
        for n in ast.walk(c.node):
            if isinstance(n, ast.Attribute) and isinstance(n.ctx, ast.Store) \
                    and isinstance(n.value, ast.Name) and n.value.id == 'self':
                names.add(n.attr)
    return names - set(dir(str)) - set(dir(int)) - set(dir(tuple))


def _callee(prog, module, call):
    """(function node, index shift) of a call to a package function or class
    (constructor: the parameters after self)"""
    x = prog.eval_static(module, call.func) if isinstance(
        call.func, (ast.Name, ast.Attribute)) else None
    if x is None:
        return None
    if getattr(x, 'kind', None) == 'func' and isinstance(
            getattr(x, 'node', None), ast.FunctionDef):
        return x.node, x.module, 0
    if getattr(x, 'kind', None) == 'class':
        r = x.lookup('__init__')
        if r is not None and isinstance(r[1], ast.FunctionDef):
            return r[1], r[0].module, 1
    return None


def _same_object_names(fnode, pname):
    """names that (may) denote the parameter's object or a member of a
    container it was put into -- only through displays, pop / subscript /
    iteration and append / add (a worklist seeded with the parameter), never
    through a call that could build a new object"""
    D = {pname}

    def derived(e):
        if isinstance(e, ast.Name):
            return e.id in D
        if isinstance(e, (ast.List, ast.Tuple, ast.Set)):
            return any(derived(x) for x in e.elts)
        if isinstance(e, ast.Starred):
            return derived(e.value)
        if isinstance(e, ast.Subscript):
            return derived(e.value)
        if isinstance(e, ast.Call) and isinstance(e.func, ast.Attribute) and \
                e.func.attr in ('pop', 'copy', 'popleft') and \
                derived(e.func.value):
            return True
        if isinstance(e, ast.Call) and isinstance(e.func, ast.Name) and \
                e.func.id in ('list', 'set', 'tuple', 'deque', 'iter',
                              'next') and len(e.args) >= 1 and \
                derived(e.args[0]):
            return True
        return False
    for _ in range(4):
        for n in ast.walk(fnode):
            if isinstance(n, ast.Assign) and derived(n.value):
                for t in n.targets:
                    if isinstance(t, ast.Name):
                        D.add(t.id)
            elif isinstance(n, (ast.For, ast.comprehension)) and \
                    derived(n.iter) and isinstance(n.target, ast.Name):
                D.add(n.target.id)
            elif isinstance(n, ast.Call) and \
                    isinstance(n.func, ast.Attribute) and \
                    n.func.attr in ('append', 'add', 'appendleft', 'extend') \
                    and isinstance(n.func.value, ast.Name) and \
                    any(derived(a) for a in n.args):
                D.add(n.func.value.id)
    return D


def object_use(prog, fnode, module, pname, members, depth=3, seen=None):
    """a description of how parameter `pname` is used as a package object,
    or None"""
    seen = seen if seen is not None else set()
    if (id(fnode), pname) in seen:
        return None
    seen.add((id(fnode), pname))
    same = _same_object_names(fnode, pname)
    for n in ast.walk(fnode):
        if isinstance(n, ast.Attribute) and isinstance(n.value, ast.Name) \
                and n.value.id in same and n.attr in members:
            return '%s.%s (line %d)' % (n.value.id, n.attr, n.lineno)
    if depth <= 0:
        return None
    for n in ast.walk(fnode):
        if not isinstance(n, ast.Call):
            continue
        tgt = _callee(prog, module, n)
        if tgt is None:
            continue
        cnode, cmod, shift = tgt
        params = [a.arg for a in cnode.args.args]
        for i, a in enumerate(n.args):
            if isinstance(a, ast.Name) and a.id == pname and \
                    i + shift < len(params):
                u = object_use(prog, cnode, cmod, params[i + shift], members,
                               depth - 1, seen)
                if u:
                    return 'handed to %s, where %s' % (ast.unparse(n.func), u)
        for k in n.keywords:
            if k.arg in params and isinstance(k.value, ast.Name) and \
                    k.value.id == pname:
                u = object_use(prog, cnode, cmod, k.arg, members, depth - 1,
                               seen)
                if u:
                    return 'handed to %s, where %s' % (ast.unparse(n.func), u)
    return None


def rule(prog, prop, files=None):
    from .report import Finding, RuleResult, floor
    r = RuleResult('R-MEMO-1', 'no function that works on objects of the '
                   'package is wrapped in functools.lru_cache / cache '
                   '(answers remembered across calls under the identity / '
                   'printed form of objects that can change)')
    members = _package_member_names(prog)
    n = 0
    for f in prog.all_functions():
        if files is not None and not any(f.module.relpath.endswith(x)
                                         for x in files):
            continue
        n += 1
        dec = _cache_decorator(prog, f)
        if dec is None:
            continue
        params = [a.arg for a in f.node.args.args]
        use = None
        for p in params:
            use = object_use(prog, f.node, f.module, p, members)
            if use:
                break
        r.inst(function=f.short(), decorator=dec, object_parameter=use)
        if use:
            r.fail(Finding(
                prop, 'R-MEMO-1', f.where(), f.short(),
                'process-wide-cache:%s' % f.short(),
                '%s is wrapped in `%s`: its answers are remembered for the '
                'life of the process under the hash / == of the arguments, '
                'and an argument is an object of the package (%s) -- a '
                'structure is hashed by identity and edited in place, a '
                'formula is hashed by its printed form -- so after the '
                'object has changed the old answer is returned' % (
                    f.short(), dec, use)), witness=use)
        else:
            r.ok()
    r.inst(functions_scanned=n)
    if not r.findings:
        r.ok()
    floor('R-MEMO-1', 'functions scanned', n, 3)
    floor('R-MEMO-1', 'member names of package classes', len(members), 20)
    return r
