"""findings, known findings, evidence files, exit codes"""
import hashlib
import json
import os
import sys
import time

VERIF = os.path.dirname(os.path.dirname(os.path.abspath(__file__)))
KNOWN = os.path.join(VERIF, 'known_findings.json')


class Finding(object):
    def __init__(self, prop, rule, where, qualname, key_text, message,
                 expected=None, found=None, extra=None):
        self.prop = prop
        self.rule = rule
        self.where = where              # file:line
        self.qualname = qualname
        self.key_text = key_text        # normalised construct text
        self.message = message
        self.expected = expected
        self.found = found
        self.extra = extra or {}

    @property
    def key(self):
        return '%s|%s|%s' % (self.rule, self.qualname, self.key_text)

    def to_json(self):
        return {'property': self.prop, 'rule': self.rule,
                'where': self.where, 'qualname': self.qualname,
                'construct_key': self.key, 'message': self.message,
                'expected': self.expected, 'found': self.found,
                'extra': self.extra}

    def __repr__(self):
        return '%s %s %s: %s' % (self.rule, self.where, self.qualname,
                                 self.message)


def opaque_in(v, transparent=()):
    """description of the first construct inside value(s) `v` that the
    abstract interpreter kept symbolic without understanding it, or None"""
    from .values import App, Sym, FRef, Bound, walk, V
    vs = v if isinstance(v, (list, tuple)) else [v]
    for one in vs:
        if not isinstance(one, V):
            continue
        for x in walk(one):
            if isinstance(x, App) and x.op == 'call':
                fv = x.args[0]
                fi = fv.fi if isinstance(fv, FRef) else (
                    fv.f.fi if isinstance(fv, Bound) else None)
                if fi is None or fi not in transparent:
                    return repr(x)[:100]
            elif isinstance(x, Sym) and x.meta and x.meta[0] in (
                    'elem', 'next', 'widened', 'loopvar'):
                return repr(x)
    return None


class RuleResult(object):
    """what one rule looked at"""

    def __init__(self, rule, title):
        self.rule = rule
        self.title = title
        self.instances = []     # dicts (written to evidence as samples)
        self.obligations = 0
        self.discharged = 0
        self.findings = []
        self.notes = []
        self.undecided = []
        self.transparent = ()   # callees whose symbolic calls are expected

    def inst(self, **kw):
        self.instances.append(kw)

    def ok(self, n=1):
        self.obligations += n
        self.discharged += n

    def fail(self, finding, n=1, witness=None, transparent=()):
        """record a finding.  `witness`: the extracted value(s) the finding
        is about -- when the mismatch is between an *expected shape* and what
        was extracted.  If the witness contains something the interpreter
        did not see through (the result of a call it kept symbolic, an
        element taken from an iterator, a widened variable) the rule has
        not established a violation: the obligation is recorded as
        undecided (INCONCLUSIVE), not as a finding.  `transparent`: callees
        (FuncInfo) whose symbolic calls are part of the expected shape."""
        self.obligations += n
        if witness is not None:
            why = opaque_in(witness, tuple(transparent) +
                            tuple(self.transparent))
            if why is not None:
                self.undecided.append('%s %s: %s [not seen through: %s]' % (
                    finding.rule, finding.where, finding.message[:200], why))
                return
        self.findings.append(finding)

    def summary(self):
        return {'rule': self.rule, 'title': self.title,
                'instances': len(self.instances),
                'obligations': self.obligations,
                'discharged': self.discharged,
                'findings': len(self.findings), 'notes': self.notes}


def load_known():
    if not os.path.exists(KNOWN):
        return []
    with open(KNOWN) as fh:
        return json.load(fh).get('findings', [])


def finish(prop, tier, seed, results, t0, explanation, assumptions,
           write_evidence=True, extra_cov=None, quiet=False):
    """print the report, write evidence, return the exit code"""
    known = [k for k in load_known() if k.get('property') == prop]
    known_keys = {k['construct_key']: k for k in known
                  if k.get('status') == 'known'}
    findings = [f for r in results for f in r.findings]
    new = []
    listed = []
    for f in findings:
        if f.key in known_keys:
            listed.append(f)
        else:
            new.append(f)
    out = []
    for r in results:
        out.append('RULE %-10s %-58s instances=%-3d obligations=%d/%d' % (
            r.rule, r.title[:58], len(r.instances), r.discharged,
            r.obligations))
        for n in r.notes:
            out.append('     note: ' + n)
    seen = set()
    for f in listed:
        if f.key in seen:
            continue
        seen.add(f.key)
        out.append('KNOWN-FINDING: property=%s %s %s %s -- %s' % (
            prop, f.rule, f.where, f.qualname, f.message))
    replays = []
    for f in new:
        d = os.path.join(VERIF, 'evidence', 'replay', prop)
        h = hashlib.sha1(f.key.encode()).hexdigest()[:10]
        path = os.path.join(d, '%s-%s.json' % (f.rule, h))
        if write_evidence:
            os.makedirs(d, exist_ok=True)
            with open(path, 'w') as fh:
                json.dump(f.to_json(), fh, indent=1, default=str)
        replays.append(path)
        out.append('FINDING %s %s %s: %s' % (f.rule, f.where, f.qualname,
                                             f.message))
        if f.expected is not None:
            out.append('        expected: %s' % (f.expected,))
        if f.found is not None:
            out.append('        found:    %s' % (f.found,))
        out.append('VIOLATION property=%s replay=%s' % (prop, path))
    stale = [k for k in known_keys if k not in {f.key for f in findings}]
    for k in stale:
        out.append('note: listed known finding no longer reported: ' + k)
    wall = time.time() - t0
    inst = sum(len(r.instances) for r in results)
    nontriv = len({json.dumps(i, sort_keys=True, default=str)
                   for r in results for i in r.instances
                   if i.get('nontrivial', True)})
    samples = []
    for r in results:
        for i in r.instances[:4]:
            d = dict(i)
            d['rule'] = r.rule
            samples.append(d)
    cov = {
        'explanation': explanation,
        'evaluations': inst,
        'distinct_nontrivial': nontriv,
        'rule': 'one evaluation = one rule instance (call site, path, '
                'template, production, class) decided on the current '
                'source; non-trivial = the instance carries an obligation '
                'that the rule could have failed; distinct = distinct '
                'instance descriptors',
        'samples': samples[:40],
        'obligations': sum(r.obligations for r in results),
        'discharged': sum(r.discharged for r in results),
        'rules': [r.summary() for r in results],
        'known_findings_reported': sorted(seen),
        'new_findings': [f.to_json() for f in new],
    }
    if extra_cov:
        cov.update(extra_cov)
    ev = {'property_id': prop, 'tier': tier, 'seed': seed, 'level': 'other',
          'coverage': cov, 'assumptions': assumptions,
          'wall_s': round(wall, 3), 'violations': len(new)}
    if write_evidence:
        os.makedirs(os.path.join(VERIF, 'evidence'), exist_ok=True)
        with open(os.path.join(VERIF, 'evidence', prop + '.json'), 'w') as fh:
            json.dump(ev, fh, indent=1, default=str)
    if not quiet:
        print('\n'.join(out))
        print('%s %s: %d rule instances, %d/%d obligations, %d new finding(s),'
              ' %d known, %.2fs' % (prop, tier, inst, cov['discharged'],
                                    cov['obligations'], len(new), len(seen),
                                    wall))
    return 1 if new else 0, ev, new


def floor(rule, what, found, minimum):
    from .program import AnalysisError
    if found < minimum:
        raise AnalysisError('%s: %s: found %d, expected at least %d '
                            '(instance floor)' % (rule, what, found, minimum))


class Attempts(object):
    """run the rules of one property independently: a rule that cannot be
    decided (construct outside the interpreted fragment, vanished anchor,
    internal error) is recorded and the other rules still run.  A positive
    finding of any rule is reported (exit 1); with no finding, an undecided
    rule makes the run INCONCLUSIVE (exit 2) -- never a silent pass."""

    def __init__(self):
        self.inconclusive = []

    def __call__(self, fn, *a, **kw):
        n = kw.pop('_n', 1)
        from .program import AnalysisError, Inconclusive
        try:
            return fn(*a, **kw)
        except Inconclusive as e:
            self.inconclusive.append('INCONCLUSIVE %s' % e)
            if getattr(e, 'partial', None) is not None:
                # what the rule had established before it met the
                # construct it could not decide
                return e.partial
        except AnalysisError as e:
            self.inconclusive.append('ANALYSIS-ERROR %s' % e)
        except Exception as e:
            import traceback
            tb = traceback.format_exc().strip().splitlines()
            self.inconclusive.append(
                'ANALYSIS-ERROR internal error in %s: %s: %s [%s]' % (
                    getattr(fn, '__name__', fn), e.__class__.__name__, e,
                    tb[-3].strip() if len(tb) >= 3 else ''))
        return None if n == 1 else (None,) * n

    def skipped(self, what):
        self.inconclusive.append('INCONCLUSIVE %s not run (a rule it depends '
                                 'on was undecided)' % what)

    def results(self, *rs):
        out = self._results(*rs)
        self._seen = getattr(self, '_seen', []) + out
        return out

    def _results(self, *rs):
        out = []
        for r in rs:
            if r is None:
                continue
            if isinstance(r, (list, tuple)):
                out.extend(x for x in r if isinstance(x, RuleResult))
            elif isinstance(r, RuleResult):
                out.append(r)
        return out

    def extra(self, d=None):
        d = dict(d or {})
        und = list(self.inconclusive)
        for r in getattr(self, '_seen', []):
            for u in r.undecided:
                und.append('INCONCLUSIVE ' + u)
        if und:
            d['undecided_rules'] = und
        return d


def adopt(results, prop, tag):
    """results of rules that belong to another property's module but decide
    a necessary condition of `prop` as well (the component this property
    relies on): reported under `prop`, the rule keeps its name"""
    out = []
    for r in (results if isinstance(results, (list, tuple)) else [results]):
        if not isinstance(r, RuleResult):
            continue
        for f in r.findings:
            f.prop = prop
        if tag not in r.title:
            r.title = '%s [%s]' % (r.title, tag)
        out.append(r)
    return out
