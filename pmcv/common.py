"""rules that are not tied to one function: they look at every function of the
source files a property relies on, and are run by every check for its own
files (check.py appends them to the rules of the property's module)."""
from .report import Attempts

GRAPH = ['graph.py', 'kripke.py']
MC = ['CTL/model_checking.py', 'LTL/model_checking.py',
      'CTLS/model_checking.py']
LANG = ['/language.py', 'PL/language.py', 'CTLS/language.py',
        'CTL/language.py', 'LTL/language.py']
PARSERS = ['/parser.py', 'PL/parser.py', 'CTLS/parser.py', 'CTL/parser.py',
           'LTL/parser.py']
BDD = ['BDD/BDD.py', 'BDD/OBDD.py', 'BDD/ordering.py']

FILES = {
    'C01': ['CTL/model_checking.py', 'CTL/language.py'] + GRAPH,
    'C02': ['LTL/model_checking.py', 'LTL/language.py'] + GRAPH,
    'C03': MC + GRAPH,
    'C04': MC + GRAPH,
    'C05': LANG,
    'C06': MC + GRAPH,
    'C07': MC + GRAPH,
    'C08': LANG + MC,
    'C09': LANG + PARSERS,
    'C10': PARSERS + LANG,
    'C11': LANG,
    'C12': ['graph.py'],
    'C13': ['graph.py'],
    'C14': GRAPH,
    'C15': GRAPH + MC + LANG,
    'C16': BDD,
    'C17': BDD,
    'C18': BDD,
    'C19': MC + GRAPH,
}


def common_rules(prog, prop):
    """-> (list of RuleResult, list of undecided-rule lines)"""
    from . import oneshot, defaults, classattrs, memo
    T = Attempts()
    files = FILES.get(prop)
    res = T.results(T(oneshot.rule, prog, prop, files),
                    T(defaults.rule, prog, prop, files),
                    T(classattrs.rule, prog, prop, files))
    if files is not BDD:
        # (BDD nodes are immutable and hashed by identity: a cache there
        # keeps nodes alive but returns nothing stale)
        res = res + T.results(T(memo.rule, prog, prop, files))
    return res, T.extra().get('undecided_rules', [])
